#!/bin/sh
# KNOWN-FINDING C38 R-TRACELCS compute_diff: the `d == 1` branch copies the snake's points into the lcs
# The common subsequence reported through the `lcs` out-parameter of diff_utils::compute_diff misses points:
# all pairs of strings of length <= 4 over {a,b,c} are compared with a dynamic-programming LCS.  Today the
# reported lcs has the wrong length for most pairs (first: "a" vs "a" -> 0 points), the points that are reported are
# valid and the length of the edit script is always right.   exit 0 = defect still present.
D=$(mktemp -d); trap 'rm -rf $D' EXIT
here=$(cd "$(dirname "$0")" && pwd)
g++ -std=c++11 -O1 -I/repo/include -I/repo "$here/lcs.cc" -o $D/lcs -L/repo/src/.libs -labigail -Wl,-rpath,/repo/src/.libs || exit 2
out=$($D/lcs); echo "$out"
case "$out" in *"lcs-length-wrong=0 "*) echo "lcs is complete (defect gone)"; exit 1;; esac
case "$out" in *"ses-length-wrong=0 "*) ;; *) echo "edit script length wrong too - a different defect"; exit 3;; esac
exit 0
