#include <cstdio>
#include <string>
#include <vector>
#include <algorithm>
#include "abg-diff-utils.h"
using namespace abigail::diff_utils;
static int dp(const std::string&a,const std::string&b){std::vector<std::vector<int>>t(a.size()+1,std::vector<int>(b.size()+1,0));for(size_t i=1;i<=a.size();++i)for(size_t j=1;j<=b.size();++j)t[i][j]=a[i-1]==b[j-1]?t[i-1][j-1]+1:std::max(t[i-1][j],t[i][j-1]);return t[a.size()][b.size()];}
int main(){
  std::vector<std::string> all; all.push_back("");
  for(size_t i=0;i<all.size();++i) if(all[i].size()<5) for(char c='a';c<='c';++c) all.push_back(all[i]+c);
  long n=0,badlen=0,badpts=0,badses=0; std::string ex;
  for(auto&a:all)for(auto&b:all){
    std::vector<point> lcs; edit_script ses; int ses_len=0;
    compute_diff<const char*, default_eq_functor>(a.c_str(),a.c_str()+a.size(),b.c_str(),b.c_str()+b.size(),lcs,ses,ses_len);
    ++n; int L=dp(a,b);
    if((int)lcs.size()!=L){++badlen; if(ex.empty()) ex="'"+a+"' '"+b+"' lcs="+std::to_string(lcs.size())+" expected "+std::to_string(L);}
    int px=-1,py=-1; for(auto&p:lcs){ if(p.x()<=px||p.y()<=py||p.x()>=(int)a.size()||p.y()>=(int)b.size()||a[p.x()]!=b[p.y()]) {++badpts;break;} px=p.x();py=p.y();}
    if(ses_len!=(int)a.size()+(int)b.size()-2*L) ++badses;
  }
  printf("pairs=%ld lcs-length-wrong=%ld lcs-points-invalid=%ld ses-length-wrong=%ld first: %s\n",n,badlen,badpts,badses,ex.c_str());
  return badlen||badpts||badses;
}
