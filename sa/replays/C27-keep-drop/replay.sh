#!/bin/sh
# fixed: property=C27 R-OPTARITY abidiff --keep-fn / --keep-var ; R-KEEPDROP abidiff set_corpus_keep_drop_regex_patterns
# Before the repairs: `abidiff --drop-fn foo a b`, `--keep foo`, ... compared exactly the same interfaces as without
# the option (the patterns were stored into the corpora after their exported sets had been built), and
# `--keep-fn foo` / `--keep-var gv` did not consume their operand ("unrecognized option" / operand taken for a file).
# exit 0 = every keep/drop option selects exactly the named interfaces.
D=$(mktemp -d); trap 'rm -rf $D' EXIT
cd $D || exit 2
printf 'struct S { int a; };\nint foo(struct S* s) { return s->a; }\nint bar(int x) { return x; }\nint gv = 1;\n' > v1.c
printf 'struct S { int a; int b; };\nint foo(struct S* s) { return s->a; }\nint bar(long x) { return x; }\nlong gv = 1;\n' > v2.c
gcc -g -shared -fPIC -o l1.so v1.c || exit 2
gcc -g -shared -fPIC -o l2.so v2.c || exit 2
rc=0
chk() { # expected-set  options...
  want=$1; shift
  got=$(/repo/tools/abidiff "$@" l1.so l2.so 2>&1 | sed -n "s/^ *\[C\] '\(function [a-z]* \)\{0,1\}\([a-z ]*[ ]\)\{0,1\}\([a-z]*\)[(' ].*/\3/p" | sort | tr '\n' ' ')
  if [ "$got" = "$want" ]; then echo "ok   abidiff $*  -> $got"; else echo "FAIL abidiff $*  -> '$got' (expected '$want')"; rc=1; fi
}
chk "bar foo gv "
chk "bar gv "  --drop-fn foo
chk "foo gv "  --keep-fn foo
chk "foo "     --keep foo
chk "bar foo " --drop-var gv
chk "bar foo gv " --keep-var gv
exit $rc
