#!/bin/sh
# fixed: property=C29 (also C18) R-INVBREAK get_version_needed_for_versym
# A library exports foo@@V1, bar@@V2, baz@@V3; the application uses all three.  Release 2 changes the parameter type of bar
# and baz.  The application's .gnu.version_r has one Verneed entry for the library with three Vernaux entries (V2, V1, V3);
# before the repair only the first one was ever looked at: baz and foo were given no version, `baz` did not match the
# library's baz@@V3, was dropped from the comparison, and abicompat reported the change of bar only.
# exit 0 = both changes are reported and every undefined symbol has its version, 1 = not.
D=$(mktemp -d); trap 'rm -rf $D' EXIT
cd $D
cat > v.map <<'E'
V1 { global: foo; local: *; };
V2 { global: bar; } V1;
V3 { global: baz; } V2;
E
cat > l1.c <<'E'
struct S { int a; };
int foo(struct S *s) { return s->a; }
int bar(struct S *s) { return s->a; }
int baz(struct S *s) { return s->a; }
E
cat > l2.c <<'E'
struct S { int a; };
struct T { long b; int a; };
int foo(struct S *s) { return s->a; }
int bar(struct T *s) { return s->a; }
int baz(struct T *s) { return s->a; }
E
cat > app.c <<'E'
struct S { int a; };
extern int foo(struct S*), bar(struct S*), baz(struct S*);
int main(void) { struct S s = {1}; return foo(&s) + bar(&s) + baz(&s); }
E
gcc -g -shared -fPIC -Wl,-soname,libl.so -Wl,--version-script=v.map -o lib1.so l1.c || exit 2
gcc -g -shared -fPIC -Wl,-soname,libl.so -Wl,--version-script=v.map -o lib2.so l2.c || exit 2
gcc -g -o app app.c ./lib1.so || exit 2
A=${ABICOMPAT:-/repo/tools/abicompat}
$A --list-undefined-symbols app > undef.txt; cat undef.txt
$A app lib1.so lib2.so > out.txt; echo "abicompat exit status $?"; grep '\[C\]' out.txt
bad=0
for s in foo bar baz; do grep -q "^$s@" undef.txt || { echo "undefined symbol $s has lost its version"; bad=1; }; done
grep -q "function int baz" out.txt || { echo "the change of baz@V3, which the application uses, is not reported"; bad=1; }
exit $bad
