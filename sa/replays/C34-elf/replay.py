#!/usr/bin/env python3
"""Replays of the KNOWN-FINDINGs of C34 (ELF symbol readers on corrupted binaries).

Each case builds a small shared object with gcc, corrupts one field of it (section header,
program header or section content) and runs a libabigail tool on it.  A case is *confirmed* when
the tool dies on a signal (SIGSEGV 11, SIGABRT 6, SIGFPE 8) instead of rejecting the file.
usage: replay.py [case ...]
"""
import os
import shutil
import struct
import subprocess
import sys
import tempfile

TOOLS = "/repo/tools"
SRC = """
int foo(int x) { return x; }
int bar(int x) { return x + 1; }
int gvar = 3;
"""
VERSIONED_SRC = """
__asm__(".symver foo_v1,foo@@VERS_1");
int foo_v1(int x) { return x; }
"""
VERSION_SCRIPT = "VERS_1 { global: foo; local: *; };\n"


class Elf64(object):
    def __init__(self, path):
        self.path = path
        self.b = bytearray(open(path, "rb").read())
        (self.phoff, self.shoff) = struct.unpack_from("<QQ", self.b, 0x20)
        (self.phentsize, self.phnum, self.shentsize, self.shnum, self.shstrndx) = struct.unpack_from("<HHHHH", self.b, 0x36)
        self.sections = []
        for i in range(self.shnum):
            off = self.shoff + i * self.shentsize
            name, typ, flags, addr, offset, size, link, info, align, entsize = struct.unpack_from("<IIQQQQIIQQ", self.b, off)
            self.sections.append(dict(i=i, hdr=off, name_off=name, type=typ, offset=offset, size=size, link=link,
                                      entsize=entsize))
        strtab = self.sections[self.shstrndx]
        for s in self.sections:
            o = strtab["offset"] + s["name_off"]
            e = self.b.index(b"\0", o)
            s["name"] = self.b[o:e].decode()

    def sec(self, name):
        for s in self.sections:
            if s["name"] == name:
                return s
        raise KeyError(name)

    def set_hdr(self, name, field, value):
        off = {"offset": 0x18, "size": 0x20, "entsize": 0x38, "link": 0x28}[field]
        fmt = "<I" if field == "link" else "<Q"
        struct.pack_into(fmt, self.b, self.sec(name)["hdr"] + off, value)

    def set_word(self, name, index, value):
        struct.pack_into("<I", self.b, self.sec(name)["offset"] + 4 * index, value)

    def get_word(self, name, index):
        return struct.unpack_from("<I", self.b, self.sec(name)["offset"] + 4 * index)[0]

    def phdrs(self):
        for i in range(self.phnum):
            off = self.phoff + i * self.phentsize
            p_type, p_flags, p_offset = struct.unpack_from("<IIQ", self.b, off)
            yield off, p_type, p_offset

    def save(self):
        open(self.path, "wb").write(self.b)


def build(d, hash_style="both", versioned=False, kernel=False, strip_hash=False):
    src = os.path.join(d, "a.c")
    so = os.path.join(d, "liba.so")
    extra = []
    if versioned:
        open(src, "w").write(VERSIONED_SRC)
        open(os.path.join(d, "v.map"), "w").write(VERSION_SCRIPT)
        extra = ["-Wl,--version-script=" + os.path.join(d, "v.map")]
    elif kernel:
        open(src, "w").write('int exported_fn(int x){return x;}\n'
                             'const char kstr[] __attribute__((section("__ksymtab_strings"))) = "exported_fn";\n'
                             'static int __ksymtab_exported_fn __attribute__((used)) = 0;\n')
        open(os.path.join(d, "b.c"), "w").write('static int __ksymtab_exported_fn __attribute__((used)) = 1;\n'
                                                 'int other(void){return __ksymtab_exported_fn;}\n')
        extra = [os.path.join(d, "b.c")]
    else:
        open(src, "w").write(SRC)
    subprocess.check_call(["gcc", "-g", "-shared", "-fPIC", "-Wl,--hash-style=" + hash_style, "-o", so, src] + extra)
    if strip_hash:
        subprocess.check_call(["objcopy", "--remove-section", ".hash", "--remove-section", ".gnu.hash", so])
    return so


def abisym(so):
    return [os.path.join(TOOLS, "abisym"), so, "foo"]


def abidw(so):
    return [os.path.join(TOOLS, "abidw"), so]


def case_sysv_nbuckets(d):
    so = build(d, "sysv")
    e = Elf64(so)
    e.set_word(".hash", 0, 0x0fffffff)
    e.save()
    return abisym(so)


def case_sysv_bucket_values(d):
    so = build(d, "sysv")
    e = Elf64(so)
    nb = e.get_word(".hash", 0)
    for i in range(nb):
        e.set_word(".hash", 2 + i, 0x0fffffff)
    e.save()
    return abisym(so)


def case_sysv_hash_data_missing(d):
    so = build(d, "sysv")
    e = Elf64(so)
    e.set_hdr(".hash", "offset", len(e.b) + 0x100000)
    e.save()
    return abisym(so)


def case_sysv_dynsym_data_missing(d):
    so = build(d, "sysv")
    e = Elf64(so)
    e.set_hdr(".dynsym", "offset", len(e.b) + 0x100000)
    e.save()
    return abisym(so)


def case_gnu_bloom_count(d):
    so = build(d, "gnu")
    e = Elf64(so)
    e.set_word(".gnu.hash", 2, 0x00ffffff)
    e.save()
    return abisym(so)


def case_gnu_hash_data_missing(d):
    so = build(d, "gnu")
    e = Elf64(so)
    e.set_hdr(".gnu.hash", "offset", len(e.b) + 0x100000)
    e.save()
    return abisym(so)


def case_gnu_hash_empty(d):
    so = build(d, "gnu")
    e = Elf64(so)
    e.set_hdr(".gnu.hash", "size", 0)
    e.save()
    return abisym(so)


def case_gnu_dynsym_entsize_zero(d):
    so = build(d, "gnu")
    e = Elf64(so)
    e.set_hdr(".dynsym", "entsize", 0)
    e.save()
    return abisym(so)


def case_gnu_bucket_values(d):
    so = build(d, "gnu")
    e = Elf64(so)
    nb = e.get_word(".gnu.hash", 0)
    bloom = e.get_word(".gnu.hash", 2)
    first = 4 + 2 * bloom
    for i in range(nb):
        e.set_word(".gnu.hash", first + i, 0x00ffffff)
    # make the bloom filter accept everything
    for i in range(2 * bloom):
        e.set_word(".gnu.hash", 4 + i, 0xffffffff)
    e.save()
    return abisym(so)


def case_symtab_entsize_zero(d):
    so = build(d, "both", strip_hash=True)
    e = Elf64(so)
    for n in (".dynsym", ".symtab"):
        try:
            e.set_hdr(n, "entsize", 0)
        except KeyError:
            pass
    e.save()
    return abisym(so)


def case_symtab_entsize_one(d):
    so = build(d, "both", strip_hash=True)
    e = Elf64(so)
    for n in (".dynsym", ".symtab"):
        try:
            e.set_hdr(n, "entsize", 1)
        except KeyError:
            pass
    e.save()
    return abisym(so)


def case_dynamic_entries_beyond_data(d):
    so = build(d)
    e = Elf64(so)
    e.set_hdr(".dynamic", "size", e.sec(".dynamic")["size"] * 64)
    e.save()
    return abidw(so)


def _kernel_module(d, marker):
    """a relocatable object (like a .ko) with a __ksymtab_strings section and two local symbols of one name"""
    open(os.path.join(d, "a.c"), "w").write(
        'int exported_fn(int x){return x;}\n'
        'const char kstr[] __attribute__((section("__ksymtab_strings"))) = "exported_fn";\n'
        'static int %s_exported_fn __attribute__((used)) = 0;\n' % marker)
    open(os.path.join(d, "b.c"), "w").write(
        'static int %s_exported_fn __attribute__((used)) = 1;\n'
        'int other(void){return %s_exported_fn;}\n' % (marker, marker))
    subprocess.check_call(["gcc", "-g", "-c", "a.c", "b.c"], cwd=d)
    subprocess.check_call(["ld", "-r", "-o", "k.ko", "a.o", "b.o"], cwd=d)
    return os.path.join(d, "k.ko")


def case_ksymtab_duplicate(d):
    return abidw(_kernel_module(d, "__ksymtab"))


def case_crc_duplicate(d):
    return abidw(_kernel_module(d, "__crc"))


def case_verdaux_missing(d):
    so = build(d, versioned=True)
    e = Elf64(so)
    s = e.sec(".gnu.version_d")
    # Elf64_Verdef: vd_version(2) vd_flags(2) vd_ndx(2) vd_cnt(2) vd_hash(4) vd_aux(4) vd_next(4)
    off = s["offset"]
    while True:
        nxt = struct.unpack_from("<I", e.b, off + 16)[0]
        struct.pack_into("<I", e.b, off + 12, 0x00ffff00)      # vd_aux far outside the section
        if nxt == 0:
            break
        off += nxt
    e.save()
    return abidw(so)


def case_soname_phdr_points_elsewhere(d):
    # abipkgdiff prints the SONAME of added binaries with get_soname_of_elf_file()
    os.makedirs(os.path.join(d, "p1"))
    os.makedirs(os.path.join(d, "p2"))
    so = build(d)
    e = Elf64(so)
    other = e.sec(".dynsym")["offset"]     # a section with a non-zero sh_entsize that is not SHT_DYNAMIC
    for off, p_type, p_offset in e.phdrs():
        if p_type == 2:            # PT_DYNAMIC
            struct.pack_into("<Q", e.b, off + 8, other)
    e.save()
    shutil.move(so, os.path.join(d, "p2", "libadded.so"))
    base = build(d)
    shutil.copy(base, os.path.join(d, "p1", "libbase.so"))
    shutil.move(base, os.path.join(d, "p2", "libbase.so"))
    return [os.path.join(TOOLS, "abipkgdiff"), os.path.join(d, "p1"), os.path.join(d, "p2")]


def case_soname_dynamic_entsize_zero(d):
    os.makedirs(os.path.join(d, "p1"))
    os.makedirs(os.path.join(d, "p2"))
    so = build(d)
    e = Elf64(so)
    e.set_hdr(".dynamic", "entsize", 0)
    e.save()
    shutil.move(so, os.path.join(d, "p2", "libadded.so"))
    base = build(d)
    shutil.copy(base, os.path.join(d, "p1", "libbase.so"))
    shutil.move(base, os.path.join(d, "p2", "libbase.so"))
    return [os.path.join(TOOLS, "abipkgdiff"), os.path.join(d, "p1"), os.path.join(d, "p2")]


CASES = {
    "R-ELFBOUND lookup_symbol_from_sysv_hash_tab: reads through section data are bounded by the section size": case_sysv_nbuckets,
    "R-ELFBOUND setup_gnu_ht: reads through section data are bounded by the section size": case_gnu_hash_empty,
    "R-INASSERT lookup_symbol_from_sysv_hash_tab: ABG_ASSERT(gelf_getsym(sym_tab_data, symbol_index, &symbol))": case_sysv_bucket_values,
    "R-ELFNULL lookup_symbol_from_sysv_hash_tab: deref of ht_section_data (from elf_getdata)": case_sysv_hash_data_missing,
    "R-INASSERT lookup_symbol_from_sysv_hash_tab: ABG_ASSERT(sym_tab_data)": case_sysv_dynsym_data_missing,
    "R-ELFBOUND lookup_symbol_from_gnu_hash_tab: reads through section data are bounded by the section size": case_gnu_bloom_count,
    "R-ELFNULL setup_gnu_ht: deref of ht_section_data (from elf_getdata)": case_gnu_hash_data_missing,
    "R-ELFBOUND/ENTSIZE setup_gnu_ht: division by ht.sym_tab_section_header.sh_entsize needs a non-zero test": case_gnu_dynsym_entsize_zero,
    "R-ELFBOUND/ENTSIZE lookup_symbol_from_symtab: division by sym_tab_header->sh_entsize needs a non-zero test": case_symtab_entsize_zero,
    "R-ELFNULL lookup_symbol_from_symtab: deref of sym (from gelf_getsym)": case_symtab_entsize_one,
    "R-INASSERT symtab::load_: ABG_ASSERT(exported_kernel_symbols.insert(name.substr(10, <default>)).second)": case_ksymtab_duplicate,
    "R-INASSERT symtab::load_: ABG_ASSERT(crc_values.emplace(name.substr(6, <default>), sym->st_value).second)": case_crc_duplicate,
    "R-ELFNULL get_version_definition_for_versym: deref of verdaux (from gelf_getverdaux)": case_verdaux_missing,
    "R-INASSERT get_soname_of_elf_file: ABG_ASSERT(shdr == nullptr || shdr->sh_type == 6)": case_soname_phdr_points_elsewhere,
    "R-ELFBOUND/ENTSIZE get_soname_of_elf_file: division by shdr->sh_entsize needs a non-zero test": case_soname_dynamic_entsize_zero,
}


def run_case(name):
    d = tempfile.mkdtemp(prefix="c34-")
    try:
        argv = CASES[name](d)
        r = subprocess.run(argv, capture_output=True)
        return r.returncode, r.stderr.decode(errors="replace")[-300:]
    finally:
        shutil.rmtree(d, ignore_errors=True)


def main():
    names = sys.argv[1:] or sorted(CASES)
    for n in names:
        rc, err = run_case(n)
        crashed = rc < 0 or rc in (134, 136, 139)
        print("%-118s exit=%s %s" % (n[:118], rc if rc >= 0 else "signal %d" % -rc, "confirmed" if crashed else "clean"))
        if not crashed and os.environ.get("VERBOSE"):
            print("    " + err.replace("\n", "\n    "))
    return 0


if __name__ == "__main__":
    sys.exit(main())
