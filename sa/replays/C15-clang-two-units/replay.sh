#!/bin/sh
# fixed: property=C15 R-DIESIDE compare_dies (DW_AT_count read from the wrong DIE)
#        property=C15/C43 R-VALPDEREF compare_dies_string_attribute_value (first byte of a form-encoded value compared)
# Two C translation units define different types with the same name; built with clang.
#  (a) struct S { int m[2][6]; } / struct S { int m[3][4]; }   (clang describes array bounds with DW_AT_count)
#  (b) struct plain {int,int} / struct plain {long,long,long}, reached through pointers, -gdwarf-5 (DW_FORM_strx unit names)
# Before the repairs (a) recorded one array type for both units and (b) gave p2_get() a pointer to unit 1's struct.
# exit 0 = each function is recorded with its own unit's type; 1 = types of different units are merged; 2 = no clang.
command -v clang >/dev/null || { echo "clang not available"; exit 2; }
D=$(mktemp -d); trap 'rm -rf $D' EXIT
cd $D
printf 'struct S { int m[2][6]; };\nint fa(struct S *s) { return s->m[1][5]; }\n' > a.c
printf 'struct S { int m[3][4]; };\nint fb(struct S *s) { return s->m[2][3]; }\n' > b.c
printf 'struct plain { int a; int b; };\nint p1_get(struct plain *p) { return p->a; }\n' > p1.c
printf 'struct plain { long a; long b; long c; };\nlong p2_get(struct plain *p) { return p->c; }\n' > p2.c
clang -g -O0 -fPIC -shared -o liba.so a.c b.c || exit 2
clang -gdwarf-5 -O0 -fPIC -shared -o libp.so p1.c p2.c || exit 2
ABIDW=${ABIDW:-/repo/tools/abidw}
rc=0
n=$($ABIDW --no-corpus-path --no-comp-dir-path liba.so | grep -c "<subrange length=")
echo "(a) distinct subranges recorded: $n (4 expected)"; [ "$n" -eq 4 ] || rc=1
n=$($ABIDW --no-corpus-path --no-comp-dir-path libp.so | grep -c "<pointer-type-def")
echo "(b) pointer types recorded: $n (2 expected)"; [ "$n" -eq 2 ] || rc=1
exit $rc
