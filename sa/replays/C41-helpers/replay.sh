#!/bin/sh
# fixed: property=C41 R-TRIMBOTH split_string / R-AFFIXTAB string_begins_with
# Before the repairs split_string("a , b", ",") returned {"a ", "b"} (fields trimmed on the left only) and
# string_begins_with("", "") answered false while string_ends_with("", "") answered true.
# exit 0 = both helpers behave as specified.
D=$(mktemp -d); trap 'rm -rf $D' EXIT
here=$(cd "$(dirname "$0")" && pwd)
g++ -std=c++11 -I/repo/include -I/repo "$here/helpers.cc" -o $D/h -L/repo/src/.libs -labigail -Wl,-rpath,/repo/src/.libs || exit 2
out=$($D/h); echo "$out"
rc=0
echo "$out" | grep -q "^'a , b' -> 1 \['a' 'b' \]" || { echo "split_string does not trim the end of a field"; rc=1; }
echo "$out" | grep -q "begins('', ''): 1 " || { echo "string_begins_with('', '') is false"; rc=1; }
exit $rc
