#include <cstdio>
#include <string>
#include <vector>
#include "abg-tools-utils.h"
using namespace abigail::tools_utils;
int main(){
  const char* ins[]={"a , b","  a,b  "," a ,, b ,",",a","a b , c","a\t,\tb", "a", "", " ", ","};
  for(const char* s: ins){ std::vector<std::string> v; bool r=split_string(s, ",", v); printf("'%s' -> %d [", s, (int)r); for(auto&x:v) printf("'%s' ", x.c_str()); printf("]\n"); }
  printf("begins('', ''): %d begins('a',''): %d begins('','a'): %d ends('',''): %d ends('a',''): %d\n", string_begins_with("",""), string_begins_with("a",""), string_begins_with("","a"), string_ends_with("",""), string_ends_with("a",""));
  std::string suf; bool r=string_suffix("abc","ab",suf); printf("suffix(abc,ab)=%d '%s'\n", r, suf.c_str()); suf="x"; r=string_suffix("abc","abc",suf); printf("suffix(abc,abc)=%d '%s'\n", r, suf.c_str()); suf="x"; r=string_suffix("abc","",suf); printf("suffix(abc,'')=%d '%s'\n", r, suf.c_str());
  printf("decl_names_equal: %d %d %d %d\n", decl_names_equal("a::b","a::b"), decl_names_equal("a::__anonymous_struct__1::b","a::__anonymous_struct__2::b"), decl_names_equal("a::__anonymous_struct__1","a::x"), decl_names_equal("a::x","a::__anonymous_struct__1"));
}
