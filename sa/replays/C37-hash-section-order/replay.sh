#!/bin/sh
# fixed: property=C37 R-HTKIND find_hash_table_section_index
# A shared object linked with --hash-style=both and a linker script that places .gnu.hash *before* .hash
# (the order lld uses).  Before the fix find_hash_table_section_index returned GNU_HASH_TABLE_KIND together
# with the index of the *last* hash section (.hash): the SysV table was walked as a GNU table and abisym
# found none of the defined symbols.  exit 0 = every defined symbol is found in both layouts.
D=$(mktemp -d); trap 'rm -rf $D' EXIT
cd $D || exit 2
ld --verbose | sed -n '/^======/,/^======/p' | grep -v '^======' > def.ld
python3 - <<'PY' || exit 2
import re
s = open('def.ld').read()
a = re.search(r"^\s*\.hash\s*:\s*\{[^}]*\}\s*$", s, re.M)
b = re.search(r"^\s*\.gnu\.hash\s*:\s*\{[^}]*\}\s*$", s, re.M)
s = s.replace(a.group(0), "@@A@@").replace(b.group(0), "@@B@@").replace("@@A@@", b.group(0)).replace("@@B@@", a.group(0))
open('swap.ld', 'w').write(s)
PY
printf 'int foo(int x) { return x; }\nint bar(int x) { return x + 1; }\nint baz = 2;\n' > h.c
gcc -g -shared -fPIC -Wl,--hash-style=both -o libH_bfd.so h.c || exit 2
gcc -g -shared -fPIC -Wl,--hash-style=both -Wl,-T,swap.ld -o libH_swap.so h.c || exit 2
rc=0
for l in libH_bfd.so libH_swap.so; do
  readelf -S $l | grep -i hash | awk '{print "   " $0}'
  for s in foo bar baz; do
    out=$(/repo/tools/abisym $l $s)
    case "$out" in "found symbol"*) echo "$l $s: found";; *) echo "$l $s: NOT FOUND"; rc=1;; esac
  done
done
exit $rc
