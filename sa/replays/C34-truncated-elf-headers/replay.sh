#!/bin/sh
# fixed: property=C34 (and C09) R-HANDLEARG read_context::symtab: load(elf_handle()) is given a handle that was tested
# A shared library cut inside its ELF / program headers (16, 63, 64, 200, 400 bytes of it): dwfl reports no module, the
# reader's elf_handle() is null and symtab_reader::symtab::load() asserted on it - abidiff, abidw and abicompat died with
# SIGABRT (status 134, error bit not set) instead of exiting with their error status.
# exit 0 = every prefix makes the tools exit with a plain error status, 1 = a tool died by signal or reported "no change".
D=$(mktemp -d); trap 'rm -rf $D' EXIT
cd $D
printf 'struct S { int a; };\nint f(struct S *s) { return s->a; }\n' > t.c
gcc -g -O0 -fPIC -shared -o t.so t.c || exit 2
T=${TOOLS:-/repo/tools}
bad=0
for n in 16 63 64 200 400; do
  head -c $n t.so > t$n.so
  $T/abidiff t$n.so t.so > out.txt 2>&1; a=$?
  $T/abidiff t.so t$n.so > out.txt 2>&1; b=$?
  $T/abidw t$n.so > out.txt 2>&1; c=$?
  echo "prefix of $n bytes: abidiff $a, abidiff (reversed) $b, abidw $c"
  for rc in $a $b $c; do
    if [ $rc -ge 64 ] || [ $rc -eq 0 ]; then bad=1; fi
  done
done
exit $bad
