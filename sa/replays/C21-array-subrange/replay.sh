#!/bin/sh
# KNOWN-FINDING C21 R-HASCHG array_diff::has_changes
# ar1.abi / ar2.abi describe `int arr[3];` and differ only in the subrange bounds.
# equals(array_type_def) sees the difference (the variable is reported as changed, exit 4) but
# array_diff::has_changes() does not (empty description; --leaf-changes-only reports nothing, exit 0).
cd "$(dirname "$0")"
/repo/tools/abidiff ar1.abi ar2.abi; echo "default exit=$?"
/repo/tools/abidiff --leaf-changes-only ar1.abi ar2.abi; echo "leaf exit=$?"
