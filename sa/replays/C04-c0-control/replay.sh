#!/bin/sh
# KNOWN-FINDING C04 R-ESC/TABLE sanitiser-table C0-controls
# A SONAME containing a C0 control character is copied into the document unchanged;
# the result is not well-formed XML (xmllint exits non-zero).  Expected today: "xmllint=1".
set -e
D=$(mktemp -d); trap 'rm -rf $D' EXIT
echo 'int f(int x){return x;}' > $D/a.c
gcc -g -shared -fPIC -Wl,-soname,"$(printf 'lib\001x.so')" -o $D/liba.so $D/a.c
/repo/tools/abidw $D/liba.so > $D/a.abi
set +e
xmllint --noout $D/a.abi 2>&1 | head -3
xmllint --noout $D/a.abi >/dev/null 2>&1; echo "xmllint=$?"
