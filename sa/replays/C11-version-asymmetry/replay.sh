#!/bin/sh
# KNOWN-FINDING C11 R-MIRROR (four regions of corpus_diff::priv::ensure_lookup_tables_populated)
# A exports foo@@V1 / gv@@V1 (version script), B exports the same interfaces unversioned.
#   abidiff A B : foo and gv are *removed*   (exit 12)
#   abidiff B A : nothing is added, nothing is reported (exit 0)
# The addition half applies the "unversioned -> default version" rule, the deletion half has no mirror
# of it (and find_symbol_by_version falls back on the default version only for unversioned requests).
# With debug info the regions for functions / variables are exercised, without it (-g0) the regions for
# symbols not referenced by debug info.  exit 0 = asymmetry still present.
D=$(mktemp -d); trap 'rm -rf $D' EXIT
cd $D || exit 2
printf 'int foo(int x) { return x; }\nint gv = 3;\n' > a.c
printf 'V1 { global: foo; gv; local: *; };\n' > v.map
rc=1
for dbg in -g -g0; do
  gcc $dbg -shared -fPIC -Wl,--version-script=v.map -o libA.so a.c || exit 2
  gcc $dbg -shared -fPIC -o libB.so a.c || exit 2
  /repo/tools/abidiff --no-default-suppression libA.so libB.so > ab.txt; ab=$?
  /repo/tools/abidiff --no-default-suppression libB.so libA.so > ba.txt; ba=$?
  removed=$(grep -c '^ *\[D\]' ab.txt); added=$(grep -c '^ *\[A\]' ba.txt)
  echo "$dbg: abidiff A B exit=$ab removed=$removed ; abidiff B A exit=$ba added=$added"
  [ "$removed" != "$added" ] && rc=0
done
[ $rc -eq 0 ] && echo "removed(A,B) != added(B,A): asymmetry present"
exit $rc
