#!/bin/sh
# KNOWN-FINDING C39 R-INIESC write_property re-escapes the characters that terminate a value for the parser
# read / write / read of a text with escaped characters in values does not reach a fixpoint:
#   name = a\;b       -> value "a;b"  -> written `name = a;b`   -> read back as "a" (rest is a comment)
#   other = x\,y, z   -> list {"x,y", "z"} -> written `x,y,z`   -> read back as three elements
#   re = lib\\.so     -> value `lib\.so`   -> written `lib\.so` -> read back as "lib.so"
# Expected today: "first-vs-second-write differ" (exit 0 from this script means the defect is still there).
D=$(mktemp -d); trap 'rm -rf $D' EXIT
printf '[s]\n  name = a\;b\n  other = x\\,y, z\n  re = lib\\\\.so\n' > $D/t1.ini
/repo/tools/abinilint $D/t1.ini > $D/t2.ini || exit 2
/repo/tools/abinilint $D/t2.ini > $D/t3.ini || exit 2
echo "--- input"; cat $D/t1.ini; echo "--- after read+write"; cat $D/t2.ini; echo "--- after read+write+read+write"; cat $D/t3.ini
if cmp -s $D/t2.ini $D/t3.ini; then echo "round trip is a fixpoint (defect gone)"; exit 1; fi
echo "first-vs-second-write differ"
