#!/bin/sh
# fixed: property=C25 R-PARSEPROG read_context::read_tuple_property_value; R-READCONTRACT read_next_char() after peek() and good()
# Two suppression files that are merely malformed:
#   has_data_member_inserted_between = {=}     read_tuple_property_value() went round its loop without reading anything: hang
#   label = \<end of file>                     peek() puts the lone backslash back and hits end of file; read_next_char()
#                                              took it from the buffer and then reported failure: ABG_ASSERT aborted the tool
# exit 0 = abidiff terminates normally on both, 1 = it hangs (timeout) or aborts.
D=$(mktemp -d); trap 'rm -rf $D' EXIT
cd $D
printf 'struct S { int a; };\nint f(struct S *s) { return s->a; }\n' > v1.c
printf 'struct S { int a; int b; };\nint f(struct S *s) { return s->a; }\n' > v2.c
gcc -g -O0 -fPIC -shared -o v1.so v1.c || exit 2
gcc -g -O0 -fPIC -shared -o v2.so v2.c || exit 2
bad=0
run() {
  timeout 20 ${ABIDIFF:-/repo/tools/abidiff} --suppr s.suppr v1.so v2.so > out.txt 2>&1; rc=$?
  echo "$1: abidiff exit status $rc"
  [ $rc -ge 64 ] && { bad=1; tail -3 out.txt; }
}
for t in '{=}' '{;}' '{[}'; do
  printf '[suppress_type]\n  name = S\n  has_data_member_inserted_between = %s\n' "$t" > s.suppr
  run "has_data_member_inserted_between = $t"
done
printf '[suppress_type]\n  name = S\n  label = \\' > s.suppr
run 'label = \<EOF>'
exit $bad
