#!/bin/sh
# fixed: property=C34 R-SCNINDEX (3), R-ELFNULL std::string from a null elf_strptr() (3), R-LINKWALK (1), R-INASSERT gnu-hash gelf_getsym (1)
# One-word corruptions of valid shared libraries, each of which made abisym / abidw / abidiff abort or hang before the repairs:
#   .hash / .gnu.hash / .dynamic sh_link = 200      elf_getscn() returns null, ABG_ASSERT on it                  SIGABRT
#   DT_SONAME d_val, vda_name, vna_name out of the string table   std::string built from elf_strptr()'s null    std::logic_error
#   .dynsym sh_size larger than the file              elf_getdata() fails, ABG_ASSERT(gelf_getsym(...)) in the GNU hash walk   SIGABRT
#   .hash chain[i] = i                                the chain walk never reads STN_UNDEF                       hang
# exit 0 = every tool run terminates with a normal exit status, 1 = one died by signal or timed out.
H=$(cd "$(dirname "$0")" && pwd)
D=$(mktemp -d); trap 'rm -rf $D' EXIT
cd $D
T=${TOOLS:-/repo/tools}
cat > t.c <<'E'
int foo(void){return 1;} int bar(void){return 2;} int baz(void){return 3;} int qux(void){return 4;}
E
cat > u.c <<'E'
#include <stdio.h>
int uses(void){ return printf("x") ; }
E
cat > v.map <<'E'
V1 { global: foo; bar; local: *; };
V2 { global: baz; qux; } V1;
E
gcc -g -shared -fPIC -Wl,--hash-style=sysv -o sysv.so t.c || exit 2
gcc -g -shared -fPIC -Wl,--hash-style=gnu -Wl,-soname,libt.so.1 -o gnu.so t.c || exit 2
gcc -g -shared -fPIC -Wl,--version-script=v.map -o ver.so t.c || exit 2
gcc -g -shared -fPIC -o need.so u.c || exit 2
P="python3 $H/elfpatch.py"
$P sysv.so s-link.so hash-link 200
$P sysv.so s-cycle.so chain-cycle
$P gnu.so g-link.so gnuhash-link 200
$P gnu.so dyn-link.so link .dynamic 200
$P gnu.so dyn-val.so dynstr
$P ver.so vda.so vda
$P need.so vna.so vna
$P gnu.so dynsym-big.so shsize .dynsym 0x10000000
bad=0
run() {
  timeout 30 $T/"$@" > out.txt 2>&1; rc=$?
  echo "$*: exit status $rc"
  if [ $rc -ge 64 ]; then bad=1; tail -2 out.txt; fi
}
run abisym s-link.so foo
run abisym s-cycle.so foo
run abisym s-cycle.so nosuch
run abisym g-link.so foo
run abidw dyn-link.so
run abidiff dyn-link.so gnu.so
run abidw dyn-val.so
run abidiff dyn-val.so gnu.so
run abidw vda.so
run abisym vda.so foo
run abidw vna.so
run abisym dynsym-big.so foo
run abidiff vna.so need.so
exit $bad
