import struct, sys
def sections(b):
    shoff=struct.unpack_from("<Q",b,0x28)[0]; shentsize,shnum,shstrndx=struct.unpack_from("<HHH",b,0x3A)
    secs=[]
    for i in range(shnum):
        o=shoff+i*shentsize
        name,typ,flags,addr,off,size,link,info,align,entsize=struct.unpack_from("<IIQQQQIIQQ",b,o)
        secs.append(dict(i=i,o=o,name=name,type=typ,off=off,size=size,link=link,info=info,entsize=entsize))
    st=secs[shstrndx]
    for s in secs:
        e=b.index(b"\0",st["off"]+s["name"]); s["n"]=bytes(b[st["off"]+s["name"]:e]).decode()
    return secs
def main():
    src,dst,what=sys.argv[1:4]
    b=bytearray(open(src,"rb").read())
    secs=sections(b); by={s["n"]:s for s in secs}
    if what=="hash-link":
        s=by[".hash"]; struct.pack_into("<I",b,s["o"]+0x28,int(sys.argv[4]))
    elif what=="gnuhash-link":
        s=by[".gnu.hash"]; struct.pack_into("<I",b,s["o"]+0x28,int(sys.argv[4]))
    elif what=="chain-cycle":
        s=by[".hash"]; nb,nc=struct.unpack_from("<II",b,s["off"])
        for i in range(1,nc): struct.pack_into("<I",b,s["off"]+8+4*nb+4*i,i)
    elif what=="link":
        s=by[sys.argv[4]]; struct.pack_into("<I",b,s["o"]+0x28,int(sys.argv[5]))
    elif what=="word":
        s=by[sys.argv[4]]; struct.pack_into("<I",b,s["off"]+int(sys.argv[5]),int(sys.argv[6]))
    elif what=="shsize":
        s=by[sys.argv[4]]; struct.pack_into("<Q",b,s["o"]+0x20,int(sys.argv[5],0))
    elif what=="dynstr":
        s=by[".dynamic"]
        for o in range(s["off"], s["off"]+s["size"], 16):
            tag,val=struct.unpack_from("<qQ",b,o)
            if tag in (1,14): struct.pack_into("<Q",b,o+8,0x7ffffff0)
    elif what=="vda":
        s=by[".gnu.version_d"]; o=s["off"]
        while True:
            ver,fl,ndx,cnt,h,aux,nxt=struct.unpack_from("<HHHHIII",b,o)
            a=o+aux
            for i in range(cnt):
                name,an=struct.unpack_from("<II",b,a)
                struct.pack_into("<I",b,a,0x7ffffff0)
                if an==0: break
                a+=an
            if nxt==0: break
            o+=nxt
    elif what=="vna":
        s=by[".gnu.version_r"]; o=s["off"]
        while True:
            ver,cnt,file,aux,nxt=struct.unpack_from("<HHIII",b,o)
            a=o+aux
            for i in range(cnt):
                h,fl,oth,name,an=struct.unpack_from("<IHHII",b,a)
                struct.pack_into("<I",b,a+8,0x7ffffff0)
                if an==0: break
                a+=an
            if nxt==0: break
            o+=nxt
    open(dst,"wb").write(b)
main()
