#!/bin/sh
# KNOWN-FINDING C13 R-MODEATOM (two gated atoms of has_incompatible_changes)
# tests/data/test-diff-dwarf/test30-vtable-changes-v{0,1}.o : a virtual member function is inserted, the vtable
# offset of S::fn1 changes from 3 to 4 ("note that this is an ABI incompatible change to the vtable").
#   default mode          : the fn1 change is filtered as redundant, num_func_with_virtual_offset_changes stays 0 -> exit 4
#   --leaf-changes-only   : nothing is redundant                                                           -> exit 12
# exit 0 = the two modes still disagree on the INCOMPATIBLE bit.
d=/repo/tests/data/test-diff-dwarf
/repo/tools/abidiff --no-default-suppression $d/test30-vtable-changes-v0.o $d/test30-vtable-changes-v1.o > /dev/null; a=$?
/repo/tools/abidiff --no-default-suppression --leaf-changes-only $d/test30-vtable-changes-v0.o $d/test30-vtable-changes-v1.o > /dev/null; b=$?
echo "default mode: exit $a ; --leaf-changes-only: exit $b"
[ $(( a & 8 )) -ne $(( b & 8 )) ] && { echo "INCOMPATIBLE bit differs between the modes"; exit 0; }
exit 1
