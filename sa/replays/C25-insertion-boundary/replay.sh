#!/bin/sh
# fixed: property=C25 INV-FNCALLEXPR create_fn_call_expr_boundary(function_call_expr_sptr); R-IDX type_suppression::suppresses_diff
# Three suppression files that a user can write by mistake:
#   has_data_member_inserted_at = foo            (not a function call expression)
#   has_data_member_inserted_at = offset_of(     (unterminated function call expression)
#   has_data_member_inserted_at = end            on a struct that had no data member in the first binary
# Before the repairs the first two wrapped the null expression returned by ini::read_function_call_expr() into a boundary
# that insertion_range::eval_boundary() dereferences, and the third called back() on the empty member vector through
# get_last_data_member(): abidiff died with SIGSEGV.  exit 0 = abidiff terminates normally on all three, 1 = it crashes.
D=$(mktemp -d); trap 'rm -rf $D' EXIT
cd $D
cat > v1.c <<'E'
struct S { int a; }; struct E { };
int f(struct S *s) { return s->a; }
int g(struct E *e) { return e != 0; }
E
cat > v2.c <<'E'
struct S { int a; int b; }; struct E { int z; };
int f(struct S *s) { return s->a; }
int g(struct E *e) { return e != 0; }
E
gcc -g -O0 -fPIC -shared -o v1.so v1.c || exit 2
gcc -g -O0 -fPIC -shared -o v2.so v2.c || exit 2
bad=0
run() {
  printf '[suppress_type]\n  name = %s\n  has_data_member_inserted_at = %s\n' "$1" "$2" > s.suppr
  timeout 60 ${ABIDIFF:-/repo/tools/abidiff} --suppr s.suppr v1.so v2.so > out.txt 2>&1; rc=$?
  echo "name = $1, has_data_member_inserted_at = $2: abidiff exit status $rc"
  [ $rc -ge 64 ] && { bad=1; tail -3 out.txt; }
}
run S foo
run S 'offset_of('
run E end
exit $bad
