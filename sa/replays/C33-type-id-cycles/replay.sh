#!/bin/sh
# finding: property=C33 R-TYPECYCLE (build_typedef_decl, build_qualified_type_decl, build_array_type_def, build_function_type, build_enum_type_decl)
# An element whose type-id designates its own id: the builder resolves the referenced type before its own id can be found
# and re-enters itself until the stack is exhausted - abilint / abidiff die with SIGSEGV instead of rejecting the document.
# usage: replay.sh [kind]      kinds: typedef qualified array fntype enum (default: all); also prints pointer / reference, which
# register first and overflow later, in the IR (naming a pointer to itself), for the record.
# exit 0 = the crash is reproduced for every requested kind (the finding stands), 1 = some kind no longer crashes.
D=$(mktemp -d); trap 'rm -rf $D' EXIT
cd $D
mk() { printf "<abi-corpus version='2.1' path='x.so'>\n  <abi-instr address-size='64' path='t.c' language='LANG_C99'>\n    <type-decl name='int' size-in-bits='32' id='t1'/>\n    %s\n    <var-decl name='v' type-id='x1' mangled-name='v' visibility='default' binding='global'/>\n  </abi-instr>\n</abi-corpus>\n" "$2" > cyc-$1.xml; }
mk typedef "<typedef-decl name='T' type-id='x1' id='x1'/>"
mk qualified "<qualified-type-def type-id='x1' const='yes' id='x1'/>"
mk array "<array-type-def dimensions='1' type-id='x1' size-in-bits='64' id='x1'><subrange length='2' type-id='t1' id='s1'/></array-type-def>"
mk fntype "<function-type size-in-bits='64' id='x1'><return type-id='x1'/></function-type>"
mk enum "<enum-decl name='E' id='x1'><underlying-type type-id='x1'/><enumerator name='a' value='0'/></enum-decl>"
mk pointer "<pointer-type-def type-id='x1' size-in-bits='64' id='x1'/>"
mk reference "<reference-type-def kind='lvalue' type-id='x1' size-in-bits='64' id='x1'/>"
kinds=${1:-typedef qualified array fntype enum}
miss=0
for k in $kinds pointer reference; do
  timeout 60 ${ABILINT:-/repo/tools/abilint} cyc-$k.xml > /dev/null 2>&1; rc=$?
  echo "$k: abilint exit status $rc"
  case " $kinds " in *" $k "*) [ $rc -ge 128 ] || miss=1;; esac
done
exit $miss
