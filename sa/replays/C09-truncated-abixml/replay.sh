#!/bin/sh
# KNOWN-FINDING C09 R-LOADFAIL abidiff main: c1/c2 = read_corpus_from_input(...), g1/g2 = read_corpus_group_from_input(...)
# A truncated ABIXML corpus (or corpus group) fails to load, but abidiff passes a status that is
# still STATUS_OK to handle_error(), which then returns ABIDIFF_OK: the tool exits 0.
# (Initialising the status to STATUS_UNKNOWN repairs this but breaks `[suppress_file]
#  soname_regexp` on ABIXML inputs, where a nil corpus legitimately means "suppressed": the reader
#  cannot tell the two apart, so the repair needs a reader API change and is not small.)
F=/repo/tests/data/test-read-write/test28-without-std-fns-ref.xml
D=$(mktemp -d); trap 'rm -rf $D' EXIT
head -c 3000 $F > $D/trunc.abi
/repo/tools/abidiff $D/trunc.abi $F >/dev/null 2>&1; echo "truncated first operand (corpus):  exit=$?"
/repo/tools/abidiff $F $D/trunc.abi >/dev/null 2>&1; echo "truncated second operand (corpus): exit=$?"
G=$(grep -l "<abi-corpus-group" /repo/tests/data/test-abidiff/*.abi /repo/tests/data/test-abidiff/*.xml 2>/dev/null | head -1)
if [ -n "$G" ]; then
  head -c 3000 $G > $D/truncg.abi
  /repo/tools/abidiff $D/truncg.abi $G >/dev/null 2>&1; echo "truncated first operand (group):   exit=$?"
  /repo/tools/abidiff $G $D/truncg.abi >/dev/null 2>&1; echo "truncated second operand (group):  exit=$?"
fi
