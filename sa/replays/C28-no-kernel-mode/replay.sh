#!/bin/sh
# fixed: C28 R-KMODE symtab::load_ ignored --no-linux-kernel-mode: declarations listed every public
# function/variable but the elf-*-symbols tables only the ksymtab ones, so `abidw --no-linux-kernel-mode
# --abidiff` failed (exit 1).  Expected after the repair: exit 0 in both modes.
cd "$(dirname "$0")"
D=$(mktemp -d); trap 'rm -rf $D' EXIT
gcc -g -shared -fPIC -o $D/k.so k.c
/repo/tools/abidw --no-linux-kernel-mode --abidiff $D/k.so >/dev/null 2>&1; echo "--no-linux-kernel-mode --abidiff exit=$?"
/repo/tools/abidw --abidiff $D/k.so >/dev/null 2>&1; echo "kernel mode --abidiff exit=$?"
/repo/tools/abidw --no-linux-kernel-mode $D/k.so | grep -c "<elf-symbol " | sed 's/^/symbols listed with --no-linux-kernel-mode: /'
/repo/tools/abidw $D/k.so | grep -c "<elf-symbol " | sed 's/^/symbols listed in kernel mode: /'
