/* A shared object that looks like a Linux kernel module to libabigail: it has a
   __ksymtab_strings section and __ksymtab_<sym> markers for the exported interface. */
int exported_fn(int x) { return x; }
int hidden_from_ksymtab(int x) { return x + 1; }
int exported_var = 1;
int other_var = 2;
const char kstr[] __attribute__((section("__ksymtab_strings"))) = "exported_fn\0exported_var";
int __ksymtab_exported_fn = 0;
int __ksymtab_exported_var = 0;
