#!/bin/sh
# known finding: property=C43 R-TUSECTION read_context::get_die_source
# The same C++ source compiled with -gdwarf-4 and with -gdwarf-5 -fdebug-types-section: DWARF 5 puts the type units in
# .debug_info, libabigail files every DW_TAG_type_unit under TYPE_UNIT_DIE_SOURCE (= .debug_types) and does not find the
# types: the functions lose their parameters and abidiff reports changes between two builds of one source.
# exit 0 = the two builds compare equal (property holds), 1 = abidiff reports a difference (the finding).
D=$(mktemp -d); trap 'rm -rf $D' EXIT
cd $D
cat > t.cc <<'EOF'
struct S { int a; long b; S* next; };
struct T { S s; char c; };
int f(S* s) { return s->a; }
long g(T& t) { return t.s.b + t.c; }
EOF
g++ -gdwarf-4 -O0 -shared -fPIC -o libv4.so t.cc || exit 2
g++ -gdwarf-5 -fdebug-types-section -O0 -shared -fPIC -o libv5tu.so t.cc || exit 2
readelf --debug-dump=info libv5tu.so 2>/dev/null | grep -q "DW_UT_type" || { echo "toolchain did not emit DWARF 5 type units"; exit 2; }
${ABIDIFF:-/repo/tools/abidiff} libv4.so libv5tu.so; rc=$?
echo "abidiff exit status: $rc"
[ $rc -eq 0 ] && exit 0
exit 1
