#!/bin/sh
# fixed: property=C29 R-USEDONLY/MATCH get_unreferenced_function_symbols / get_unreferenced_variable_symbols
# The application binds used_fn@LIBT_1.0, which release 2 of the library keeps as a *non-default* (compat) version
# next to used_fn@@LIBT_2.0; the libraries carry no debug info, so the interface is a bare symbol.  Before the repair
# the kept id (the application's undefined symbol, spelled with its own default-ness marker) was compared as a string
# with the id of the library's symbol, never matched, and the removal of the used entry point went unnoticed (exit 0).
# exit 0 = abicompat reports the removal, 1 = it stays silent.
D=$(mktemp -d); trap 'rm -rf $D' EXIT
cd $D
cat > v1.map <<'EOF'
LIBT_1.0 { global: used_fn; unused_fn; used_var; local: *; };
EOF
cat > v2.map <<'EOF'
LIBT_1.0 { global: used_fn; unused_fn; used_var; local: *; };
LIBT_2.0 { global: used_fn; } LIBT_1.0;
EOF
cat > app.c <<'EOF'
struct S { int a; };
extern int used_var;
extern int used_fn(struct S *);
int main(void) { struct S s = { used_var }; return used_fn(&s); }
EOF
cat > lib1.c <<'EOF'
struct S { int a; }; struct U { int x; };
int used_var = 1;
int used_fn(struct S *s) { return s->a; }
int unused_fn(struct U *u) { return u->x; }
EOF
gen() {
  { echo 'struct S { int a; }; struct S2 { long b; int a; }; struct U { int x; };'
    echo 'int used_var = 1;'
    echo 'int used_fn_new(struct S2 *s) { return (int) s->b; }'
    echo '__asm__(".symver used_fn_new,used_fn@@LIBT_2.0");'
    echo 'int unused_fn(struct U *u) { return u->x; }'
    if [ $2 = 1 ]; then
      echo 'int used_fn_old(struct S *s) { return s->a; }'
      echo '__asm__(".symver used_fn_old,used_fn@LIBT_1.0");'
    fi
  } > $1.c
  gcc -O0 -fPIC -shared -Wl,-soname,libt.so -Wl,--version-script=v2.map -o $1.so $1.c || exit 2
}
gcc -g -O0 -fPIC -shared -Wl,-soname,libt.so -Wl,--version-script=v1.map -o rel1.so lib1.c || exit 2
gcc -g -O0 -fPIC -pie -o app app.c ./rel1.so || exit 2
gen rel2a 1; gen rel2b 0
out=$(${ABICOMPAT:-/repo/tools/abicompat} app rel2a.so rel2b.so 2>&1); rc=$?
echo "$out"; echo "abicompat exit status: $rc"
[ $rc -ne 0 ] && echo "$out" | grep -q 'used_fn@LIBT_1.0' && exit 0
echo "the removal of the used compat entry point used_fn@LIBT_1.0 is not reported"; exit 1
