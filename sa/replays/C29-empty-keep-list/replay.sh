#!/bin/sh
# KNOWN-FINDING C29 R-USEDONLY/EMPTY (functions and variables)
# 1. an application that uses only a *function* of the library: a change to an unused *variable* alters the verdict;
# 2. a client object that uses only a *variable*: a change to an unused *function* alters the verdict.
# (an empty keep-list means "no restriction" in corpus::exported_decls_builder)   exit 0 = still present.
D=$(mktemp -d); trap 'rm -rf $D' EXIT
cd $D || exit 2
mkdir a1 a2 b1 b2
printf 'int unused_var = 1;\nint used_fn(int x) { return x; }\n'  > v1.c
printf 'long unused_var = 1;\nint used_fn(int x) { return x; }\n' > v2.c
gcc -g -shared -fPIC -o a1/libm.so v1.c && gcc -g -shared -fPIC -o a2/libm.so v2.c || exit 2
printf 'extern int used_fn(int);\nint main() { return used_fn(1); }\n' > app.c
gcc -g -o app app.c -L a1 -lm || exit 2
/repo/tools/abicompat app a1/libm.so a2/libm.so > out1.txt; r1=$?
printf 'int used_var = 1;\nint unused_fn(int x) { return x; }\n'  > f1.c
printf 'int used_var = 1;\nint unused_fn(long x) { return x; }\n' > f2.c
gcc -g -shared -fPIC -o b1/libn.so f1.c && gcc -g -shared -fPIC -o b2/libn.so f2.c || exit 2
printf 'extern int used_var;\nint get(void) { return used_var; }\n' > cli.c
gcc -g -shared -fPIC -nostdlib -o cli.so cli.c -L b1 -ln || exit 2
/repo/tools/abicompat cli.so b1/libn.so b2/libn.so > out2.txt; r2=$?
echo "function-only application, unused variable changed : abicompat exit $r1 ($(grep -c '\[C\]' out1.txt) change(s) listed)"
echo "variable-only client, unused function changed      : abicompat exit $r2 ($(grep -c '\[C\]' out2.txt) change(s) listed)"
[ $r1 -ne 0 ] && [ $r2 -ne 0 ] && exit 0
exit 1
