struct S { int a; char b; };
int foo(struct S *s) { return s->a; }
long bar(int x) { return x; }
long gv = 1;
