struct S { int a; };
int foo(struct S *s) { return s->a; }
int bar(int x) { return x; }
int gv = 1;
