#!/bin/sh
# KNOWN-FINDING C24 R-RXPRES: an uncompilable *positive* regular expression makes its constraint
# vanish, so the suppression matches everything the remaining constraints allow.
# For each property the valid never-matching pattern `^zzz$` must leave the verdict unchanged
# (exit 4); the invalid pattern `(` must not suppress more than that.  Today the invalid pattern
# suppresses the change (smaller exit status / fewer reported changes).
cd "$(dirname "$0")"
D=$(mktemp -d); trap 'rm -rf $D' EXIT
gcc -g -shared -fPIC -Wl,-soname,libv.so -o $D/libv1.so v1.c
gcc -g -shared -fPIC -Wl,-soname,libv.so -o $D/libv2.so v2.c
run() { # section, property
  for pat in '^zzz$' '('; do
    printf '[%s]\n  %s = %s\n' "$1" "$2" "$pat" > $D/s.suppr
    out=$(/repo/tools/abidiff --suppr $D/s.suppr $D/libv1.so $D/libv2.so 2>/dev/null); rc=$?
    n=$(printf '%s\n' "$out" | grep -c '^  \[C\]')
    printf '%-20s %-28s pattern=%-6s exit=%s changed-interfaces-reported=%s\n' "$1" "$2" "$pat" "$rc" "$n"
  done
}
run suppress_type name_regexp
run suppress_type file_name_regexp
run suppress_type soname_regexp
run suppress_function name_regexp
run suppress_function return_type_regexp
run suppress_function symbol_name_regexp
run suppress_function symbol_version_regexp
run suppress_variable name_regexp
run suppress_variable symbol_name_regexp
run suppress_variable symbol_version_regexp
run suppress_variable type_name_regexp
run suppress_file file_name_regexp
run suppress_file soname_regexp
