#!/bin/sh
# fixed: property=C34 R-DEVM/UNDERFLOW, R-DEVM/ASSERT, R-DEVM/DIV, R-DEVM/CONST (six repairs of the DWARF expression evaluator)
# A library built with -gdwarf-2 describes the offset of a data member with a two-byte location block (DW_OP_plus_uconst 4).
# Overwriting those two bytes (or the five bytes of a large offset) with other operations made abidw
#   read an empty stack            DW_OP_plus                                   SIGSEGV
#   assert on the stack depth      DW_OP_swap / rot / over / xderef             SIGABRT
#   divide by zero                 DW_OP_lit0; DW_OP_div (DW_OP_mod)            SIGFPE
#   assert on a non-constant       DW_OP_deref; DW_OP_neg (DW_OP_ne)            SIGABRT
#   assert on a backward branch    DW_OP_const1s -1; DW_OP_bra                  SIGABRT
# exit 0 = abidw terminates normally on every variant, 1 = it died by signal.
D=$(mktemp -d); trap 'rm -rf $D' EXIT
H=$(cd "$(dirname "$0")" && pwd)
cd $D
T=${TOOLS:-/repo/tools}
cat > g.c <<'E'
struct S { int a; int b; };
int f(struct S *s) { return s->a; }
E
cat > big.c <<'E'
struct B { char big[2097152]; int tail; };
int fb(struct B *s) { return s->tail; }
E
gcc -gdwarf-2 -gstrict-dwarf -shared -fPIC -o g2.so g.c || exit 2
gcc -gdwarf-2 -gstrict-dwarf -shared -fPIC -o big.so big.c || exit 2
cat > p.py <<'E'
import sys
src, dst, pat, new = sys.argv[1], sys.argv[2], bytes.fromhex(sys.argv[3]), bytes.fromhex(sys.argv[4])
b = bytearray(open(src, "rb").read())
i = b.find(pat)
if i < 0 or b.find(pat, i + 1) >= 0:
    sys.exit("pattern not found exactly once")
b[i + len(pat) - len(new):i + len(pat)] = new
open(dst, "wb").write(b)
E
bad=0
one() {  # name source pattern replacement
  python3 p.py $2 $1.so $3 $4 || { echo "cannot craft $1"; bad=2; return; }
  timeout 30 $T/abidw $1.so > out.txt 2>&1; rc=$?
  echo "$1: abidw exit status $rc"
  if [ $rc -ge 64 ]; then bad=1; tail -1 out.txt; fi
}
for v in plus:2296 swap:1696 rot:1796 over:1496 xderef:1896 dup:1296 drop:1396 div0:301b mod0:301d neg:061f ne:062e; do
  one g2-${v%%:*} g2.so 022304 ${v##*:}
done
one big-bra big.so 052380808001 117f280000
one big-skip big.so 052380808001 2ffdff9696
exit $bad
