#!/usr/bin/env python3
"""Replays of the KNOWN-FINDINGs of C33 (R-INASSERT / R-IDX on the ABIXML reader).

Each case derives a malformed document from sample.abi (abidw output for sample.cc) by one
edit and feeds it to abilint.  A case is *confirmed* when abilint dies on a signal / abort
(exit status 134 = SIGABRT from an assertion, 139 = SIGSEGV) instead of rejecting the input.
usage: replay.py [case ...]      prints one line per case:  <case> exit=<status> <confirmed|clean>
"""
import os
import re
import subprocess
import sys
import tempfile

HERE = os.path.dirname(os.path.abspath(__file__))
SAMPLE = open(os.path.join(HERE, "sample.abi")).read()
ABILINT = os.environ.get("ABILINT", "/repo/tools/abilint")


def drop_attr(elem, attr, doc=SAMPLE, nth=0):
    """remove attribute `attr` from the nth <elem ...> that has it"""
    ms = [m for m in re.finditer(r"<%s [^>]*>" % re.escape(elem), doc) if (" %s='" % attr) in m.group(0)]
    m = ms[nth]
    new = re.sub(r" %s='[^']*'" % re.escape(attr), "", m.group(0), count=1)
    return doc[:m.start()] + new + doc[m.end():]


def set_attr(elem, attr, value, doc=SAMPLE, nth=0):
    ms = [m for m in re.finditer(r"<%s [^>]*>" % re.escape(elem), doc) if (" %s='" % attr) in m.group(0)]
    m = ms[nth]
    new = re.sub(r" %s='[^']*'" % re.escape(attr), " %s='%s'" % (attr, value), m.group(0), count=1)
    return doc[:m.start()] + new + doc[m.end():]


def dup_with(elem, attr, value, doc=SAMPLE):
    """duplicate the first self-closing <elem .../> with one attribute changed"""
    m = re.search(r"[ \t]*<%s [^>]*/>\n" % re.escape(elem), doc)
    changed = re.sub(r" %s='[^']*'" % re.escape(attr), " %s='%s'" % (attr, value), m.group(0), count=1)
    return doc[:m.end()] + changed + doc[m.end():]


def _id_on_non_type_element():
    # a var-decl refers, as its type, to an id carried by a function-decl
    mf = re.search(r"<function-decl [^>]*>", SAMPLE)
    doc = SAMPLE.replace(mf.group(0), mf.group(0).replace("<function-decl ", "<function-decl id='type-id-777' ", 1), 1)
    return re.sub(r"(<var-decl name='gvar' type-id=')[^']*'", r"\1type-id-777'", doc, count=1)


def _union_decl(where):
    m = re.search(r"( *)<union-decl name='U'[^>]* id='([^']*)'>", SAMPLE)
    decl = "%s<union-decl name='Zzz' visibility='default' is-declaration-only='yes' id='%s'/>\n" % (m.group(1), m.group(2))
    i = SAMPLE.index(m.group(0))
    if where == "before":
        return SAMPLE[:i] + decl + SAMPLE[i:]
    j = SAMPLE.index("</union-decl>", i) + len("</union-decl>\n")
    return SAMPLE[:j] + decl + SAMPLE[j:]


# cases that need another tool than abilint:  name -> argv builder(document path)
TOOLS = {
    "read_corpus_from_input: ABG_ASSERT(corp.recording_types_reachable_from_public_interface_supported() == is_tracking_non_reachable_types)":
        lambda path: ["/repo/tools/abidiff", "--non-reachable-types", path, os.path.join(HERE, "sample.abi")],
}

def _unknown_alias():
    m = re.search(r"<elf-symbol name='[^']*' [^>]*/>", SAMPLE)
    return SAMPLE.replace(m.group(0), m.group(0).replace("<elf-symbol ", "<elf-symbol alias='no_such_symbol' ", 1), 1)


CASES = {
    "build_elf_symbol_db: ABG_ASSERT(i != id_sym_map.end())":
        lambda: _unknown_alias(),
    "read_context::build_or_get_type_decl: ABG_ASSERT(t.operator bool())":
        lambda: _id_on_non_type_element(),
    "read_corpus_from_input: ABG_ASSERT(corp.recording_types_reachable_from_public_interface_supported() == is_tracking_non_reachable_types)":
        lambda: SAMPLE.replace("<abi-corpus ", "<abi-corpus tracking-non-reachable-types='yes' ", 1),
    "build_union_decl: ABG_ASSERT(previous_declaration->get_name() == name)":
        lambda: _union_decl("before"),
    "build_union_decl: ABG_ASSERT(previous_definition->get_name() == name)":
        lambda: _union_decl("after"),
    # key of the finding (function: asserted expression)  ->  malformed document
    "read_context::build_or_get_type_decl: ABG_ASSERT(n)":
        lambda: set_attr("var-decl", "type-id", "type-id-99999"),
    "get_or_read_and_add_translation_unit: ABG_ASSERT(!tu_path.empty())":
        lambda: set_attr("abi-instr", "path", ""),
    "read_access: abort() reached on input-dependent condition over a":
        lambda: set_attr("data-member", "access", "bogus"),
    "build_function_parameter: ABG_ASSERT(!type_id.empty())":
        lambda: drop_attr("parameter", "type-id"),
    "build_type_decl: ABG_ASSERT(!id.empty())":
        lambda: drop_attr("type-decl", "id"),
    "build_type_decl: ABG_ASSERT(name == ty->get_name())":
        lambda: dup_with("type-decl", "name", "other-name"),
    "build_type_decl: ABG_ASSERT(ty->get_size_in_bits() == size_in_bits)":
        lambda: dup_with("type-decl", "size-in-bits", "4096"),
    "build_type_decl: ABG_ASSERT(ty->get_alignment_in_bits() == alignment_in_bits)":
        lambda: _dup_alignment(),
    "build_qualified_type_decl: ABG_ASSERT(!id.empty())":
        lambda: drop_attr("qualified-type-def", "id"),
    "build_qualified_type_decl: ABG_ASSERT(!type_id.empty())":
        lambda: drop_attr("qualified-type-def", "type-id"),
    "build_pointer_type_def: ABG_ASSERT(!id.empty())":
        lambda: drop_attr("pointer-type-def", "id"),
    "build_reference_type_def: ABG_ASSERT(!id.empty())":
        lambda: drop_attr("reference-type-def", "id"),
    "build_reference_type_def: ABG_ASSERT(!type_id.empty())":
        lambda: drop_attr("reference-type-def", "type-id"),
    "build_function_type: ABG_ASSERT(!id.empty())":
        lambda: drop_attr("function-type", "id"),
    "build_subrange_type: ABG_ASSERT(is_infinite || length == upper_bound - lower_bound + 1)":
        lambda: SAMPLE.replace("<subrange length='3'", "<subrange length='3' lower-bound='1' upper-bound='9'", 1),
    "build_array_type_def: ABG_ASSERT(!id.empty())":
        lambda: drop_attr("array-type-def", "id"),
    "build_enum_type_decl: ABG_ASSERT(!id.empty())":
        lambda: drop_attr("enum-decl", "id"),
    "build_typedef_decl: ABG_ASSERT(!id.empty())":
        lambda: drop_attr("typedef-decl", "id"),
    "build_typedef_decl: ABG_ASSERT(!type_id.empty())":
        lambda: drop_attr("typedef-decl", "type-id"),
    "build_class_decl: ABG_ASSERT(!id.empty())":
        lambda: drop_attr("class-decl", "id", nth=1),
    "build_union_decl: ABG_ASSERT(!id.empty())":
        lambda: drop_attr("union-decl", "id"),
}


def _dup_alignment():
    m = re.search(r"[ \t]*<type-decl [^>]*/>\n", SAMPLE)
    changed = m.group(0).replace(" id=", " alignment-in-bits='64' id=", 1)
    return SAMPLE[:m.end()] + changed + SAMPLE[m.end():]


def _decl_only_and_def():
    # a class element that claims to be both declaration-only and the definition of a declaration
    ms = [m for m in re.finditer(r"<class-decl [^>]*>", SAMPLE) if "is-declaration-only='yes'" in m.group(0)]
    m = ms[0]
    ids = re.findall(r"<class-decl [^>]* id='([^']*)'", SAMPLE)
    new = m.group(0).replace(" is-declaration-only='yes'", " is-declaration-only='yes' def-of-decl-id='%s'" % ids[-1], 1)
    return SAMPLE[:m.start()] + new + SAMPLE[m.end():]


def run_case(name):
    doc = CASES[name]()
    with tempfile.NamedTemporaryFile("w", suffix=".abi", delete=False) as t:
        t.write(doc)
        path = t.name
    try:
        argv = TOOLS[name](path) if name in TOOLS else [ABILINT, path]
        r = subprocess.run(argv, capture_output=True)
        rc = r.returncode
    finally:
        os.unlink(path)
    crashed = rc < 0 or rc in (134, 139)
    return rc, crashed


def main():
    names = sys.argv[1:] or sorted(CASES)
    bad = 0
    for n in names:
        rc, crashed = run_case(n)
        print("%-90s exit=%s %s" % (n, rc if rc >= 0 else "signal %d" % -rc, "confirmed" if crashed else "clean"))
        bad += 0 if crashed else 1
    return 0


if __name__ == "__main__":
    sys.exit(main())
