// sample covering the ABIXML element kinds the reader builds
enum E { E0, E1 };
typedef int T;
union U { int a; char b; };
struct Base { int x; };
struct S : public Base {
  const int *p;
  int &r;
  int arr[3];
  E e;
  T t;
  U u;
  int (*fp)(int, char);
  struct Inner { int i; } in;
private:
  int priv;
public:
  S(int &q) : r(q) {}
  virtual int m(int);
};
int S::m(int a) { return a; }
struct Fwd;
Fwd *fwd_ptr;
int take(S *s, E e, T t, U *u) { return s->x + e + t + u->a; }
int gvar;
