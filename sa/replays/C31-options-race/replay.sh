#!/bin/sh
# fixed: property=C31 R-SHARED maybe_update_package_content / maybe_handle_kabi_whitelist_pkg write the shared options
# Two package directories that each carry *.abignore files are prepared by two concurrent tasks; both appended to
# opts.suppression_paths without synchronisation.  The schedule is shown with valgrind's helgrind: a data race inside
# std::vector::push_back called from maybe_update_package_content.  (Races reported inside libelf's elf_version are not
# libabigail's.)   exit 0 = no race on the options, 1 = race reported, 2 = valgrind not available.
command -v valgrind >/dev/null || { echo "valgrind not available"; exit 2; }
D=$(mktemp -d); trap 'rm -rf $D' EXIT
cd $D
mkdir p1 p2
printf 'int f(int x){return x;}\n' > t.c
gcc -g -shared -fPIC -o p1/libt.so t.c && cp p1/libt.so p2/libt.so || exit 2
for p in p1 p2; do for i in 1 2 3 4 5 6; do printf '[suppress_function]\nname = nothing%s\n' $i > $p/s$i.abignore; done; done
LD_LIBRARY_PATH=/repo/src/.libs timeout 900 valgrind --tool=helgrind ${ABIPKGDIFF:-/repo/tools/.libs/abipkgdiff} p1 p2 > out.txt 2>&1
n=$(grep -A8 "Possible data race" out.txt | grep -c "maybe_update_package_content\|maybe_handle_kabi_whitelist_pkg")
echo "helgrind: $(grep -c 'Possible data race' out.txt) race report(s), $n of them in the writes to the options"
[ "$n" -eq 0 ] && exit 0
exit 1
