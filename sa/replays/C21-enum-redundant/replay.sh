#!/bin/sh
# fixed: property=C21 R-EQSYM equals(const enum_type_decl &, ...): predicate is_enumerator_value_redundant(e, r)
# enum E { a = 0 }  vs  enum E { a = 0, c = 5, d = 5 }: before the repair equals(l, r) was true and equals(r, l) false
# (the second loop looked for the redundant value in `r` again): `abidiff v1 v2` reported nothing - not even with
# --harmless - while `abidiff v2 v1` reported two enumerator deletions.   exit 0 = both directions see the change.
D=$(mktemp -d); trap 'rm -rf $D' EXIT
cd $D || exit 2
printf 'enum E { a = 0 };\nint f(enum E e) { return e; }\n' > e1.c
printf 'enum E { a = 0, c = 5, d = 5 };\nint f(enum E e) { return e; }\n' > e2.c
gcc -g -shared -fPIC -o l1.so e1.c && gcc -g -shared -fPIC -o l2.so e2.c || exit 2
i=$(/repo/tools/abidiff --harmless l1.so l2.so | grep -c "enumerator insertion")
d=$(/repo/tools/abidiff --harmless l2.so l1.so | grep -c "enumerator deletion")
echo "v1 -> v2: $i insertion section(s) ; v2 -> v1: $d deletion section(s)"
[ "$i" -ge 1 ] && [ "$d" -ge 1 ]
