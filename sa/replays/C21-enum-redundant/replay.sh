#!/bin/sh
# KNOWN-FINDING C21 R-EQSYM equals(const enum_type_decl &, ...): predicate is_enumerator_value_redundant(e, r)
# enum E { a = 0 }  vs  enum E { a = 0, c = 5, d = 5 }: equals(l, r) is true and equals(r, l) is false - the loop over
# l's enumerators asks whether the value is redundant in `r` (the other enum), the loop over r's enumerators asks it of
# `r` again (its own enum).  `abidiff v1 v2` reports nothing, not even with --harmless; `abidiff v2 v1` reports two
# enumerator deletions.   exit 0 = the asymmetry is still there.
D=$(mktemp -d); trap 'rm -rf $D' EXIT
cd $D || exit 2
printf 'enum E { a = 0 };\nint f(enum E e) { return e; }\n' > e1.c
printf 'enum E { a = 0, c = 5, d = 5 };\nint f(enum E e) { return e; }\n' > e2.c
gcc -g -shared -fPIC -o l1.so e1.c && gcc -g -shared -fPIC -o l2.so e2.c || exit 2
/repo/tools/abidiff --harmless l1.so l2.so > ab.txt; a=$?
/repo/tools/abidiff --harmless l2.so l1.so > ba.txt; b=$?
echo "v1 -> v2: exit $a, $(grep -c 'enumerator' ab.txt) enumerator line(s) ; v2 -> v1: exit $b, $(grep -c 'enumerator' ba.txt) enumerator line(s)"
[ $a -eq 0 ] && [ $b -ne 0 ] && { echo "one direction sees the change, the other does not"; exit 0; }
exit 1
