#!/bin/sh
# finding: property=C33 R-INASSERT on the template-parameter builders of the ABIXML reader (5 sites) and one class-decl site
# No front end emits template elements, but the reader accepts them and C33 quantifies over any document.  Each case is a
# small hand-written document; abilint dies with SIGABRT (assertion / abort()) instead of rejecting it.
# usage: replay.sh [case]   cases: ttype-dup ttype-bad nontype-noid ttempl-noid ttempl-bad class-declonly-defof (default: all)
# exit 0 = the abort is reproduced for every requested case (the findings stand), 1 = some case no longer aborts.
D=$(mktemp -d); trap 'rm -rf $D' EXIT
cd $D
FN="<function-decl name='f' mangled-name='f' visibility='default' binding='global' size-in-bits='64'><return type-id='t1'/></function-decl>"
mk() { printf "<abi-corpus version='2.1' path='x.so'>\n  <abi-instr address-size='64' path='t.cc' language='LANG_C_plus_plus'>\n    <type-decl name='int' size-in-bits='32' id='t1'/>\n    <function-template-decl id='ft1'>%s%s</function-template-decl>\n  </abi-instr>\n</abi-corpus>\n" "$2" "$FN" > tp-$1.xml; }
mk ttype-dup    "<template-type-parameter id='t1' name='T'/>"                  # build_type_tparameter: ABG_ASSERT(!ctxt.get_type_decl(id))
mk ttype-bad    "<template-type-parameter id='tp1' type-id='t1' name='T'/>"    # build_type_tparameter: abort()
mk nontype-noid "<template-non-type-parameter name='N'/>"                      # build_non_type_tparameter: abort()
mk ttempl-noid  "<template-template-parameter name='TT'/>"                     # build_template_tparameter: ABG_ASSERT(!id.empty())
mk ttempl-bad   "<template-template-parameter id='tt1' type-id='t1' name='TT'/>" # build_template_tparameter: abort()
# build_class_decl: ABG_ASSERT(!is_decl_only || !is_def_of_decl)
printf "<abi-corpus version='2.1' path='x.so'>\n  <abi-instr address-size='64' path='t.cc' language='LANG_C_plus_plus'>\n    <class-decl name='A' is-struct='yes' visibility='default' is-declaration-only='yes' id='c1'/>\n    <class-decl name='A' is-struct='yes' visibility='default' is-declaration-only='yes' def-of-decl-id='c1' id='c2'/>\n    <var-decl name='v' type-id='c2' mangled-name='v' visibility='default' binding='global'/>\n  </abi-instr>\n</abi-corpus>\n" > tp-class-declonly-defof.xml
miss=0
for k in ${1:-ttype-dup ttype-bad nontype-noid ttempl-noid ttempl-bad class-declonly-defof}; do
  timeout 60 ${ABILINT:-/repo/tools/abilint} tp-$k.xml > /dev/null 2>&1; rc=$?
  echo "$k: abilint exit status $rc"
  [ $rc -eq 134 ] || miss=1
done
exit $miss
