#!/bin/sh
# fixed: property=C34 R-LOOPPROG trim_leading_string
# A binary whose .gnu_debugaltlink names "../" (the pattern that find_alt_debug_info_path trims) made abidw spin
# forever in tools_utils::trim_leading_string: string_begins_with("../", "../") is true but string_suffix() refuses an
# empty suffix and leaves the string untouched.  exit 0 = abidw terminates, 1 = it had to be killed.
D=$(mktemp -d); trap 'rm -rf $D' EXIT
cd $D
printf 'int f(int x){return x+1;}\n' > t.c
gcc -g -shared -fPIC -o libt.so t.c || exit 2
printf '../\0AAAAAAAAAAAAAAAAAAAA' > link.bin
objcopy --add-section .gnu_debugaltlink=link.bin libt.so libt2.so || exit 2
timeout 20 ${ABIDW:-/repo/tools/abidw} libt2.so > out.txt 2>&1
rc=$?
echo "abidw exit status: $rc"
[ $rc -eq 124 ] && { echo "abidw did not terminate within 20 s"; exit 1; }
exit 0
