#!/bin/sh
# fixed: property=C33 R-NULLABLE build_elf_symbol_from_reference: deref of ctxt.get_corpus() (from get_corpus)
# A document whose root is <abi-instr> (a translation unit alone) is read without a corpus.  A function-decl carrying an
# elf-symbol-id made build_elf_symbol_from_reference() dereference the null corpus: abilint / abidiff SIGSEGV.
# exit 0 = both tools terminate normally, 1 = one died by signal.
D=$(mktemp -d); trap 'rm -rf $D' EXIT
cd $D
cat > a.xml <<'E'
<abi-instr version='1.0' address-size='64' path='t.c' language='LANG_C99'>
  <type-decl name='int' size-in-bits='32' id='t1'/>
  <function-decl name='f' mangled-name='f' visibility='default' binding='global' size-in-bits='64' elf-symbol-id='f'>
    <return type-id='t1'/>
  </function-decl>
</abi-instr>
E
T=${TOOLS:-/repo/tools}
bad=0
timeout 30 $T/abilint a.xml > /dev/null 2>&1; a=$?
timeout 30 $T/abidiff a.xml a.xml > /dev/null 2>&1; b=$?
echo "abilint exit status $a, abidiff exit status $b"
[ $a -ge 64 ] && bad=1; [ $b -ge 64 ] && bad=1
exit $bad
