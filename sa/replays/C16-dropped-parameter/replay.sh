#!/bin/sh
# known finding: property=C16 R-PARMKEEP build_function_type
# When the type of a formal parameter cannot be built, build_function_type() `continue`s: the function is recorded with
# fewer parameters than its source declaration has, silently.  Witness: a C++ library built with
# -gdwarf-5 -fdebug-types-section (the types live in DWARF 5 type units, which this version does not resolve, see the C43
# finding): `int f(S*)` is recorded as `int f()`.
# exit 0 = f is recorded with its parameter, 1 = the parameter was dropped.
D=$(mktemp -d); trap 'rm -rf $D' EXIT
cd $D
cat > t.cc <<'EOF'
struct S { int a; long b; S* next; };
int f(S* s) { return s->a; }
EOF
g++ -gdwarf-5 -fdebug-types-section -O0 -shared -fPIC -o libt.so t.cc || exit 2
readelf --debug-dump=info libt.so 2>/dev/null | grep -q "DW_UT_type" || { echo "toolchain did not emit DWARF 5 type units"; exit 2; }
${ABIDW:-/repo/tools/abidw} --no-corpus-path --no-comp-dir-path libt.so > t.abi || exit 2
awk "/<function-decl name='f'/,/<\/function-decl>/" t.abi
if awk "/<function-decl name='f'/,/<\/function-decl>/" t.abi | grep -q "<parameter"; then exit 0; fi
echo "int f(S*) is recorded without its parameter"; exit 1
