"""Exit-status abstract interpretation (R-STATUS family).

Domain: a *set of worlds* per program point.  A world is
    (preds, env)
  preds: frozenset of (key, bool)  - truth of an opaque predicate, e.g.
         ('has_net_changes', 'diff') or ('nn', 'c1')
  env:   frozenset of (var name, value) for tracked locals; value is an int
         or 'T' (unknown).
Tracked values are those of the bit-mask enums abidiff_status and
elf_reader::status (and ints/bools combined with them).  Enumerators and the
enums' |,&,|=,&= operators are evaluated exactly.  Calls to repo functions
that return a tracked enum are interpreted on demand with the concrete
argument values (memoised); fields of tracked type are abstracted field-wise
(the join of every value ever stored).

The interpreter only reports; the obligations S1..S5 are phrased in
rules/status_rules.py.
"""
from .facts import walk, call_args, member_call_object, expr_str, CALL_KINDS
from .cfg import cond_facts, strip_casts, TOP
from .compdb import AnalysisBroken

TRACKED_ENUMS = ("abigail::tools_utils::abidiff_status", "abigail::elf_reader::status")
PRED_METHODS = ("has_net_changes", "has_incompatible_changes", "has_changes",
                "has_net_subtype_changes")
T = "T"
MAX_WORLDS = 4000


def is_tracked_type(t):
    if t is None:
        return False
    c = t["c"].replace("const ", "").replace(" &", "").replace("&", "").strip()
    return c in TRACKED_ENUMS


class World(object):
    __slots__ = ("preds", "env")

    def __init__(self, preds=frozenset(), env=frozenset()):
        self.preds = preds
        self.env = env

    def key(self):
        return (self.preds, self.env)

    def get(self, var):
        for k, v in self.env:
            if k == var:
                return v
        return None

    def set(self, var, val):
        return World(self.preds, frozenset([(k, v) for k, v in self.env if k != var] + [(var, val)]))

    def pred(self, key):
        for k, v in self.preds:
            if k == key:
                return v
        return None

    def with_pred(self, key, val):
        return World(frozenset([(k, v) for k, v in self.preds if k != key] + [(key, val)]), self.env)

    def drop_preds(self, fn):
        return World(frozenset((k, v) for k, v in self.preds if not fn(k)), self.env)

    def __repr__(self):
        return "W(%s | %s)" % (sorted(self.preds, key=str), sorted(self.env, key=str))


def _uniq(worlds):
    seen, out = set(), []
    for w in worlds:
        k = w.key()
        if k not in seen:
            seen.add(k)
            out.append(w)
    return out


class Interp(object):
    def __init__(self, program, infeasible=None, null_vars_of=None, events=None, status_links=None, loaders=None):
        """infeasible(world)->bool prunes worlds (e.g. lemma L1);
        null_vars_of(f)->set of variable names whose nullness is tracked as a predicate;
        events: list collecting ('assign', f, node, var, incoming values, rhs mentions var)."""
        self.P = program
        self.infeasible = infeasible or (lambda w: False)
        self.null_vars_of = null_vars_of or (lambda f: set())
        self.events = events if events is not None else []
        self.fieldvals = {}          # field qname -> set of values
        self.memo = {}
        self.in_progress = set()
        self.returns = {}            # (func usr) -> list of (value, world, return node)
        self.bitop_checked = {}
        self.loaders = loaders or set()
        # status_links(f) -> {result var: (status var, known-zero mask on the null edge)} (lemma L2)
        self.status_links = status_links or (lambda f: {})
        self.all_returns = {}        # usr -> list of (return node, world) for every return statement

    # ------------------------------------------------------------------ fields
    def compute_fieldvals(self, funcs):
        """Field-wise abstraction: iterate all stores to fields of tracked type."""
        stores = []   # (f, field q, op, rhs node or None(init value))
        for f in funcs:
            if f.dep:
                continue
            for n in f.nodes():
                k = n["k"]
                if k == "CtorInit":
                    d = f.decl(n)
                    if d and d["k"] == "Field" and is_tracked_type(f.unit.type(d.get("t"))):
                        stores.append((f, d["q"], "=", n["c"][0] if n.get("c") else None))
                elif k in ("BinaryOperator", "CompoundAssignOperator", "CXXOperatorCallExpr") and \
                        n.get("op") in ("=", "|=", "&="):
                    c = n["c"]
                    lhs, rhs = (c[1], c[2]) if k == "CXXOperatorCallExpr" else (c[0], c[1])
                    lhs = strip_casts(lhs)
                    if lhs is not None and lhs["k"] == "MemberExpr":
                        d = f.decl(lhs)
                        if d and d["k"] == "Field" and is_tracked_type(f.unit.type(d.get("t"))):
                            stores.append((f, d["q"], n["op"], rhs))
        for _, q, _, _ in stores:
            self.fieldvals.setdefault(q, set())
        changed, rounds = True, 0
        while changed:
            changed = False
            rounds += 1
            if rounds > 50:
                raise AnalysisBroken("field value fixpoint did not converge")
            self.memo.clear()
            for f, q, op, rhs in stores:
                vals = set()
                if rhs is None:
                    vals.add(0)
                else:
                    for v, _ in self.eval(f, rhs, World(), flow_insensitive=True):
                        vals.add(v)
                cur = self.fieldvals[q]
                if op == "=":
                    new = vals
                elif op == "|=":
                    new = set()
                    for a in (cur or {0}):
                        for b in vals:
                            new.add(T if T in (a, b) else (a | b))
                else:
                    new = set()
                    for a in (cur or {0}):
                        for b in vals:
                            new.add(T if T in (a, b) else (a & b))
                if not new <= cur:
                    cur |= new
                    changed = True
        self.memo.clear()
        return stores

    # ------------------------------------------------------------------ expressions
    def _check_bitop(self, d):
        """The enum's operator must really be the bit operation it is named after."""
        u = d.get("u")
        if u in self.bitop_checked:
            return self.bitop_checked[u]
        ok = True
        f = self.P.funcs.get(u)
        if f is not None:
            want = d["n"].replace("operator", "").rstrip("=") or d["n"].replace("operator", "")
            found = False
            for n in f.nodes():
                if n["k"] in ("BinaryOperator", "CompoundAssignOperator") and n.get("op", "").rstrip("=") == want \
                        and n.get("op") not in ("==",):
                    found = True
                if n["k"] == "CXXOperatorCallExpr" and n.get("op") == want:
                    dd = f.decl(n)
                    if dd and self._is_enum_bitop(dd):
                        found = True
            ok = found
        self.bitop_checked[u] = ok
        if not ok:
            raise AnalysisBroken("enum operator %s is not the plain bit operation" % d["sig"])
        return ok

    def _is_enum_bitop(self, d):
        if d is None or d["k"] not in ("Function", "CXXMethod"):
            return False
        if d["n"] not in ("operator|", "operator&", "operator|=", "operator&=", "operator~"):
            return False
        if not d["q"].startswith("abigail::"):
            return False
        return True

    def eval(self, f, n, w, flow_insensitive=False):
        """-> list of (value, world)"""
        n = strip_casts(n)
        if n is None:
            return [(T, w)]
        k = n["k"]
        c = n.get("c", [])
        if k in ("IntegerLiteral", "CXXBoolLiteralExpr", "CharacterLiteral"):
            return [(n.get("v", T), w)]
        if k == "DeclRefExpr":
            d = f.decl(n)
            if d is None:
                return [(T, w)]
            if d["k"] == "EnumConstant":
                return [(d["v"], w)]
            if d["k"] in ("Var", "ParmVar"):
                if flow_insensitive:
                    return [(T, w)]
                v = w.get(d["n"])
                return [(T if v is None else v, w)]
            return [(T, w)]
        if "v" in n and k in ("BinaryOperator", "UnaryOperator"):
            return [(n["v"], w)]
        if k == "MemberExpr":
            d = f.decl(n)
            if d and d["k"] == "Field" and d["q"] in self.fieldvals:
                vals = self.fieldvals[d["q"]] or {0}
                return [(v, w) for v in sorted(vals, key=str)]
            return [(T, w)]
        if k == "UnaryOperator":
            op = n.get("op")
            out = []
            for v, w2 in self.eval(f, c[0], w, flow_insensitive):
                if op == "!":
                    out.append((int(not v) if isinstance(v, int) else T, w2))
                elif op == "~":
                    out.append(((~v) & 0xffffffff if isinstance(v, int) else T, w2))
                elif op == "*":      # *detailed_error_status etc.
                    out.append((T, w2))
                else:
                    out.append((T, w2))
            return out
        if k == "BinaryOperator":
            op = n.get("op")
            if op in ("|", "&", "==", "!=", "^"):
                out = []
                for a, w1 in self.eval(f, c[0], w, flow_insensitive):
                    for b, w2 in self.eval(f, c[1], w1, flow_insensitive):
                        out.append((self._binop(op, a, b), w2))
                return out
            return [(T, w)]
        if k in ("CXXOperatorCallExpr", "CallExpr"):
            d = f.decl(n)
            args = call_args(n)
            if d is not None and self._is_enum_bitop(d) and d["n"] in ("operator|", "operator&") and len(args) == 2:
                self._check_bitop(d)
                out = []
                for a, w1 in self.eval(f, args[0], w, flow_insensitive):
                    for b, w2 in self.eval(f, args[1], w1, flow_insensitive):
                        out.append((self._binop(d["n"][-1], a, b), w2))
                return out
            if d is not None and d["k"] in ("Function", "CXXMethod") and \
                    is_tracked_type(f.unit.type(d.get("ret"))) and d.get("u") in self.P.funcs:
                return self._call(f, n, d, args, w, flow_insensitive)
            return [(T, w)]
        if k == "CXXMemberCallExpr":
            d = f.decl(n)
            if d is not None and is_tracked_type(f.unit.type(d.get("ret"))) and d.get("u") in self.P.funcs:
                return self._call(f, n, d, call_args(n), w, flow_insensitive)
            return [(T, w)]
        if k == "ConditionalOperator":
            return self.eval(f, c[1], w, flow_insensitive) + self.eval(f, c[2], w, flow_insensitive)
        if k in ("CXXConstructExpr",) and len(c) == 1:
            return self.eval(f, c[0], w, flow_insensitive)
        return [(T, w)]

    @staticmethod
    def _binop(op, a, b):
        # ('TZ', m): unknown value whose bits in mask m are known to be zero
        az = a[1] if isinstance(a, tuple) else None
        bz = b[1] if isinstance(b, tuple) else None
        if op == "&":
            if a == 0 or b == 0:
                return 0
            if az is not None and isinstance(b, int) and (b & ~az) == 0:
                return 0
            if bz is not None and isinstance(a, int) and (a & ~bz) == 0:
                return 0
            if az is not None or bz is not None or T in (a, b):
                return T
            return a & b
        if op == "|" and (az is not None or bz is not None):
            if az is not None and isinstance(b, int):
                return ("TZ", az & ~b) if az & ~b else T
            if bz is not None and isinstance(a, int):
                return ("TZ", bz & ~a) if bz & ~a else T
            if az is not None and bz is not None:
                return ("TZ", az & bz) if az & bz else T
            return T
        if az is not None or bz is not None:
            return T
        if T in (a, b):
            return T
        if op == "|":
            return a | b
        if op == "^":
            return a ^ b
        if op == "==":
            return int(a == b)
        if op == "!=":
            return int(a != b)
        return T

    def _call(self, f, n, d, args, w, flow_insensitive):
        callee = self.P.funcs[d["u"]]
        params = callee.params()
        combos = [((), w)]
        for i, p in enumerate(params):
            a = args[i] if i < len(args) else None
            pt = callee.unit.type(p.get("t")) if p else None
            by_value_tracked = pt is not None and is_tracked_type(pt) and not pt.get("ref")
            nxt = []
            for vals, w1 in combos:
                if by_value_tracked and a is not None and a["k"] != "CXXDefaultArgExpr":
                    for v, w2 in self.eval(f, a, w1, flow_insensitive):
                        nxt.append((vals + ((p["n"], v),), w2))
                else:
                    nxt.append((vals, w1))
            combos = nxt
        out = []
        for vals, w1 in combos:
            for rv in sorted(self.summary(callee, vals), key=str):
                out.append((rv, w1))
        return out

    # ------------------------------------------------------------------ functions
    def summary(self, callee, argvals=()):
        key = (callee.u, tuple(argvals))
        if key in self.memo:
            return self.memo[key]
        if key in self.in_progress:
            return {T}
        self.in_progress.add(key)
        rets = self.run(callee, dict(argvals))
        self.in_progress.discard(key)
        vals = {v for v, _, _ in rets}
        if not vals:
            vals = {T}
        self.memo[key] = vals
        return vals

    def run(self, f, argvals=None):
        """Interpret f; returns list of (value, world, return node) and stores it in self.returns."""
        cfg = f.cfg()
        if cfg is None:
            raise AnalysisBroken("no CFG for %s" % f.sig)
        nullvars = self.null_vars_of(f)
        env = []
        for p in f.params():
            pt = f.unit.type(p.get("t"))
            if is_tracked_type(pt):
                v = (argvals or {}).get(p["n"], T)
                env.append((p["n"], v))
        init = frozenset([World(frozenset(), frozenset(env)).key()])
        rets = []
        retseen = set()
        ins = {b: set() for b in cfg.blocks}
        ins[cfg.entry] = set(init)
        work = [cfg.entry]
        rpo = cfg.rpo()
        pos = {b: i for i, b in enumerate(rpo)}
        iters = 0
        while work:
            iters += 1
            if iters > 100000:
                raise AnalysisBroken("status interpretation did not converge in %s" % f.sig)
            work.sort(key=lambda b: pos.get(b, 1 << 30))
            b = work.pop(0)
            blk = cfg.blocks[b]
            worlds = [World(p, e) for (p, e) in ins[b]]
            for e in blk.elems:
                worlds = self._elem(f, e, worlds, rets, retseen, nullvars)
            if len(worlds) > MAX_WORLDS:
                raise AnalysisBroken("world explosion in %s" % f.sig)
            br = cfg.branch(b)
            for idx, s in enumerate(blk.succs):
                if s is None or s not in cfg.blocks:
                    continue
                if br is not None:
                    ws = worlds
                    for cnd in cfg.branch_conds(b):
                        nxt = []
                        for w in ws:
                            nxt.extend(self._cond(f, cnd, w, idx == 0, nullvars))
                        ws = _uniq(nxt)
                else:
                    ws = worlds
                ws = [w for w in ws if not self.infeasible(w)]
                new = {w.key() for w in ws} - ins[s]
                if new:
                    ins[s] |= new
                    if s not in work:
                        work.append(s)
        self.returns[f.u] = rets
        return rets

    def _elem(self, f, n, worlds, rets, retseen, nullvars):
        k = n["k"]
        c = n.get("c", [])
        out = worlds
        if k == "VarDecl":
            d = f.decl(n)
            if d is None:
                return worlds
            name = d["n"]
            t = f.unit.type(d.get("t"))
            out = []
            for w in worlds:
                w = w.drop_preds(lambda key: key[1] == name or key[1].startswith(name + "->"))
                if name in nullvars:
                    init = c[0] if c else None
                    if init is None or (init["k"] in ("CXXConstructExpr", "CXXTemporaryObjectExpr")
                                        and not init.get("c")):
                        w = w.with_pred(("nn", name), False)       # default-constructed: null
                    elif self._has_loader_call(f, init):
                        w = w.with_pred(("loaded", name), True)
                if is_tracked_type(t):
                    if c and c[0] is not None:
                        for v, w2 in self.eval(f, c[0], w):
                            out.append(w2.set(name, v))
                    else:
                        out.append(w.set(name, 0))   # uninitialised status: nothing accumulated yet
                else:
                    out.append(w)
            return _uniq(out)
        if k in ("BinaryOperator", "CompoundAssignOperator", "CXXOperatorCallExpr") and \
                n.get("op") in ("=", "|=", "&="):
            lhs, rhs = (c[1], c[2]) if k == "CXXOperatorCallExpr" else (c[0], c[1])
            lhs = strip_casts(lhs)
            if lhs is None:
                return worlds
            if lhs["k"] == "DeclRefExpr":
                d = f.decl(lhs)
                if d is None or d["k"] not in ("Var", "ParmVar"):
                    return worlds
                name = d["n"]
                t = f.unit.type(d.get("t"))
                if is_tracked_type(t):
                    mentions = any(x["k"] == "DeclRefExpr" and (f.decl(x) or {}).get("n") == name
                                   for x in walk(rhs))
                    incoming = set()
                    out = []
                    for w in worlds:
                        cur = w.get(name)
                        cur = T if cur is None else cur
                        incoming.add(cur)
                        for v, w2 in self.eval(f, rhs, w):
                            if n["op"] == "=":
                                nv = v
                            elif n["op"] == "|=":
                                nv = self._binop("|", cur, v)
                            else:
                                nv = self._binop("&", cur, v)
                            out.append(w2.set(name, nv))
                    self.events.append(("assign", f, n, name, n["op"], frozenset(incoming), mentions))
                    return _uniq(out)
                # any other assigned variable: forget predicates about it
                if name in nullvars or any(key[1] == name for w in worlds for key, _ in w.preds):
                    loaded = name in nullvars and self._has_loader_call(f, rhs)
                    out = []
                    for w in worlds:
                        w = w.drop_preds(lambda key: key[1] == name)
                        if loaded:
                            w = w.with_pred(("loaded", name), True)
                        out.append(w)
                    return _uniq(out)
                return worlds
            return worlds
        if k == "ReturnStmt":
            ar = self.all_returns.setdefault(f.u, [])
            for w in worlds:
                ar.append((n, w))
            if is_tracked_type(f.ret_type()) or (f.n == "main"):
                for w in worlds:
                    vals = self.eval(f, c[0], w) if c and c[0] is not None else [(T, w)]
                    for v, w2 in vals:
                        key = (v, w2.key(), n["i"])
                        if key not in retseen:
                            retseen.add(key)
                            rets.append((v, w2, n))
            return worlds
        if k in CALL_KINDS:
            # a tracked variable passed by non-const reference / address is overwritten
            d = f.decl(n)
            if d is None or self._is_enum_bitop(d):
                return worlds
            clobbered = []
            pts = d.get("pt", [])
            for i, a in enumerate(call_args(n)):
                a0 = strip_casts(a)
                if a0 is None:
                    continue
                if a0["k"] == "UnaryOperator" and a0.get("op") == "&":
                    a0 = strip_casts(a0["c"][0])
                    byref = True
                else:
                    pt = f.unit.type(pts[i]) if i < len(pts) else None
                    byref = bool(pt and pt.get("ref") and not pt.get("const"))
                if byref and a0 is not None and a0["k"] == "DeclRefExpr":
                    dd = f.decl(a0)
                    if dd and dd["k"] in ("Var", "ParmVar") and is_tracked_type(f.unit.type(dd.get("t"))):
                        clobbered.append(dd["n"])
            if clobbered:
                out = []
                for w in worlds:
                    for name in clobbered:
                        w = w.set(name, T)
                    out.append(w)
                return _uniq(out)
        return worlds

    def _has_loader_call(self, f, rhs):
        for x in walk(rhs):
            if x["k"] == "CallExpr" and (f.decl(x) or {}).get("q") in self.loaders:
                return True
        return False

    def _cond(self, f, cond, w, truth, nullvars):
        """worlds consistent with cond == truth"""
        n = strip_casts(cond)
        if n is None:
            return [w]
        k = n["k"]
        c = n.get("c", [])
        if k == "UnaryOperator" and n.get("op") == "!":
            return self._cond(f, c[0], w, not truth, nullvars)
        if k == "CXXOperatorCallExpr" and n.get("op") == "!" and len(c) == 2:
            return self._cond(f, c[1], w, not truth, nullvars)
        if k == "BinaryOperator" and n.get("op") == "&&":
            if truth:
                out = []
                for w1 in self._cond(f, c[0], w, True, nullvars):
                    out.extend(self._cond(f, c[1], w1, True, nullvars))
                return out
            return _uniq(self._cond(f, c[0], w, False, nullvars) +
                         [w2 for w1 in self._cond(f, c[0], w, True, nullvars)
                          for w2 in self._cond(f, c[1], w1, False, nullvars)])
        if k == "BinaryOperator" and n.get("op") == "||":
            if not truth:
                out = []
                for w1 in self._cond(f, c[0], w, False, nullvars):
                    out.extend(self._cond(f, c[1], w1, False, nullvars))
                return out
            return _uniq(self._cond(f, c[0], w, True, nullvars) +
                         [w2 for w1 in self._cond(f, c[0], w, False, nullvars)
                          for w2 in self._cond(f, c[1], w1, True, nullvars)])
        # opaque verdict predicates
        if k == "CXXMemberCallExpr":
            d = f.decl(n)
            if d is not None and d["n"] in PRED_METHODS and not call_args(n):
                recv = member_call_object(n)
                # diff->has_net_changes():  receiver is operator-> on `diff`
                key = (d["n"], expr_str(f, recv))
                cur = w.pred(key)
                if cur is None:
                    return [w.with_pred(key, truth)]
                return [w] if cur == truth else []
        # nullness of tracked variables
        facts = cond_facts(f, n, truth)
        if facts:
            out = w
            for kind, key in facts:
                if key not in nullvars:
                    continue
                pk = ("nn", key)
                want = (kind == "nn")
                cur = out.pred(pk)
                if cur is None:
                    out = out.with_pred(pk, want)
                elif cur != want:
                    return []
                link = self.status_links(f).get(key)
                if link and not want and out.get(link[0]) == T:
                    out = out.set(link[0], ("TZ", link[1]))
            return [out]
        # concretely evaluable conditions
        res = []
        for v, w2 in self.eval(f, n, w):
            if not isinstance(v, int):
                res.append(w2)
            elif bool(v) == truth:
                res.append(w2)
        return _uniq(res)
