"""Compilation database for /repo, derived from the automake inputs on every run.

`make -n` is deliberately not used (it re-runs config.status in /repo).
Units = libabigail_la_SOURCES (+VIZ_SOURCES, + CTF reader iff config.h defines
WITH_CTF) and the *_SOURCES of tools/Makefile.am.  Flags are read from the
generated Makefiles when present and otherwise fall back to the values the
project's configure.ac produces; -std is always stated explicitly.
"""
import os
import re

REPO = os.environ.get("VERIF_REPO", "/repo")


class AnalysisBroken(Exception):
    pass


def _am_vars(path):
    txt = open(path).read()
    txt = txt.replace("\\\n", " ")
    out = {}
    for line in txt.splitlines():
        m = re.match(r"\s*([A-Za-z_][A-Za-z0-9_]*)\s*(\+?=)\s*(.*)$", line)
        if not m:
            continue
        k, op, v = m.groups()
        if op == "+=":
            out[k] = out.get(k, "") + " " + v
        else:
            out.setdefault(k, v)
    return out


def _mk_var(path, name):
    if not os.path.exists(path):
        return None
    for line in open(path):
        m = re.match(r"%s\s*=\s*(.*)$" % re.escape(name), line)
        if m:
            return m.group(1).strip()
    return None


def units(repo=None):
    repo = repo or REPO
    src_am = os.path.join(repo, "src", "Makefile.am")
    tools_am = os.path.join(repo, "tools", "Makefile.am")
    cfg = os.path.join(repo, "config.h")
    if not (os.path.exists(src_am) and os.path.exists(tools_am)):
        raise AnalysisBroken("Makefile.am not found under %s" % repo)
    if not os.path.exists(cfg):
        raise AnalysisBroken("%s missing: repository is not configured" % cfg)
    if not os.path.exists(os.path.join(repo, "include", "abg-version.h")):
        raise AnalysisBroken("include/abg-version.h missing: repository is not configured")
    with_ctf = bool(re.search(r"^\s*#\s*define\s+WITH_CTF\b", open(cfg).read(), re.M))

    v = _am_vars(src_am)
    srcs = v.get("libabigail_la_SOURCES", "")
    srcs = srcs.replace("$(VIZ_SOURCES)", v.get("VIZ_SOURCES", ""))
    lib = [s for s in srcs.split() if s.endswith(".cc")]
    if not with_ctf:
        lib = [s for s in lib if s != "abg-ctf-reader.cc"]
    lib = sorted(set(lib))

    tv = _am_vars(tools_am)
    tools = []
    for k, val in tv.items():
        if k.endswith("_SOURCES"):
            tools += [s for s in val.split() if s.endswith(".cc")]
    tools = sorted(set(tools))

    std = "-std=c++11"
    cxxflags = _mk_var(os.path.join(repo, "src", "Makefile"), "CXXFLAGS") or ""
    m = re.search(r"-std=\S+", cxxflags)
    if m:
        std = m.group(0)
    xml = _mk_var(os.path.join(repo, "src", "Makefile"), "XML_CFLAGS") or "-I/usr/include/libxml2"
    libdir = "/usr/local/lib"

    common = [std, "-DHAVE_CONFIG_H",
              '-DABIGAIL_ROOT_SYSTEM_LIBDIR="%s"' % libdir] + xml.split() + [
        "-I" + repo, "-I" + os.path.join(repo, "include"),
        "-I" + os.path.join(repo, "src"), "-I" + os.path.join(repo, "tools"),
        "-fvisibility=hidden", "-UNDEBUG", "-w"]
    db = []
    for s in lib:
        p = os.path.join(repo, "src", s)
        if not os.path.exists(p):
            raise AnalysisBroken("listed source missing: " + p)
        db.append({"file": p, "name": "src/" + s, "flags": common, "kind": "lib"})
    for s in tools:
        p = os.path.join(repo, "tools", s)
        if not os.path.exists(p):
            raise AnalysisBroken("listed source missing: " + p)
        db.append({"file": p, "name": "tools/" + s, "flags": common, "kind": "tool"})
    return db


def header_files(repo=None):
    repo = repo or REPO
    out = []
    for d in ("include", "src", "tools"):
        full = os.path.join(repo, d)
        for f in sorted(os.listdir(full)):
            if f.endswith(".h"):
                out.append(os.path.join(full, f))
    out.append(os.path.join(repo, "config.h"))
    return out
