"""Fact extraction driver and program model.

`ensure_facts(units)` runs the clang plugin (sa/abgsa.so) on the current sources
of /repo for the requested units (content-hash keyed cache under /verif/.work),
`Program` loads the per-unit JSON and offers the query API used by the rules.
"""
import hashlib
import json
import os
import subprocess
import sys
from concurrent.futures import ThreadPoolExecutor

from . import compdb
from .compdb import AnalysisBroken

HERE = os.path.dirname(os.path.abspath(__file__))
SA = os.path.dirname(HERE)
VERIF = os.path.dirname(SA)
WORK = os.environ.get("VERIF_WORK", os.path.join(VERIF, ".work"))
PLUGIN = os.path.join(SA, "abgsa.so")
PLUGIN_SRC = os.path.join(SA, "abgsa.cc")


def build_plugin(force=False):
    if (not force and os.path.exists(PLUGIN)
            and os.path.getmtime(PLUGIN) >= os.path.getmtime(PLUGIN_SRC)):
        return
    cxxflags = subprocess.check_output(["llvm-config-14", "--cxxflags"], text=True).split()
    cmd = ["clang++"] + cxxflags + ["-fno-rtti", "-fPIC", "-shared", "-O1",
                                    PLUGIN_SRC, "-o", PLUGIN]
    r = subprocess.run(cmd, capture_output=True, text=True)
    if r.returncode != 0:
        raise AnalysisBroken("plugin build failed:\n" + r.stderr[-4000:])


def _sha(paths, extra=""):
    h = hashlib.sha256()
    h.update(extra.encode())
    for p in paths:
        h.update(p.encode())
        with open(p, "rb") as f:
            h.update(f.read())
    return h.hexdigest()[:24]


def _run_plugin(entry, out, repo):
    cmd = ["clang++", "-fsyntax-only", "-fplugin=" + PLUGIN,
           "-Xclang", "-plugin", "-Xclang", "abgsa",
           "-Xclang", "-plugin-arg-abgsa", "-Xclang", "root=" + repo,
           "-Xclang", "-plugin-arg-abgsa", "-Xclang", "out=" + out + ".tmp",
           ] + entry["flags"] + [entry["file"]]
    r = subprocess.run(cmd, capture_output=True, text=True,
                       cwd=os.path.dirname(entry["file"]))
    if r.returncode != 0 or not os.path.exists(out + ".tmp"):
        return entry["name"], r.stderr[-3000:] or "no output produced"
    os.replace(out + ".tmp", out)
    return entry["name"], None


def ensure_facts(names=None, repo=None, workdir=None):
    """Return {unit name: facts path}.  names: iterable of 'src/x.cc' or None=all."""
    repo = repo or compdb.REPO
    build_plugin()
    db = compdb.units(repo)
    if names is not None:
        names = set(names)
        missing = names - {e["name"] for e in db}
        if missing:
            raise AnalysisBroken("units not in the build: %s" % sorted(missing))
        db = [e for e in db if e["name"] in names]
    hdr_hash = _sha(compdb.header_files(repo))
    plug_hash = _sha([PLUGIN_SRC])
    fdir = workdir or os.path.join(WORK, "facts")
    os.makedirs(fdir, exist_ok=True)
    todo, result = [], {}
    for e in db:
        key = _sha([e["file"]], hdr_hash + plug_hash + " ".join(e["flags"]) + repo)
        out = os.path.join(fdir, "%s.%s.json" % (e["name"].replace("/", "_"), key))
        result[e["name"]] = out
        if not os.path.exists(out):
            todo.append((e, out))
    if todo:
        # drop stale cache entries of the units being rebuilt
        for e, out in todo:
            prefix = e["name"].replace("/", "_") + "."
            for f in os.listdir(fdir):
                if f.startswith(prefix) and os.path.join(fdir, f) != out:
                    try:
                        os.unlink(os.path.join(fdir, f))
                    except OSError:
                        pass
        with ThreadPoolExecutor(max_workers=min(16, len(todo))) as ex:
            for name, err in ex.map(lambda t: _run_plugin(t[0], t[1], repo), todo):
                if err:
                    raise AnalysisBroken("unit %s does not parse:\n%s" % (name, err))
    return result


# --------------------------------------------------------------------------- model

CALL_KINDS = ("CallExpr", "CXXMemberCallExpr", "CXXOperatorCallExpr",
              "CXXConstructExpr", "CXXTemporaryObjectExpr", "UserDefinedLiteral")


class Unit(object):
    def __init__(self, name, path):
        self.name = name
        with open(path) as f:
            d = json.load(f)
        self.decls = d["decls"]
        self.types = d["types"]
        self.records = d["records"]
        self.enums = d["enums"]
        self.globals = d["globals"]
        self.functions = [Func(self, r) for r in d["functions"]]

    def decl(self, idx):
        return self.decls[idx - 1] if idx else None

    def type(self, idx):
        return self.types[idx - 1] if idx else None


class Func(object):
    def __init__(self, unit, rec):
        self.unit = unit
        self.r = rec
        self.q = rec["q"]
        self.n = rec["n"]
        self.sig = rec["sig"]
        self.u = rec["u"]
        self.file = rec["file"]
        self.l0 = rec["l0"]
        self.l1 = rec["l1"]
        self.cls = rec.get("cls")
        self.body = rec["body"]
        self.cfg_raw = rec.get("cfg")
        self.dep = bool(rec.get("dep"))
        self.inst = bool(rec.get("inst"))
        self._nodes = None
        self._parent = None
        self._byid = None
        self._cfg = None

    def __repr__(self):
        return "<Func %s %s:%d>" % (self.sig, self.relfile, self.l0)

    @property
    def relfile(self):
        f = self.file
        root = compdb.REPO.rstrip("/") + "/"
        return f[len(root):] if f.startswith(root) else f

    def loc(self, n=None):
        if n is None:
            return "%s:%d" % (self.relfile, self.l0)
        f = n.get("f")
        if f:
            root = compdb.REPO.rstrip("/") + "/"
            f = f[len(root):] if f.startswith(root) else f
        return "%s:%d" % (f or self.relfile, n.get("l", 0))

    # tree access -------------------------------------------------------
    def _index(self):
        nodes, parent, byid = [], {}, {}
        stack = [(self.body, None)]
        while stack:
            n, p = stack.pop()
            if n is None:
                continue
            nodes.append(n)
            byid[n["i"]] = n
            if p is not None:
                parent[n["i"]] = p
            kids = []
            for k in ("init", "var"):
                if k in n:
                    kids.append(n[k])
            kids.extend(n.get("c", ()))
            for c in reversed(kids):
                stack.append((c, n))
        self._nodes, self._parent, self._byid = nodes, parent, byid

    def nodes(self):
        if self._nodes is None:
            self._index()
        return self._nodes

    def parent(self, n):
        if self._nodes is None:
            self._index()
        return self._parent.get(n["i"])

    def node(self, i):
        if self._nodes is None:
            self._index()
        return self._byid.get(i)

    def ancestors(self, n):
        p = self.parent(n)
        while p is not None:
            yield p
            p = self.parent(p)

    def decl(self, n):
        d = n.get("d") if n else None
        return self.unit.decl(d) if d else None

    def type(self, n):
        t = n.get("t") if n else None
        return self.unit.type(t) if t else None

    def tstr(self, n):
        t = self.type(n)
        return t["s"] if t else ""

    def tcanon(self, n):
        t = self.type(n)
        return t["c"] if t else ""

    def ret_type(self):
        return self.unit.type(self.r["ret"])

    def params(self):
        return [self.unit.decl(i) for i in self.r["params"]]

    def param_ids(self):
        return list(self.r["params"])

    def calls(self):
        """[(node, callee decl)] for every resolved call-like node."""
        out = []
        for n in self.nodes():
            if n["k"] in CALL_KINDS:
                d = self.decl(n)
                if d is not None:
                    out.append((n, d))
        return out

    def macro(self, n):
        """Outermost macro the node was expanded from ('' if none)."""
        while n is not None:
            if "m" in n:
                return n["m"]
            n = self.parent(n)
        return ""

    def cfg(self):
        if self._cfg is None and self.cfg_raw:
            from .cfg import CFG
            self._cfg = CFG(self)
        return self._cfg


def walk(n):
    stack = [n]
    while stack:
        x = stack.pop()
        if x is None:
            continue
        yield x
        kids = []
        for k in ("init", "var"):
            if k in x:
                kids.append(x[k])
        kids.extend(x.get("c", ()))
        stack.extend(reversed(kids))


def call_args(n):
    k = n["k"]
    c = n.get("c", [])
    if k in ("CXXConstructExpr", "CXXTemporaryObjectExpr"):
        return list(c)
    return list(c[1:])


def member_call_object(n):
    """object expression of a CXXMemberCallExpr (None otherwise)."""
    if n["k"] != "CXXMemberCallExpr":
        return None
    c = n.get("c", [])
    if c and c[0] is not None and c[0]["k"] == "MemberExpr" and c[0].get("c"):
        return c[0]["c"][0]
    return None


def expr_str(f, n, depth=0):
    """Readable, position-independent rendering of an expression (for keys and reports)."""
    if n is None:
        return ""
    if depth > 12:
        return "..."
    k = n["k"]
    c = n.get("c", [])
    d = f.decl(n)
    r = lambda x: expr_str(f, x, depth + 1)
    if k == "DeclRefExpr":
        return d["n"] if d else "?"
    if k == "MemberExpr":
        base = r(c[0]) if c else "this"
        if c and c[0] is not None and c[0]["k"] == "CXXThisExpr":
            return d["n"] if d else "?"
        return "%s%s%s" % (base, "->" if n.get("arrow") else ".", d["n"] if d else "?")
    if k == "CXXThisExpr":
        return "this"
    if k in ("IntegerLiteral", "CXXBoolLiteralExpr", "CharacterLiteral"):
        return str(n.get("v"))
    if k == "StringLiteral":
        return json.dumps(n.get("s", ""))
    if k in ("CXXNullPtrLiteralExpr", "GNUNullExpr"):
        return "nullptr"
    if k == "UnaryOperator":
        if n.get("post"):
            return r(c[0]) + n["op"]
        return n["op"] + r(c[0])
    if k in ("BinaryOperator", "CompoundAssignOperator"):
        return "%s %s %s" % (r(c[0]), n["op"], r(c[1]))
    if k == "CXXMemberCallExpr":
        return "%s(%s)" % (r(c[0]), ", ".join(r(a) for a in c[1:]))
    if k == "CXXOperatorCallExpr":
        op = n.get("op", "?")
        a = c[1:]
        if op == "->" and a:
            return r(a[0])
        if op == "*" and len(a) == 1:
            return "*" + r(a[0])
        if op == "[]" and len(a) == 2:
            return "%s[%s]" % (r(a[0]), r(a[1]))
        if op == "()" and a:
            return "%s(%s)" % (r(a[0]), ", ".join(r(x) for x in a[1:]))
        if len(a) == 2:
            return "%s %s %s" % (r(a[0]), op, r(a[1]))
        if len(a) == 1:
            return op + r(a[0])
        return op
    if k == "CallExpr":
        return "%s(%s)" % (d["n"] if d else r(c[0]) if c else "?",
                           ", ".join(r(a) for a in c[1:]))
    if k in ("CXXConstructExpr", "CXXTemporaryObjectExpr"):
        if len(c) == 1:
            return r(c[0])
        return "%s(%s)" % (d["cls"].split("::")[-1] if d and d.get("cls") else "ctor",
                           ", ".join(r(a) for a in c))
    if k in ("CStyleCastExpr", "CXXStaticCastExpr", "CXXReinterpretCastExpr",
             "CXXConstCastExpr", "CXXFunctionalCastExpr", "CXXDynamicCastExpr"):
        return r(c[0]) if c else "cast"
    if k == "ArraySubscriptExpr":
        return "%s[%s]" % (r(c[0]), r(c[1]))
    if k == "ConditionalOperator":
        return "%s ? %s : %s" % (r(c[0]), r(c[1]), r(c[2]))
    if k == "CXXDefaultArgExpr":
        return "<default>"
    if k == "LambdaExpr":
        return "<lambda>"
    if k == "CXXNewExpr":
        return "new"
    return k


class Program(object):
    def __init__(self, unit_paths):
        self.units = {}
        for name in sorted(unit_paths):
            self.units[name] = Unit(name, unit_paths[name])
        self.funcs = {}        # usr -> Func (first definition)
        self.by_q = {}         # qualified name -> [Func]
        self.records = {}      # qname -> record
        self.enums = {}
        for u in self.units.values():
            if u.name.startswith("tools/"):
                # every tool is an executable of its own: functions (and classes) defined in the tool's source file
                # with external linkage can share a USR with another tool's (parse_command_line, options::options)
                own = {f.u for f in u.functions if f.u and f.q != "main" and f.relfile == u.name}
                for d in u.decls:
                    if d.get("u") in own:
                        d["u"] = d["u"] + "#" + u.name
                for f in u.functions:
                    if f.u in own:
                        f.u = f.u + "#" + u.name
            for f in u.functions:
                if f.q == "main":
                    f.u = f.u + "#" + u.name          # one main per executable
                if f.u and f.u in self.funcs:
                    continue
                key = f.u or ("?%s@%s:%d" % (f.sig, f.file, f.l0))
                self.funcs[key] = f
                self.by_q.setdefault(f.q, []).append(f)
            for r in u.records:
                if r["q"] not in self.records:
                    rr = dict(r)
                    rr["_unit"] = u
                    self.records[r["q"]] = rr
            for e in u.enums:
                self.enums.setdefault(e["q"], e)
        self._overriders = None
        self._cg = None

    # ---- lookup helpers
    def fn(self, q, must=True, pick=None):
        """Functions with qualified name q (optionally filtered by predicate)."""
        fs = [f for f in self.by_q.get(q, []) if not f.dep or True]
        if pick:
            fs = [f for f in fs if pick(f)]
        if must and not fs:
            raise AnalysisBroken("anchor vanished: no definition of %s in analysed units" % q)
        return fs

    def fn1(self, q, pick=None):
        fs = self.fn(q, pick=pick)
        if len(fs) != 1:
            raise AnalysisBroken("anchor ambiguous: %d definitions of %s" % (len(fs), q))
        return fs[0]

    def all_funcs(self):
        return self.funcs.values()

    def enum_consts(self, q):
        e = self.enums.get(q)
        if not e:
            raise AnalysisBroken("anchor vanished: enum %s" % q)
        return {c["n"]: c["v"] for c in e["consts"]}

    # ---- class hierarchy
    def overriders(self):
        """usr of a virtual method -> set of usrs of all (transitive) overriders."""
        if self._overriders is None:
            direct = {}
            for r in self.records.values():
                for m in r["methods"]:
                    for o in m.get("ovr", []):
                        direct.setdefault(o, set()).add(m["u"])
            closure = {}

            def close(u, seen):
                out = set()
                for v in direct.get(u, ()):
                    if v in seen:
                        continue
                    seen.add(v)
                    out.add(v)
                    out |= close(v, seen)
                return out
            for u in list(direct):
                closure[u] = close(u, set())
            self._overriders = closure
        return self._overriders

    def subclasses(self, q):
        out, changed = {q}, True
        while changed:
            changed = False
            for r in self.records.values():
                if r["q"] not in out and any(b in out for b in r["bases"]):
                    out.add(r["q"])
                    changed = True
        return out

    # ---- call graph
    def callgraph(self):
        """usr -> {callee usr: [call nodes]} for defined, non-dependent functions.
        Virtual calls are expanded by CHA; a reference to a function that is not
        the callee of a call (callback registration) and lambdas count as calls."""
        if self._cg is not None:
            return self._cg
        ovr = self.overriders()
        # function objects: constructing an object of a project class that has operator() counts as (possibly) calling it -
        # comparators handed to std::sort and friends are invoked from library code that is not part of the facts
        functors = {}
        for q, r in self.records.items():
            us = [m["u"] for m in r.get("methods", []) if m.get("n") == "operator()" and m.get("u")]
            if us:
                functors[q] = us
        cg = {}
        for key, f in self.funcs.items():
            if f.dep:
                continue
            edges = {}
            callee_ref_ids = set()
            for n in f.nodes():
                k = n["k"]
                if k in ("CXXConstructExpr", "CXXTemporaryObjectExpr") and functors:
                    dd = f.decl(n) or {}
                    for u_ in functors.get(dd.get("cls") or "", ()):
                        edges.setdefault(u_, []).append(n)
                if k in CALL_KINDS:
                    c = n.get("c", [])
                    if k not in ("CXXConstructExpr", "CXXTemporaryObjectExpr") and c and c[0] is not None:
                        callee_ref_ids.add(c[0]["i"])
                    d = f.decl(n)
                    if d is None or not d.get("u"):
                        continue
                    edges.setdefault(d["u"], []).append(n)
                    if n.get("virt"):
                        for o in ovr.get(d["u"], ()):
                            edges.setdefault(o, []).append(n)
                elif k == "LambdaExpr":
                    d = f.decl(n)
                    if d is not None and d.get("u"):
                        edges.setdefault(d["u"], []).append(n)
            for n in f.nodes():
                if n["k"] in ("DeclRefExpr", "MemberExpr") and n["i"] not in callee_ref_ids:
                    d = f.decl(n)
                    if d is not None and d["k"] in ("Function", "CXXMethod") and d.get("u"):
                        edges.setdefault(d["u"], []).append(n)
            cg[key] = edges
        self._cg = cg
        return cg

    def reach(self, roots, stop=None):
        """Forward closure over the call graph from the root usrs.
        Returns {usr: (parent usr or None, call node)} for path reconstruction."""
        cg = self.callgraph()
        seen = {}
        work = []
        for r in roots:
            if r not in seen:
                seen[r] = (None, None)
                work.append(r)
        while work:
            u = work.pop()
            if stop and stop(u):
                continue
            for v, nodes in cg.get(u, {}).items():
                if v not in seen:
                    seen[v] = (u, nodes[0])
                    work.append(v)
        return seen

    def live(self):
        """functions reachable from any tool's main (call graph with CHA and address-taken edges)"""
        if getattr(self, "_live", None) is None:
            roots = [k for k, f in self.funcs.items() if f.q == "main"]
            self._live = self.reach(roots)
        return self._live

    def path_to(self, seen, u):
        out = []
        while u is not None:
            p, n = seen[u]
            f = self.funcs.get(u)
            out.append(f.sig if f else u)
            u = p
        return list(reversed(out))
