"""Check context: obligations, violations, known findings, evidence, exit codes."""
import json
import os
import time

from .compdb import AnalysisBroken
from . import facts

VERIF = facts.VERIF
KNOWN = os.path.join(VERIF, "known_findings.json")

EXIT_OK, EXIT_VIOLATION, EXIT_BROKEN = 0, 1, 2


class Ctx(object):
    def __init__(self, prop, tier, seed=0):
        self.prop = prop
        self.tier = tier
        self.seed = seed
        self.t0 = time.time()
        self.obligations = []     # dicts: rule, entity, ok, loc, detail
        self.floors = []          # (rule, what, count, minimum)
        self.assumptions = []
        self.notes = []
        self.units_used = set()
        self.functions_analysed = set()
        self.unresolved = []
        self._program = None
        self._program_units = None
        self.clause = ""
        self.rules = []

    # ---- program access
    def program(self, units=None):
        """Facts for the named units (None = whole program), from the current tree."""
        key = None if units is None else tuple(sorted(set(units)))
        if not hasattr(self, "_programs"):
            self._programs = {}
        if key in self._programs:
            return self._programs[key]
        paths = facts.ensure_facts(None if key is None else list(key))
        if key is None:
            # one `main` per executable: the whole-program model keeps the library and
            # every tool's non-main functions; tool mains are analysed per tool
            pass
        P = facts.Program(paths)
        self._programs[key] = P
        self.units_used |= set(paths)
        return P

    # ---- recording
    def ob(self, rule, entity, ok, loc="", detail="", sample=None):
        """One obligation instance. entity must be position independent (no line numbers)."""
        self.obligations.append({"rule": rule, "entity": entity, "ok": bool(ok),
                                 "loc": loc, "detail": detail})
        return ok

    def floor(self, rule, what, count, minimum):
        self.floors.append((rule, what, count, minimum))

    def assume(self, text):
        if text not in self.assumptions:
            self.assumptions.append(text)

    def note(self, text):
        self.notes.append(text)

    def analysed(self, f):
        self.functions_analysed.add(f.sig)


def load_known():
    if not os.path.exists(KNOWN):
        return {"findings": [], "fixed": []}
    with open(KNOWN) as f:
        return json.load(f)


def finish(ctx, broken=None):
    """Print verdict lines, write evidence, return exit code."""
    prop = ctx.prop
    wall = time.time() - ctx.t0
    known = load_known()
    known_keys = {}
    for k in known.get("findings", []):
        if k["property"] == prop:
            known_keys[k["key"]] = k

    floor_fail = [(r, w, c, m) for (r, w, c, m) in ctx.floors if c < m]
    floor_msg = "; ".join("%s: %s = %d < floor %d" % x for x in floor_fail)

    viol, knownhit = [], []
    seen = set()
    for o in ctx.obligations:
        if o["ok"]:
            continue
        key = "%s %s" % (o["rule"], o["entity"])
        if key in seen:
            continue
        seen.add(key)
        if key in known_keys:
            knownhit.append((key, o))
        else:
            viol.append((key, o))

    # an instance count under its floor makes a *pass* untrustworthy (vacuous rule); a violation that
    # was found on a specific construct stands on its own
    if broken is None and floor_fail and not viol:
        broken = floor_msg
    elif floor_fail:
        ctx.note("instance floor not met: " + floor_msg)
    code = EXIT_OK
    if broken:
        print("ANALYSIS-BROKEN property=%s %s" % (prop, broken))
        code = EXIT_BROKEN
    for key, o in knownhit:
        print("KNOWN-FINDING: property=%s %s [%s] %s" % (prop, key, o["loc"], known_keys[key].get("what", "")))
    replay_dir = os.path.join(facts.WORK, "replays")
    if viol and not broken:
        os.makedirs(replay_dir, exist_ok=True)
        for i, (key, o) in enumerate(viol):
            path = os.path.join(replay_dir, "%s-%d.json" % (prop, i))
            with open(path, "w") as f:
                json.dump({"property": prop, "key": key, "rule": o["rule"], "entity": o["entity"],
                           "loc": o["loc"], "detail": o["detail"], "tier": ctx.tier}, f, indent=1)
            print("VIOLATION property=%s replay=%s" % (prop, path))
            print("  %s at %s: %s" % (key, o["loc"], o["detail"]))
        code = EXIT_VIOLATION

    total = len(ctx.obligations)
    ok = sum(1 for o in ctx.obligations if o["ok"])
    distinct = len({(o["rule"], o["entity"]) for o in ctx.obligations})
    samples = []
    byrule = {}
    for o in ctx.obligations:
        byrule.setdefault(o["rule"], []).append(o)
    for r, lst in sorted(byrule.items()):
        for o in lst[:4]:
            samples.append({"rule": r, "instance": o["entity"], "at": o["loc"],
                            "holds": o["ok"], "detail": o["detail"][:300]})
    ev = {
        "property_id": prop,
        "tier": ctx.tier,
        "seed": ctx.seed,
        "level": "other",
        "coverage": {
            "explanation": ("Static analysis of /repo's current sources (clang-14 AST/CFG facts, sa/abgsa.cc; "
                            "rules in sa/rules). Decides the structural clause: %s. It does not decide the "
                            "behavioural statement as a whole." % ctx.clause),
            "rules": ctx.rules,
            "obligations": total,
            "discharged": ok,
            "evaluations": max(total, 1),
            "distinct_nontrivial": distinct,
            "rule": "one obligation per rule instance found in the current sources; distinct = distinct (rule, entity) pairs",
            "obligations_by_rule": {r: {"found": len(l), "hold": sum(1 for o in l if o["ok"])}
                                    for r, l in sorted(byrule.items())},
            "instance_floors": [{"rule": r, "what": w, "count": c, "floor": m} for (r, w, c, m) in ctx.floors],
            "samples": samples or [{"note": "no instance"}],
            "units_analysed": sorted(ctx.units_used),
            "functions_analysed": len(ctx.functions_analysed),
            "functions_sample": sorted(ctx.functions_analysed)[:25],
            "unresolved_indirect_calls": ctx.unresolved[:50],
            "known_findings_present": [k for k, _ in knownhit],
            "new_violations": [k for k, _ in viol],
            "notes": ctx.notes,
            "analysis_broken": broken or "",
            "exhaustive": True,
        },
        "assumptions": ctx.assumptions + [
            "the analysed program is what clang 14 parses with the project's flags (sa/engine/compdb.py)",
            "behaviour of libxml2, elfutils, libstdc++ and glibc is trusted as documented",
        ],
        "wall_s": round(wall, 2),
        "violations": len(viol),
    }
    evdir = os.environ.get("VERIF_EVIDENCE_DIR") or os.path.join(VERIF, "evidence")
    os.makedirs(evdir, exist_ok=True)
    with open(os.path.join(evdir, "%s.json" % prop), "w") as f:
        json.dump(ev, f, indent=1)
    print("%s %s: %d obligations, %d hold, %d known findings, %d new violations, %.1fs%s" % (
        prop, ctx.tier, total, ok, len(knownhit), len(viol), wall,
        " [analysis broken]" if broken else ""))
    return code
