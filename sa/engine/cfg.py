"""CFG model over the plugin's export, generic forward dataflow, dominators,
branch-condition decomposition and a reusable non-null analysis."""
from .facts import expr_str, walk, call_args, member_call_object


class Block(object):
    __slots__ = ("id", "elems", "term", "tcond", "succs", "preds", "noret", "label")

    def __init__(self, bid):
        self.id = bid
        self.elems = []
        self.term = None
        self.tcond = None
        self.succs = []
        self.preds = []
        self.noret = False
        self.label = None


class CFG(object):
    def __init__(self, f):
        self.f = f
        raw = f.cfg_raw
        self.entry = raw["entry"]
        self.exit = raw["exit"]
        self.blocks = {}
        for b in raw["b"]:
            blk = Block(b["id"])
            blk.elems = []
            for i in b["e"]:
                e = f.node(i)
                if e is None:
                    continue
                if e["k"] == "DeclStmt":       # expose the declared variables as the elements
                    blk.elems.extend(v for v in e.get("c", []) if v is not None)
                else:
                    blk.elems.append(e)
            if "t" in b:
                blk.term = f.node(b["t"])
            if "tc" in b:
                blk.tcond = f.node(b["tc"])
            blk.noret = bool(b.get("noret"))
            # control does not continue after a noreturn call (abort, __assert_fail, exit)
            blk.succs = [] if blk.noret else list(b["s"])
            if "lbl" in b:
                blk.label = f.node(b["lbl"])
            self.blocks[blk.id] = blk
        for blk in self.blocks.values():
            for s in blk.succs:
                if s is not None and s in self.blocks:
                    self.blocks[s].preds.append(blk.id)
        self._rpo = None
        self._dom = None
        self._where = None

    # -- orderings
    def rpo(self):
        if self._rpo is None:
            seen, order = set(), []
            stack = [(self.entry, iter(self._succ_ids(self.entry)))]
            seen.add(self.entry)
            while stack:
                b, it = stack[-1]
                adv = False
                for s in it:
                    if s not in seen:
                        seen.add(s)
                        stack.append((s, iter(self._succ_ids(s))))
                        adv = True
                        break
                if not adv:
                    order.append(b)
                    stack.pop()
            self._rpo = list(reversed(order))
        return self._rpo

    def _succ_ids(self, b):
        return [s for s in self.blocks[b].succs if s is not None]

    def reachable(self):
        return set(self.rpo())

    def where(self, node):
        """(block id, index in block) of the CFG element for a tree node, or of
        its nearest ancestor that is an element."""
        if self._where is None:
            w = {}
            for b in self.blocks.values():
                for i, e in enumerate(b.elems):
                    w.setdefault(e["i"], (b.id, i))
            self._where = w
        n = node
        while n is not None:
            if n["i"] in self._where:
                return self._where[n["i"]]
            n = self.f.parent(n)
        return None

    # -- branch edges
    def branch(self, b):
        """For a two-way conditional block: (effective condition node, true succ, false succ)."""
        blk = self.blocks[b]
        if blk.tcond is None or len(blk.succs) != 2:
            return None
        t = blk.term
        if t is not None and t["k"] in ("SwitchStmt", "CXXTryStmt", "IndirectGotoStmt"):
            return None
        cond = blk.tcond
        return cond, blk.succs[0], blk.succs[1]

    def branch_conds(self, b):
        """Condition expressions whose truth value equals the direction of the branch out of block b.
        For `if (a && b)` clang either branches on the last operand directly (the block evaluates
        `b`; earlier operands were decided on earlier edges) or joins the value of the whole
        expression first.  The whole expression is always valid; in the direct form the last operand
        is valid too (all earlier operands are then known to be true for &&, false for ||)."""
        br = self.branch(b)
        if br is None:
            return []
        blk = self.blocks[b]
        cond, t = br[0], blk.term
        out = [cond]
        cur = cond
        ids = {e["i"] for e in blk.elems}
        while cur is not None and cur["k"] == "BinaryOperator" and cur.get("op") in ("&&", "||") \
                and (t is None or t["i"] != cur["i"]):
            last = cur["c"][1]
            inner = last
            while inner is not None and inner["k"] in ("CStyleCastExpr", "CXXStaticCastExpr", "CXXFunctionalCastExpr"):
                inner = inner["c"][0]
            if inner is None or inner["i"] not in ids:
                break
            out.append(last)
            cur = inner
        return out

    def edge_facts(self, f, b, idx, extra=None):
        facts = set()
        for c in self.branch_conds(b):
            facts |= cond_facts(f, c, idx == 0, extra)
        return facts

    # -- dominators (simple iterative)
    def dominators(self):
        if self._dom is None:
            rpo = self.rpo()
            allb = set(rpo)
            dom = {b: set(allb) for b in rpo}
            dom[self.entry] = {self.entry}
            changed = True
            while changed:
                changed = False
                for b in rpo:
                    if b == self.entry:
                        continue
                    ps = [p for p in self.blocks[b].preds if p in dom]
                    new = set(allb)
                    for p in ps:
                        new &= dom[p]
                    new.add(b)
                    if new != dom[b]:
                        dom[b] = new
                        changed = True
            self._dom = dom
        return self._dom


TOP = None  # "unvisited" marker for must-analyses


def forward(cfg, init, transfer_elem, edge=None, join=None, transfer_term=None):
    """Generic forward dataflow.
    state values are hashable (frozenset typically).  join defaults to set
    intersection (must analysis).  transfer_elem(state, node, block) -> state;
    edge(state, block, succ_index) -> state or TOP (edge infeasible).
    Returns (in_states, out_states) keyed by block id."""
    if join is None:
        join = lambda a, b: a & b
    ins = {b: TOP for b in cfg.blocks}
    outs = {b: TOP for b in cfg.blocks}
    ins[cfg.entry] = init
    rpo = cfg.rpo()
    pos = {b: i for i, b in enumerate(rpo)}
    work = set([cfg.entry])
    iters = 0
    while work:
        iters += 1
        if iters > 200000:
            raise RuntimeError("dataflow did not converge in %s" % cfg.f.sig)
        b = min(work, key=lambda x: pos.get(x, 1 << 30))
        work.discard(b)
        st = ins[b]
        if st is TOP:
            continue
        blk = cfg.blocks[b]
        for e in blk.elems:
            st = transfer_elem(st, e, blk)
        outs[b] = st
        for idx, s in enumerate(blk.succs):
            if s is None or s not in cfg.blocks:
                continue
            es = edge(st, blk, idx) if edge else st
            if es is TOP:
                continue
            old = ins[s]
            new = es if old is TOP else join(old, es)
            if old is TOP or new != old:
                ins[s] = new
                work.add(s)
    return ins, outs


def state_before(cfg, ins, transfer_elem, node):
    """State holding immediately before the CFG element that evaluates `node`."""
    w = cfg.where(node)
    if w is None:
        return TOP
    b, idx = w
    st = ins.get(b, TOP)
    if st is TOP:
        return TOP
    blk = cfg.blocks[b]
    for e in blk.elems[:idx]:
        st = transfer_elem(st, e, blk)
    return st


# --------------------------------------------------------------------------- enumerator constants through locals

class EnumConsts(object):
    """Reaching enumerators of local variables: state = frozenset of (decl id, enumerator name | '?').
    A VarDecl initialised with / an assignment of a plain enumerator gives the variable that value; any
    other write (other expression, |=, address taken, passed by non-const reference) gives '?'."""

    def __init__(self, f):
        self.f, self.cfg = f, f.cfg()
        self.ins = None

    def _enum_of(self, e):
        e = strip_casts(e)
        while e is not None and e["k"] in ("ImplicitCastExpr", "ParenExpr", "ExprWithCleanups"):
            e = strip_casts(e["c"][0]) if e.get("c") else None
        if e is not None and e["k"] == "DeclRefExpr" and (self.f.decl(e) or {}).get("k") == "EnumConstant":
            return self.f.decl(e)["n"]
        return "?"

    def transfer(self, st, n, blk):
        tgt = val = None
        if n["k"] == "VarDecl":
            tgt = n.get("d")
            val = self._enum_of(n["c"][0]) if n.get("c") and n["c"][0] is not None else "?"
        elif n["k"] == "BinaryOperator" and n.get("op", "").endswith("=") and n.get("op") not in ("==", "!=", "<=", ">="):
            l = strip_casts(n["c"][0])
            if l is not None and l["k"] == "DeclRefExpr":
                tgt = l.get("d")
                val = self._enum_of(n["c"][1]) if n.get("op") == "=" else "?"
        elif n["k"] == "CXXOperatorCallExpr" and n.get("op", "").endswith("=") and \
                n.get("op") not in ("==", "!=", "<=", ">=") and len(n["c"]) >= 2:
            l = strip_casts(n["c"][1])
            if l is not None and l["k"] == "DeclRefExpr":
                tgt, val = l.get("d"), "?"
        elif n["k"] == "UnaryOperator" and n.get("op") in ("&", "++", "--"):
            l = strip_casts(n["c"][0])
            if l is not None and l["k"] == "DeclRefExpr":
                tgt, val = l.get("d"), "?"
        if tgt is None:
            return st
        return frozenset(x for x in st if x[0] != tgt) | {(tgt, val)}

    def solve(self):
        self.ins, _ = forward(self.cfg, frozenset(), self.transfer, join=lambda a, b: a | b)
        return self

    def values(self, node):
        """set of enumerator names (or '?') the DeclRefExpr `node` (a local variable) may hold when evaluated"""
        if self.ins is None:
            self.solve()
        st = state_before(self.cfg, self.ins, self.transfer, node)
        if st is TOP:
            return {"?"}
        vals = {v for d, v in st if d == node.get("d")}
        return vals or {"?"}


# --------------------------------------------------------------------------- nullness

def strip_casts(n):
    while n is not None and n["k"] in ("CStyleCastExpr", "CXXStaticCastExpr", "CXXFunctionalCastExpr",
                                       "CXXConstCastExpr", "CXXReinterpretCastExpr"):
        n = n["c"][0] if n.get("c") else None
    return n


def is_null_literal(n):
    n = strip_casts(n)
    if n is None:
        return False
    if n["k"] in ("CXXNullPtrLiteralExpr", "GNUNullExpr"):
        return True
    if n["k"] == "IntegerLiteral" and n.get("v") == 0:
        return True
    # default-constructed smart pointer temporary:  x == foo_sptr()
    if n["k"] in ("CXXTemporaryObjectExpr", "CXXConstructExpr") and not n.get("c"):
        return True
    return False


def ptr_key(f, n):
    """Key naming the pointer-like value an expression denotes, or None."""
    n = strip_casts(n)
    if n is None:
        return None
    k = n["k"]
    if k in ("DeclRefExpr", "MemberExpr"):
        return expr_str(f, n)
    if k == "CXXMemberCallExpr":
        d = f.decl(n)
        if d is not None and d["n"] == "get" and not call_args(n):
            return ptr_key(f, member_call_object(n))      # sp.get()  ~ sp
        if d is not None and not call_args(n):
            return expr_str(f, n)                         # zero-arg getter
        return None
    if k in ("CXXConstructExpr",) and len(n.get("c", [])) == 1:
        return ptr_key(f, n["c"][0])                      # copy of a smart pointer
    if k == "CXXOperatorCallExpr" and n.get("op") == "=" and len(n.get("c", [])) == 3:
        return ptr_key(f, n["c"][1])                      # (x = e) denotes x
    if k == "BinaryOperator" and n.get("op") == "=":
        return ptr_key(f, n["c"][0])
    if k == "CallExpr" and not call_args(n):
        return expr_str(f, n)
    if k == "CallExpr":
        d = f.decl(n)
        # the repo's is_xxx(p) helpers are pure dynamic-cast wrappers: same argument, same result
        if d is not None and d["n"].startswith("is_") and all(ptr_key(f, a) or pure_expr(f, a) for a in call_args(n)):
            return expr_str(f, n)
    return None


def pure_expr(f, n, depth=0):
    """expression built only from variables, literals, const getters and subscripts"""
    n = strip_casts(n)
    if n is None:
        return True
    if depth > 6:
        return False
    k = n["k"]
    c = n.get("c", [])
    if k in ("DeclRefExpr", "IntegerLiteral", "StringLiteral", "CXXThisExpr", "CXXBoolLiteralExpr"):
        return True
    if k == "MemberExpr":
        return all(pure_expr(f, x, depth + 1) for x in c)
    if k == "CXXMemberCallExpr":
        d = f.decl(n)
        return d is not None and (bool(d.get("const")) or d["n"].startswith(("get_", "is_", "has_"))) \
            and all(pure_expr(f, x, depth + 1) for x in c)
    if k == "CXXOperatorCallExpr" and n.get("op") in ("->", "*", "[]"):
        return all(pure_expr(f, x, depth + 1) for x in c[1:])
    if k in ("CXXConstructExpr",) and len(c) == 1:
        return pure_expr(f, c[0], depth + 1)
    return False


def cond_facts(f, cond, truth, extra=None):
    """Facts implied when `cond` evaluates to `truth`:
    set of ('nn', key) / ('null', key) / whatever `extra(f, cond, truth)` adds."""
    out = set()
    if cond is None:
        return out
    n = strip_casts(cond)
    k = n["k"]
    c = n.get("c", [])
    if extra:
        out |= set(extra(f, n, truth) or ())
    if k == "DeclRefExpr":
        init = bool_local_init(f, n)
        if init is not None:
            return out | cond_facts(f, init, truth, extra)
    if k == "UnaryOperator" and n.get("op") == "!":
        return out | cond_facts(f, c[0], not truth, extra)
    if k == "CXXOperatorCallExpr" and n.get("op") == "!" and len(c) == 2:
        return out | cond_facts(f, c[1], not truth, extra)
    if k == "BinaryOperator" and n.get("op") == "&&":
        if truth:
            return out | cond_facts(f, c[0], True, extra) | cond_facts(f, c[1], True, extra)
        return out
    if k == "BinaryOperator" and n.get("op") == "||":
        if not truth:
            return out | cond_facts(f, c[0], False, extra) | cond_facts(f, c[1], False, extra)
        return out
    # operator bool of a smart pointer
    if k == "CXXMemberCallExpr":
        d = f.decl(n)
        if d is not None and d["n"].startswith("operator bool"):
            key = ptr_key(f, member_call_object(n))
            if key:
                out.add(("nn" if truth else "null", key))
            return out
    # `!!a != !!b` / `!!a == !!b`: both pointers are null or both are non-null
    if k == "BinaryOperator" and n.get("op") in ("==", "!=") and len(c) == 2:
        ka, kb = _double_neg_key(f, c[0]), _double_neg_key(f, c[1])
        if ka and kb:
            if (n["op"] == "==") == truth:
                out.add(("samenull", ka + "\x00" + kb))
            return out
    # comparisons with null
    op = n.get("op")
    if k == "BinaryOperator" and op in ("==", "!="):
        a, b = c
    elif k == "CXXOperatorCallExpr" and op in ("==", "!=") and len(c) == 3:
        a, b = c[1], c[2]
    else:
        a = b = None
    if a is not None:
        other = None
        if is_null_literal(b):
            other = a
        elif is_null_literal(a):
            other = b
        if other is not None:
            key = ptr_key(f, other)
            if key:
                nonnull = (op == "!=") == truth
                out.add(("nn" if nonnull else "null", key))
        else:
            # two pointers known to differ: together with "both null or both non-null" this means both non-null
            ta, tb = f.type(strip_casts(a)), f.type(strip_casts(b))
            ptrish = lambda t: t is not None and (t.get("ptr") or "shared_ptr" in (t.get("c") or ""))
            if ptrish(ta) and ptrish(tb) and (op == "!=") == truth:
                ka, kb = ptr_key(f, a), ptr_key(f, b)
                if ka and kb:
                    out.add(("ne", ka + "\x00" + kb))
        return out
    # plain pointer / condition variable / bool-convertible value
    t = f.type(n)
    if t is not None and (t.get("ptr") or "shared_ptr" in t["c"] or "unique_ptr" in t["c"]):
        key = ptr_key(f, n)
        if key:
            out.add(("nn" if truth else "null", key))
    return out


def bool_local_init(f, ref):
    """init expression of a local `bool` that is declared with an initialiser and never assigned
    afterwards (the `bool __abg_cond__ = bool(cond)` of ABG_ASSERT, `bool ok = p && q;`)"""
    d = f.decl(ref)
    if d is None or d["k"] != "Var" or d.get("st") != "local":
        return None
    t = f.unit.type(d.get("t"))
    if t is None or t["c"] not in ("bool", "const bool"):
        return None
    cache = getattr(f, "_boolinit", None)
    if cache is None:
        cache = {}
        assigned = set()
        for x in f.nodes():
            if x["k"] == "VarDecl" and x.get("c") and x["c"][0] is not None:
                cache[x.get("d")] = x["c"][0]
            elif x["k"] in ("BinaryOperator", "CompoundAssignOperator") and x.get("op", "").endswith("=") \
                    and x.get("op") not in ("==", "!=", "<=", ">="):
                l = strip_casts(x["c"][0])
                if l is not None and l["k"] == "DeclRefExpr":
                    assigned.add(l.get("d"))
            elif x["k"] == "UnaryOperator" and x.get("op") in ("++", "--", "&"):
                l = strip_casts(x["c"][0])
                if l is not None and l["k"] == "DeclRefExpr":
                    assigned.add(l.get("d"))
        for a in assigned:
            cache.pop(a, None)
        f._boolinit = cache
    return cache.get(ref.get("d"))


def _double_neg_key(f, n):
    n = strip_casts(n)
    for _ in range(2):
        if n is None or not (n["k"] in ("UnaryOperator", "CXXOperatorCallExpr") and n.get("op") == "!"):
            return None
        n = strip_casts(n["c"][-1])
    if n is not None and n["k"] == "CXXMemberCallExpr" and (f.decl(n) or {}).get("n", "").startswith("operator bool"):
        return ptr_key(f, member_call_object(n))
    t = f.type(n) if n is not None else None
    if t is not None and (t.get("ptr") or "shared_ptr" in t["c"]):
        return ptr_key(f, n)
    return None


def close_samenull(st):
    """propagate non-null / null facts across ('samenull', a, b) pairs"""
    pairs = [x[1].split("\x00") for x in st if x[0] == "samenull"]
    if not pairs:
        return st
    out = set(st)
    differ = {frozenset(x[1].split("\x00")) for x in st if x[0] == "ne"}
    for a, b in pairs:
        if frozenset((a, b)) in differ:          # not both null (they would be equal), hence both non-null
            out.add(("nn", a))
            out.add(("nn", b))
    changed = True
    while changed:
        changed = False
        for a, b in pairs:
            for x, y in ((a, b), (b, a)):
                for kind in ("nn", "null"):
                    if (kind, x) in out and (kind, y) not in out:
                        out.add((kind, y))
                        changed = True
    return frozenset(out)


def assigned_key(f, n):
    """If element n (re)defines a pointer-like lvalue, return its key."""
    k = n["k"]
    c = n.get("c", [])
    if k in ("BinaryOperator", "CompoundAssignOperator") and n.get("op", "").endswith("=") \
            and n.get("op") not in ("==", "!=", "<=", ">="):
        return ptr_key(f, c[0])
    if k == "CXXOperatorCallExpr" and n.get("op") in ("=", "+=", "-=") and len(c) >= 2:
        return ptr_key(f, c[1])
    if k == "UnaryOperator" and n.get("op") in ("++", "--"):
        return ptr_key(f, c[0])
    if k == "CXXOperatorCallExpr" and n.get("op") in ("++", "--") and len(c) >= 2:
        return ptr_key(f, c[1])
    if k == "CXXMemberCallExpr":
        d = f.decl(n)
        if d is not None and d["n"] in ("reset", "swap", "clear"):
            return ptr_key(f, member_call_object(n))
    if k == "VarDecl":
        d = f.decl(n)
        return d["n"] if d else None
    return None


def definitely_nonnull(f, e):
    e = strip_casts(e)
    while e is not None and e["k"] in ("CXXConstructExpr", "CXXBindTemporaryExpr") and len(e.get("c", [])) == 1:
        e = strip_casts(e["c"][0])
    if e is None:
        return False
    if e["k"] == "CXXNewExpr":
        return True
    if e["k"] == "UnaryOperator" and e.get("op") == "&":
        return True
    if e["k"] == "CallExpr" and (f.decl(e) or {}).get("n") in ("make_shared",):
        return True
    return False


def kill(state, key):
    if key is None:
        return state
    pref1, pref2 = key + "->", key + "."
    def hit(k):
        return k == key or k.startswith(pref1) or k.startswith(pref2)
    return frozenset(x for x in state if not any(hit(k) for k in x[1].split("\x00")))


class NullFlow(object):
    """Must-nonnull facts.  `gen(f, node)` may return facts established by an
    element (e.g. an assertion, or an assignment from a never-null producer)."""

    def __init__(self, f, gen=None, extra_cond=None):
        self.f = f
        self.cfg = f.cfg()
        self.gen = gen
        self.extra_cond = extra_cond
        self.ins = None

    def transfer(self, st, n, blk):
        key = assigned_key(self.f, n)
        if key is not None:
            # x = E where E is already known non-null (check-then-recompute idiom)
            rhs = None
            if n["k"] == "VarDecl" and n.get("c"):
                rhs = n["c"][0]
            elif n["k"] == "BinaryOperator" and n.get("op") == "=":
                rhs = n["c"][1]
            elif n["k"] == "CXXOperatorCallExpr" and n.get("op") == "=" and len(n["c"]) == 3:
                rhs = n["c"][2]
            rk = ptr_key(self.f, rhs) if rhs is not None else None
            keep = rk is not None and rk != key and ("nn", rk) in st
            if n["k"] == "CXXMemberCallExpr" and call_args(n):      # x.reset(new T)
                rhs = call_args(n)[0]
            if rhs is not None and definitely_nonnull(self.f, rhs):
                keep = True
            st = kill(st, key)
            if keep:
                st = st | frozenset([("nn", key)])
        if self.gen:
            g = self.gen(self.f, n)
            if g:
                st = st | frozenset(g)
        return st

    def edge(self, st, blk, idx):
        if self.cfg.branch(blk.id) is None:
            return st
        facts = self.cfg.edge_facts(self.f, blk.id, idx, self.extra_cond)
        if not facts:
            return st
        # contradiction => infeasible edge
        for fact in facts:
            kind, key = fact
            if kind == "nn" and ("null", key) in st:
                return TOP
            if kind == "null" and ("nn", key) in st:
                return TOP
        return close_samenull(st | frozenset(facts))

    def solve(self):
        if self.cfg is None:
            return self
        self.ins, self.outs = forward(self.cfg, frozenset(), self.transfer, self.edge)
        return self

    def before(self, node):
        if self.cfg is None:
            return TOP
        return state_before(self.cfg, self.ins, self.transfer, node)
