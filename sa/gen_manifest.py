#!/usr/bin/env python3
"""Regenerates /verif/MANIFEST.json from the claim table below (kept in one place so
that the manifest, the not_applicable list and the rule modules cannot drift apart)."""
import json
import os

VERIF = os.path.dirname(os.path.dirname(os.path.abspath(__file__)))

# property -> (technique, clause decided, trusted base / what is not decided, DESIGN ref)
CLAIMS = {
    "C38": ("AST rule over every instantiation of the diff_utils templates reachable (call graph) from compute_diff",
            "inside the Myers implementation no == / != is applied to a sequence element; all element comparisons "
            "are calls of the caller's equality functor; the raw-== helpers stay unreachable from compute_diff; "
            "R-TRACELCS: every branch of the dispatch on d copies the middle snake's points into the lcs (the d == 1 "
            "branch does not: recorded, replayed finding); R-WINDOW: a window narrowed from both ends by two counters "
            "cannot invert; R-EQFORWARD: in the template definitions themselves (instantiated by libabigail or not) "
            "every call between diff_utils templates names the caller's predicate parameter explicitly, so no overload "
            "silently falls back to default_eq_functor",
            "correctness and minimality of the edit script",
            "§3 R-EQFUNCTOR; §4 C38"),
    "C40": ("def-use analysis of the HASH_TYPE_ID_STYLE arm of write_context::get_id_for_type",
            "a hash-style id is the formatted fnv_hash of the type's internal pretty representation, only "
            "incremented while probing a per-writer member set; no counter, address or static state flows into it; "
            "R-IDUNIQ: the value formatted into the id was successfully inserted into that set on every path; "
            "R-INTERNALFLAG: every nested name computation reachable while an internal name is built in abg-ir.cc is itself "
            "asked for the internal flavour (no numbered anonymous name inside an internal name)",
            "ids of colliding types depend on emission order (the property's own proviso)",
            "§3 R-HASHID; §4 C40"),
    "C42": ("compile-fail witnesses (type-level encoding: private constructor + friend) and AST shape obligations on "
            "interned_string / interned_string_pool",
            "only interned_string_pool can mint a representative; create_string consults one content-keyed container, "
            "never hands out a null representative for a non-empty content and never overwrites an existing one (path "
            "exploration with null / empty / fresh-key facts), the empty string keeps the null representative; identity "
            "comparison and hashing use the representative's address",
            "orderings of string multisets are std::string behaviour; strings of different pools are out of scope",
            "§3 R-INTERN; §4 C42"),
    "C34": ("non-null dataflow over libelf accessor results, buffer-pointer derivation from Elf_Data::d_buf with a "
            "dominating-size-test rule, guarded-division rule for sh_entsize, assertion classification",
            "in the ELF symbol readers (hash-table lookups, symtab loader, version and dynamic-section readers): "
            "libelf results that fail on corrupted sections are checked before use, reads through section-data "
            "pointers are preceded by a size test, divisions by sh_entsize are guarded and no assertion depends on "
            "file contents (the 15 sites found were repaired one by one); reads are bounded per pointer by the size of "
            "the very section they point into (provenance); R-ELFALLOC: no allocation is sized from an unvalidated "
            "section-header count; R-LOOPPROG (termination): no loop reachable from the readers relies for its progress on a "
            "callee that may decline to write its out-parameter while the result of the call is discarded (one site "
            "found - abidw hung on a `../` .gnu_debugaltlink - and repaired); R-ELFBOUND/WRAP: a size test over a sum of "
            "file-derived counts is evaluated in a type wider than the counts, or written so that nothing can wrap; "
            "std::string built from a nullable libelf string is a dereference (R-ELFNULL); R-SCNINDEX: the result of "
            "elf_getscn() for an index that is a word of the file (flow-sensitive provenance through locals, parameters "
            "and reference out-parameters) is tested, never asserted; R-HANDLEARG: a null elfutils handle never reaches a "
            "parameter the callee asserts; R-LINKWALK: a loop that follows links stored in section data has a counter of "
            "its own; R-DEVM/*: the DWARF location-expression evaluator asserts nothing but its loop invariant, reads the "
            "top of its stack only through total accessors or under a depth test, uses a value as a constant only after "
            "is_const(), and tests every divisor (22 crashes / hangs of the base tree on one-word corruptions were found "
            "by these rules or by reading, replayed and repaired)",
            "elfutils' own memory safety; the DWARF part of the reader other than the expression evaluator; ppc64-only "
            "paths are listed as undecided",
            "§3 R-ELFNULL, R-ELFBOUND, R-INASSERT; §4 C34"),
    "C43": ("finite-world interpretation of every accessor that switches over die_source, reaching-enumerator dataflow over "
            "the unit walks, and a guard rule at the classification site of type units",
            "type-unit clause only: DIEs of the three debug-info sources are kept in distinct containers (R-DIESRC), each "
            "section is walked under its own source tag with the matching libdw handle and offdie function (R-UNITSRC), "
            "and a unit is filed under the .debug_types source only after its DWARF version was looked at (R-TUSECTION: "
            "today it is not - DWARF 5 type units are lost, a recorded and replayed finding); R-MEMBERTAG: the class and union "
            "builders treat DW_TAG_member and DW_TAG_variable children alike (DWARF 4 vs 5 spelling of static members)",
            "the DWARF contents themselves (forms, DWARF 4 vs 5 attribute encodings, column information) are decoded by "
            "elfutils and interpreted at run time",
            "§8.6 (added after the design: C43 was first declared not applicable)"),
    "C35": ("member-initialisation rule over every constructor reachable from a main (constructor initialisers from the "
            "AST, call graph liveness) and a CFG rule over every value-returning function",
            "two kinds of undefined behaviour that do not depend on the input: no reachable constructor leaves a scalar data "
            "member uninitialised (R-MEMBERINIT, ~400 pairs), no value-returning function has a reachable path that flows off "
            "its end (R-RETFALL, ~3000 functions)",
            "invalid memory accesses, use-after-free and all value-dependent undefined behaviour: sanitizers on generated "
            "programs are the dynamic technique the property describes and are not replaced",
            "§8.6 (added after the design: C35 was first declared not applicable)"),
    "C14": ("type-directed loop classification (address-dependent containers from canonical template arguments) and "
            "pointer-comparison lint over every comparator handed to std::sort and the ordering helpers it delegates to",
            "loops over pointer-keyed / interned_string-keyed unordered containers and pointer-ordered sets never "
            "emit and only fill associative containers or vectors that are sorted afterwards; no sort comparator "
            "orders by address; R-TIEBREAK: comparators over decl_base / type_base do not fall back on a bare name "
            "(a type and its typedef would tie and let the hash order through); R-MEMBERINIT: every scalar data member "
            "is initialised by every user-provided constructor reachable from a tool's main",
            "loop bodies calling arbitrary side-effecting functions are not classified; uninitialised locals / heap "
            "buffers and elfutils nondeterminism are not decided",
            "§3 R-UNORD, R-PTRCMP; §4 C14"),
    "C31": ("whole-program call-graph reachability (CHA) from every task perform() / completion notifier + effect "
            "classification of every reference to a mutable variable of static storage duration, of writes to the "
            "shared options object and of MT-unsafe libc calls",
            "code reachable from a worker task modifies no mutable static (three listed exceptions), never writes the "
            "shared options object, and calls only triaged MT-unsafe libc functions",
            "races through heap objects shared by two tasks; statics inside libstdc++/libxml2/elfutils",
            "§3 R-SHARED, R-LIBCMT; §4 C31"),
    "C06": ("whole-program call-graph reachability (CHA) from equality / hashing / canonicalisation / diffing entry "
            "points + use classification of every source-location value inside the closure",
            "in everything reachable from equals, operator==, the hash functors, canonicalisation and compute_diff a "
            "source location is only copied, never compared, branched on, ordered or hashed (one listed kernel-only "
            "exception): shifting lines or moving a definition between files cannot change equality or the diff; "
            "R-LOOPMEMO: nothing computed for one element of a loop is reused for the next through a never-reset flag; "
            "R-NOPARMNAME: equality of function parameters reads nothing that carries the parameter's name; R-DECLORDER: "
            "no lock-step walk of the class comparisons is over a member sequence kept in declaration order (table of "
            "four accessors with reasons)",
            "other neutral edits (TU layout, DIE de-duplication) are runtime",
            "§3 R-NOLOC; §4 C06"),
    "C12": ("non-interference by whole-program call-graph reachability (CHA) with a positive control",
            "no function reachable from the verdict entry points (compute_diff, has_*changes, filtering, "
            "suppression, stats) reads a presentation flag; corpus path / architecture are read there only by "
            "suppression matching - and there its value flows only into matches_binary_name (value-flow rule through "
            "locals and helper parameters) -, a diagnostic string and the architecture equality itself",
            "CHA over-approximates virtual dispatch; unresolved indirect calls in the closure are listed in the evidence",
            "§3 R-PRESENT; §4 C12"),
    "C27": ("AST rules on the pattern generator: insertion-chain operands, literal value of the metacharacter set, "
            "control dependence of the backslash insertion (two recognised copy idioms, analysis-broken otherwise), "
            "def-use of the generated pattern; sibling agreement of all option branches of the tools' "
            "parse_command_line (operand arity); correlated-branch must-pass-through in abidiff",
            "every whitelisted name reaches the generated pattern only through regex::escape, the escaped set covers "
            "every POSIX ERE metacharacter, the pattern is anchored, and the whitelist suppressions take their regex "
            "only from generate_from_strings; R-OPTARITY: every option that reads an operand consumes it (abidiff "
            "--keep-fn/--keep-var did not: repaired); R-KEEPDROP: keep/drop patterns stored into a corpus are applied "
            "to its exported sets on every path (abidiff never did: repaired); R-WLONCE: the generator of whitelist "
            "suppressions is called once, with all the whitelist files (one call per file would intersect the lists)",
            "which declarations the compiled pattern then keeps or drops (runtime); user --keep/--drop patterns are "
            "compiled unmodified by design",
            "§3 R-RXESC; §4 C27"),
    "C01": ("sibling-agreement rule: multisets of configuration events (context creation, options, suppressions, "
            "loader calls, post-load adjustments) per operand, attributed by operand name or enclosing region (AST)",
            "in abidiff, abipkgdiff, abicompat and kmidiff the two operands of a comparison are read under the same "
            "configuration (same-configuration clause of self-comparison); R-QNREFRESH: qualified names cached below a "
            "renamed decl are refreshed by full traversal only (a binary and its ABIXML get the same names); R-ATTRWIDTH: "
            "the ABIXML reader parses numeric attributes with conversions at least as wide as the variables that "
            "receive them (a binary and its own ABIXML agree on sizes of 2^31 bits and more)",
            "that identical loads give identical IR and that identical IR compares clean (reflexivity of equals / "
            "canonicalisation on cyclic graphs) is runtime",
            "§3 R-TWINLOAD; §4 C01"),
    "C19": ("sibling-agreement (contradiction) rule over ordered symbol-lookup event sequences of the four regions of "
            "ensure_lookup_tables_populated",
            "function symbols and variable symbols get the same re-lookup treatment (still-present => not removed; "
            "default-version re-export rule) in the declared and in the unreferenced-symbol regions; R-VERLOOKUP: the "
            "lookup behind both answers only with the requested version; R-SYMDIFF: deletions index the first corpus and are "
            "reported exactly when the symbol is not found in the second, insertions the other way round (worlds found / "
            "not found over both unreferenced-symbol regions); a deleted symbol is only looked up by name and version (the "
            "re-export rule belongs to the addition half) and no added symbol is looked up by name alone; helpers that are "
            "handed a corpus are followed",
            "the edit scripts over the runtime symbol sets (diff_utils)",
            "§3 R-SIBSYM; §4 C19"),
    "C28": ("who-gates rule: every is_linux_kernel() value that selects ksymtab filtering is conjoined with, or "
            "data-dependent (through parameters, all call sites) on, load_in_linux_kernel_mode",
            "no ksymtab-based restriction of the interface is applied when the kernel mode option is off; "
            "R-KSYMAPPLY: in symtab::load_ the loop that applies the collected __ksymtab_ names lies on every path to "
            "`return true` (must-pass-through) and every set_is_in_ksymtab(true) is control-dependent on membership in "
            "the collected set; R-KFILTER: the symtab's default filter demands ksymtab membership exactly for kernel binaries "
            "and such a filter keeps a symbol iff it is public and in the ksymtab (worlds over is_kernel_binary_ / "
            "is_in_ksymtab / is_public)",
            "which symbols carry a ksymtab marker (runtime data)",
            "§3 R-KMODE; §4 C28"),
    "C05": ("constant evaluation of the category masks + categoriser tables (AST) and exit-status abstract "
            "interpretation of abidiff with the verdict predicates as symbolic atoms",
            "a category the harmful categoriser assigns is never in the default-off mask; on every path of abidiff's "
            "main where has_net_changes()/has_incompatible_changes() hold the exit value carries CHANGE/INCOMPATIBLE; "
            "the removal counters are disjuncts of has_incompatible_changes; R-VERLOOKUP: the symbol re-lookup that "
            "can cancel a removal returns a symbol only for the requested version (or when none was requested)",
            "that a given source edit produces a diff node with the harmful category (diff engine, runtime)",
            "§3 R-CATPART, R-STATUS; §4 C05"),
    "C07": ("constant evaluation of enum masks, categoriser -> mask table agreement, option-guard extraction (AST)",
            "harmless and harmful masks are disjoint and cover every category with the three special ones; each "
            "category a categoriser assigns lies in its mask and vice versa; is_filtered_out consults only the "
            "allowed mask; the masks are switched off exactly under !--harmless / --no-harmful; R-PEELTOTAL: no "
            "categoriser obtains `the type without its qualifiers` by one get_underlying_type() step (qualifiers nest); "
            "R-REDUNDUP: in the world where every changed child of a node without local change is not to be reported, "
            "the redundancy pass marks the node redundant on every path (the interfaces above a harmless change "
            "disappear with it)",
            "which category a particular change receives (runtime)",
            "§3 R-CATPART, R-OPTWIRE; §4 C07"),
    "C10": ("table extraction (net counter -> counters -> containers fed, section loop -> skip predicate -> "
            "suppressed set) and ordering checks over the reporters' AST",
            "each net counter is num - filtered of one container and its suppressed twin; each section skips through "
            "the predicate that looks up that very set; the summary precedes every section and is not gated by --stat; "
            "R-CATORDER: counters of filtered-out changes are computed after every category-writing pass; R-OPTGATE as "
            "for C08",
            "arithmetic on the actual counts is runtime; it follows from same-container/same-filter",
            "§3 R-NETPAIR, R-SECTION, R-STATFIRST; §4 C10"),
    "C23": ("must-pass-through dataflow (change_kind test before any non-false return) + application-table "
            "extraction from the twelve suppression loops",
            "the four change_kind predicates cannot answer true without testing the kind of change; every application "
            "loop passes the kind (also when it travels through a local: reaching-enumerator dataflow) and stores into "
            "the suppressed set that belong to the container it iterates; R-BINGATE as for C22",
            "name / regex matching of the suppression against the interface is runtime",
            "§3 R-CHGKIND; §4 C23"),
    "C02": ("table extraction from the AST (string literals, switch / if-chain enum tables) and set / inverse-table "
            "comparison between writer and reader",
            "every element / attribute name the writer emits is asked for by the reader and vice versa; every "
            "enum->string switch of the writer is inverted by the reader's string->enum chain (collapses listed); the "
            "element kinds that may omit size-in-bits are exactly those the reader defaults to the address size; "
            "R-IDUNIQ: a hash-style type id is inserted into the used-hash set before it is handed out; R-ATTRWIDTH: "
            "numeric attributes are parsed with the width they are stored with (five reasoned exceptions)",
            "that attribute values are computed and re-interpreted consistently (sizes, offsets, ids) is runtime; the "
            "comparison is global over names, not per element",
            "§3 R-VOCAB, R-ENUMTAB, R-DEFSZ; §4 C02"),
    "C03": ("typestate dataflow on temp_file (written -> flushed before get_path is handed out) + the C02 vocabulary "
            "tables",
            "the temporary document of abilint --diff / abidw --abidiff is flushed on every path before it is re-read "
            "by path; no writer-only name exists (it could not survive read+write); R-ALIASFIFO: elf_symbol::add_alias "
            "appends (the reader re-adds aliases in the order the writer lists them); R-SETKEY: the cached key that "
            "orders the translation units of a corpus (std::set comparator -> get_absolute_path -> abs_path_) is "
            "written by its getter only, so the order of the <abi-instr> elements is the same however the unit was "
            "completed",
            "byte equality of the re-emitted document (ordering, ids) is runtime; iteration order is decided under C14",
            "§3 R-FLUSH, R-VOCAB; §4 C03"),
    "C36": ("AST/CFG rules: return-value provenance of the writer entry points, discarded-result check and "
            "must-pass-through (flush then stream test) path exploration at every call site in abidw/abilint",
            "the writer entry points return the state of the stream; abidw and abilint never discard that result and "
            "every path to a success exit flushes/closes the stream and then tests it (helpers that flush-and-test "
            "their stream parameter are summarised from their own CFG; a std::ofstream the function owns must be "
            "close()d, not only flushed, before the test)",
            "that libstdc++ reports a failed write(2) through the stream state after flush/close",
            "§3 R-WRITERES; §4 C36"),
    "C33": ("non-null dataflow with a nullable-producer table (reader + tools' ABIXML read paths), size-fact dataflow "
            "for constant subscripts, assertion classification by a one-step input slice with dominating-check "
            "recognition",
            "in the ABIXML reader and the tools that call it: nullable results are checked before every dereference, "
            "constant subscripts are size-guarded, and every assertion / abort that depends on document content "
            "without a dominating check is either absent or a recorded, replayed finding (29 today, six of them replayed with hand-written template / class elements in batch 11); R-VFNCLASS: "
            "virtual-ness is only set on methods whose scope has static type class_decl_sptr (typed provenance through "
            "helpers); R-FILTERSYM: in the categorisation filters (abg-comp-filter.cc) a function's or variable's ELF "
            "symbol - null for a declaration without symbol - is tested before it is dereferenced; "
            "read_context::get_corpus() is a nullable producer (a bare <abi-instr> document is read without a corpus; "
            "setter / getter pairs are understood); R-TYPECYCLE: a builder of a referencable type registers what it "
            "builds before it resolves the type ids the element refers to (five builders do not: recorded, replayed "
            "findings - a self-referencing type-id exhausts the stack)",
            "general memory safety beyond these three fault classes; nine assertion sites are listed as undecided "
            "(sa/tables/c33_tables.json)",
            "§3 R-NULLABLE, R-IDX, R-INASSERT; §4 C33"),
    "C24": ("non-null dataflow over the CFG at every regex::match call (with container invariants) + must-pass-through "
            "gate rule in the suppression parser + vocabulary table (property names vs validator suffix)",
            "no null compiled regex reaches regex::match; every section reader is dominated by the validator that "
            "rejects a section with an uncompilable *_regexp; all regex-carrying property names end in that suffix (or "
            "are in the validator's name table, if it is written that way); "
            "parameter '/regex/ specs are compiled before acceptance; R-MEMOKEY: a result memoised in a suppression "
            "object never depends on a parameter that is not part of the cache key",
            "insertion-range arithmetic (has_data_member_inserted_*) and name matching itself are runtime",
            "§3 R-RXNULL, R-RXPRES (now R-RXVALID); §4 C24"),
    "C25": ("non-null dataflow (nullable-producer table, check-then-recompute and ABG_ASSERT idioms), class-invariant "
            "rule over constructors/stores, size-fact dataflow for constant subscripts, assertion classification",
            "no null regex reaches regex::match; results of the INI parser's nullable producers are checked before "
            "every dereference; every property object always holds a value; constant subscripts / front / back are "
            "dominated by a size fact (also through helpers that are a bare back()/front() of their argument); no "
            "assertion on a nullable producer result without a dominating check; INV-FNCALLEXPR: an insertion-range "
            "boundary never wraps a null function call expression; R-SYMOWN: a suppressed ELF symbol is owned by the "
            "symtab before it is linked into an alias ring; R-PARSEPROG: a parse loop of the INI reader whose "
            "sub-parsers decline passes a consumer or leaves (no hang on a malformed tuple); R-READCONTRACT / R-READPRE: "
            "abstract execution of the reader's stream primitives over (put-back buffer, stream) states shows that "
            "read_next_char() succeeds whenever good() held after peek(), and every asserted read_next_char() is "
            "preceded by that test",
            "memory errors and hangs outside these classes (the library model of std::istream / std::vector used by "
            "R-READCONTRACT is assumed)",
            "§3 R-RXNULL, R-NULLABLE, R-IDX, R-INASSERT; §4 C25; §8.6 C25"),
    "C32": ("lockset / typestate dataflow over the CFGs of abg-workers.cc (must/may held sets), path exploration with "
            "correlated-branch pruning, waiter/mutation table derived from the loop conditions",
            "lock/unlock pairing on all paths, every guarded field accessed under its mutex (a std::atomic field may be "
            "read lock-free outside a wait predicate, never written), every cond_wait in a "
            "re-testing loop under the right mutex, every mutation that can release a waiter followed by the right "
            "signal/broadcast (no lost wake-up), tasks popped in one critical section, performed outside locks, "
            "recorded and notified exactly once under tasks_done_mutex, all workers joined",
            "termination for all interleavings (liveness of the whole protocol) - a model-checking question",
            "§3 R-LOCKSET family; §4 C32"),
    "C04": ("interprocedural taint rule over ostream insertions (sanitiser discipline) + CFG must-pass-through pairing "
            "of id references with record calls",
            "no string read from the IR reaches the XML stream without the sanitiser of its context (attribute / "
            "comment), the sanitiser covers < > & ' \", and every type-id written as a reference is followed on every "
            "path by record_type_as_referenced - before or after, directly or through an id helper that is summarised "
            "from its CFG - (definitions by record_*_as_emitted); R-IDUNIQ: hash-style ids are registered as used; "
            "R-ESC/SIGN: the sanitisers never use a plain (signed) char numerically - a non-ASCII byte is negative",
            "that elf-symbol-id references name symbols present in the symbol tables (runtime set relation); control "
            "characters are a recorded finding",
            "§3 R-ESC, R-IDREF; §4 C04"),
    "C08": ("exit-status abstract interpretation over the CFGs of the three tools (powerset-of-worlds domain, "
            "interprocedural summaries) + sibling-agreement of counter atoms (AST)",
            "every value that can reach the exit status of abidiff/abicompat/abipkgdiff uses only documented bits with "
            "INCOMPATIBLE=>CHANGE and USAGE=>ERROR (lemmas L1/L1' read off the verdict predicates), and each reporter's "
            "net-change predicate tests exactly the counters emit_diff_stats prints on its branch; R-OPTGATE: every "
            "report section and the filtered-out counter behind the verdict depend on the same show_* options",
            "that the counters themselves are computed correctly at run time; L1 for the leaf reporter's virtual-offset "
            "disjunct is an assumption (sa/tables/atoms_exceptions.json)",
            "§3 R-STATUS, R-ATOMS; §4 C08"),
    "C09": ("exit-status abstract interpretation with null-edge predicates (tools) + must-pass-through dataflow (reader)",
            "with a failed load (null corpus / group) abidiff and abicompat can only exit with the ERROR bit; "
            "read_corpus_from_elf never pairs a null corpus with STATUS_OK; the ABIXML entry points return non-null "
            "only after a null-checked full expansion of the root element; R-XMLSRC: documents come from libxml2's "
            "pull reader (or from a push parser that is terminated unconditionally before its result is read); R-SYMSRC: "
            "a binary whose own symbol table cannot be loaded is not silently given the one of its debug-info file; "
            "R-HANDLEARG: a file elfutils cannot open (null handle) reaches the status, not an assertion",
            "that libxml2 / elfutils fail on every corruption",
            "§3 R-LOADFAIL, R-EXPAND; §4 C09"),
    "C30": ("exit-status abstract interpretation of abipkgdiff (kill rule, field-wise accumulation, marker predicate) "
            "+ aliased in/out argument rule (CFG may-analysis of the path helpers abipkgdiff calls in place)",
            "no accumulated status bit is discarded in abipkgdiff: task results and removed-binary bits are OR-ed on "
            "every path; paths that record a removed binary return CHANGE|INCOMPATIBLE; the helpers that compute the "
            "package-content map keys in place (dir_name(key, key), real_path(p, p) ...) never read their input after "
            "writing their output",
            "per-binary agreement with abidiff and the matching of binaries are runtime",
            "§3 R-STATUS S5, R-ACCUM; §4 C30"),
    "C11": ("sibling (mirror) agreement between the deletion half and the addition half of each region of "
            "corpus_diff::priv::ensure_lookup_tables_populated: ordered symbol-lookup / version events from the AST, "
            "compared after exchanging first_ <-> second_",
            "both halves look the interface's symbol up in the other corpus; any lookup / version treatment present in "
            "one half only is reported (today: the default-version rule of the addition half, four recorded findings "
            "replayed with versioned vs unversioned exports); R-MIRROR/GUARD: a mirrored lookup runs under the same "
            "conditions in both halves; the events of helpers that are handed one of the two corpora are followed into "
            "the helper, and a by-name lookup is a different event from a by-name-and-version one",
            "the edit scripts and the matching of changed interfaces (runtime); the same set of changed interfaces in "
            "both directions",
            "§8.6 (added after the design: C11 was first declared not applicable)"),
    "C26": ("finite-world abstract interpretation of the location predicate and of the matchers that consult it, "
            "must-pass-through + table rules on the generator, sibling index agreement on the option wiring",
            "given where a type is defined: a type located in a header to keep is never matched by the private-type "
            "suppression, one located elsewhere is (R-HDRLOC, 21 worlds); every matcher answers false when the location "
            "test does, at diff time and at load time alike, so --drop-private-types drops by the same verdict (R-HDRGATE); "
            "the generator labels the suppression as is_private_type_suppr_spec expects, marks it artificial, records "
            "every *.h/*.hpp/*.hxx regular file or symlink and nothing else (R-HDRGEN); abidiff applies the headers of "
            "binary N to binary N (R-HDRWIRE)",
            "the location recorded for a type, the directory walk, and the propagation of the private category through "
            "the diff tree (C22's rules) are runtime / other clauses; headers with other suffixes (.hh, none) are not "
            "recorded by the code and the property does not name suffixes",
            "§8.6 (added after the design: C26 was first declared not applicable)"),
    "C29": ("who-feeds rule + twin stores + correlated-branch must-pass-through in abicompat, and a shape rule on the "
            "keep-list filter of corpus::exported_decls_builder",
            "the libraries' keep-lists are fed only from the application's undefined symbols, for both library versions "
            "alike, and applied (maybe_drop_some_exported_decls) on every feasible path before compute_diff; an empty "
            "keep-list must not mean `keep everything` (decided by interpreting the filter in the empty-list world; it does, "
            "for both kinds: two recorded, replayed findings); R-USEDONLY/MATCH: every consumer of the keep-lists matches a "
            "kept id by (name, version), never by id-string equality with a library symbol (two sites found on the base "
            "tree, replayed and repaired); R-DERIVCACHE: no lazily computed member of corpus::priv is computed before a "
            "member it is computed from is replaced (caches and dependencies found structurally); R-INVBREAK: every search "
            "loop of the ELF helpers tests something the loop changes (the Vernaux walk did not: undefined symbols lost "
            "their versions - replayed and repaired)",
            "which interfaces the undefined symbols resolve to; weak mode's type comparison (runtime)",
            "§8.6 (added after the design: C29 was first declared not applicable)"),
    "C13": ("control-dependence rule over the stores into the atoms of corpus_diff::has_incompatible_changes",
            "no counter that decides the INCOMPATIBLE bit is computed under the report-mode dependent filter "
            "diff::is_filtered_out(); two atoms are (recorded, replayed findings: a vtable change that the default mode "
            "filters as redundant loses the bit that --leaf-changes-only sets); R-SIMILARLEAF: for the type kinds whose "
            "diff nodes the leaf marker drops (pointer, reference, array) types_have_similar_structure compares the kind's "
            "own attributes also behind a pointer, so that the difference is somebody's local change; R-SAMETYPELOCAL: "
            "where equals(class_or_union) classifies a difference between two data members through their types, the world "
            "`equal types` (offset / name / bit position differ) always yields a local change kind, helpers included",
            "agreement of the CHANGE bit (two different predicates over different counters: leaf-node marking, runtime); "
            "the impacted-interfaces clause",
            "§8.6 (added after the design: C13 was first declared not applicable)"),
    "C41": ("finite-domain abstract interpretation of string_begins_with / string_ends_with (worlds over emptiness and "
            "length order), structural trim rule for split_string, mirror-invariance of every condition of "
            "decl_names_equal under exchanging its arguments (canonical forms)",
            "the prefix/suffix helpers answer as the definition says in every world they decide without comparing "
            "contents and agree with each other (begins_with(\"\", \"\") did not: repaired); split_string trims the "
            "fields it returns on both sides (it did not: repaired); decl_names_equal treats its two arguments alike",
            "the content comparisons and the `::` scanning arithmetic (value-level); coincidence with string equality "
            "for names without anonymous parts",
            "§8.6 (added after the design: C41 was first declared not applicable)"),
    "C37": ("small abstract interpretation of elf_helpers::find_hash_table_section_index (section-type facts from the "
            "sh_type tests, tags on values derived from the current section, flags, reaching definitions of the "
            "out-parameters at each return) + sibling agreement of the three lookups' elf_symbol::create arguments",
            "the section indexes returned with a hash-table kind come, on every path, from a section tested to be of "
            "that kind (independent of section order; the order dependence found was repaired); the SysV, GNU and "
            "linear lookups build the returned symbol from the same fields; R-NAMECMP: the shared name test compares "
            "whole names (no length-bounded comparison without a length test)",
            "the hash walks themselves (hash functions, bloom filter, chains) are algorithmic; their memory safety is C34",
            "§8.6 (added after the design: C37 was first declared not applicable)"),
    "C22": ("who-may-write rule over the whole program + must-pass-through dataflow (evidence of a match) at every "
            "write of the suppression categories",
            "a diff node enters SUPPRESSED_CATEGORY / PRIVATE_TYPE_CATEGORY only in suppression_categorization_visitor, "
            "and only on the true edge of is_suppressed() or of a flag set from a child that already carries the "
            "category; diff::is_suppressed() answers true only after suppresses_diff() did; the suppressed_* sets are "
            "filled only under a suppression predicate - so with no matching section no node is ever categorised; "
            "R-BINGATE: in every world where a file-name / SONAME property of the section does not match the binaries, "
            "the five suppression predicates answer false on every path (finite-world interpretation, through helpers)",
            "that a section whose constraints match nothing makes the predicates answer false (matching logic, "
            "runtime); suppressions applied while reading (dropped types)",
            "§8.6 (added after the design: C22 was first declared not applicable)"),
    "C39": ("token-table extraction from the AST of the INI writer and parser (literals emitted vs literals compared), "
            "per grammar production, + call-graph search for the inverse of the parser's escape handling",
            "writer and parser of src/abg-ini.cc agree on every structural token of the four productions (section "
            "header, assignment, list, tuple); every such token is a delimiter for the parser; the writer re-escapes the "
            "characters that terminate a value (recorded finding: it does not escape at all); R-INIBARE: the assignment "
            "token is written only under an emptiness test of the value",
            "equality of the parsed values themselves (trimming, one-element lists, empty values) is runtime",
            "§8.6 (added after the design: C39 was first declared not applicable)"),
    "C15": ("symbolic interpretation (linear forms over attribute values, tracked locals, out-parameter effects) of the three "
            "functions in which the DWARF reader computes a layout value itself",
            "the member bit offset is DW_AT_data_bit_offset when present, else 8 * DW_AT_data_member_location plus the "
            "endianness-converted DW_AT_bit_offset (R-MEMBEROFF, R-BITOFFCONV: 8 * byte_size - bit_offset - bit_size on "
            "little endian, identity on big endian); a size in bits is 8 * DW_AT_byte_size, else DW_AT_bit_size (R-SIZEBITS) - "
            "the formulas of the DWARF standard, in every world of attribute presence; the partial offset readers are used by "
            "die_member_offset only (R-OFFSETSRC); every comparison of the DIE comparison functions pairs a value of `l` with a "
            "value of `r` (R-DIESIDE) and never goes through the first byte of a form-encoded value (R-VALPDEREF) - both found "
            "a defect on the base tree, replayed with clang and repaired",
            "the attribute values themselves and every layout the reader copies rather than computes: the oracle is a compiler",
            "§8.6 (added after the design: C15 was first declared not applicable)"),
    "C16": ("table extraction composed with the writer's vocabulary for the qualifier tags, finite-world interpretation of "
            "build_function_type per kind of child DIE, path-sensitive must-pass for the void fallback",
            "DW_TAG_const/volatile/restrict_type are recorded as the qualifier the writer spells with the same name "
            "(R-CVCONV); a formal parameter yields a plain parameter, unspecified parameters the variadic marker, other "
            "children nothing (R-VARIADIC); the signature string of a variadic function type always names the ellipsis "
            "(R-VARIADICNAME); a function without DW_AT_type returns void (R-RETVOID); every formal parameter "
            "contributes a parameter (R-PARMKEEP: today one whose type cannot be built is dropped silently - recorded, "
            "replayed finding)",
            "which DIEs exist, the types they refer to, names and typedef chains: runtime",
            "§8.6 (added after the design: C16 was first declared not applicable)"),
    "C17": ("finite-world interpretation of the export gates and predicates, must-non-null dataflow at the sites that mark "
            "a declaration public, who-may-write rule, and set-complement discipline (key agreement, alias closure, filter "
            "equality, control dependence) of the two unreferenced-symbol functions",
            "a declaration is exposed in the interface only with a public symbol of the right kind attached (R-EXPGATE, "
            "R-PUBSYM, R-EXPORTEDPRED), and the symbols not referenced by debug info are the complement - over the same "
            "filter as the corpus' symbol table - of the symbols and aliases of the exposed declarations (R-UNREF): no "
            "symbol can be both or neither because of the bookkeeping; R-ADDRTOTAL: the address getters of the DWARF reader "
            "return true whenever the DIE yields an address (no address is rejected because of its value)",
            "which declaration the debug info attaches to which symbol (addresses, linkage names, DWARF) is runtime; "
            "the CTF reader is not in this build",
            "§8.6 (added after the design: C17 was first declared not applicable)"),
    "C18": ("finite-world abstract interpretation of the selection predicates and table extraction from the conversion "
            "switches (AST/CFG), composed across elf-helpers, symtab-reader, ir, corpus and writer",
            "which ELF symbols become entries of the two symbol tables and under which type / binding / visibility word: "
            "R-SYMCONV (ELF constant -> enumerator -> ABIXML word, by name, injective), R-SYMPUBLIC (is_public over "
            "defined x binding x visibility), R-SYMKIND (type filter of load_ o conversion o is_function/is_variable is a "
            "partition of what is loaded), R-SYMFILTER (corpus filter evaluated by symtab_filter::matches = public && kind), "
            "R-SYMSECT (writer sections), R-SYMSEL (.symtab/.dynsym choice per e_type), R-SYMALIAS (same address => alias "
            "of the symbol found there), R-VERDEFAULT (default mark = negated hidden bit), R-SYMSRC (the symbol table is "
            "loaded from the ELF handle of the binary itself, never from the debug-info file), R-INVBREAK (search loops of "
            "the ELF helpers and of the symtab reader look at what they step over)",
            "names, sizes, addresses, version strings and the alias groups themselves are values read from the binary; "
            "agreement with readelf on them is runtime",
            "§8.6 (added after the design: C18 was first declared not applicable)"),
    "C20": ("finite-world interpretation (with tracked locals) of the canonicalisation driver and of every instantiation "
            "of return_comparison_result, key agreement, and a set/restore pairing dataflow",
            "type_base::get_canonical_type_for chooses a candidate's canonical type only after a comparison answered true "
            "(R-CANONEQ), makes an unmatched type its own canonical type and registers it in the bucket (R-CANONNEW), uses "
            "one key - the internal representation - for lookup and registration (R-CANONKEY), restores the two "
            "comparison-mode switches on every path (R-CANONRESTORE); a failed comparison propagates no canonical type "
            "and cancels the tentative ones on every path, a successful one cancels nothing, the verdict is returned "
            "unchanged (R-CTPROP)",
            "structural equality itself (ir::equals overloads, cycles, recursive-type marking) and therefore the "
            "property's debug checks never firing: runtime",
            "§8.6 (added after the design: C20 was first declared not applicable)"),
    "C21": ("AST shape rule over all overriders of diff::has_changes (sibling agreement) + operand-pairing rule over "
            "the ir::equals overloads",
            "every artifact diff's has_changes() is the negation of the IR deep-equality operator applied to the "
            "node's own first/second subjects; one deviant sibling (array_diff) is a recorded finding - R-HASCHG/ARRAY "
            "keeps its hand-written comparison looking at the arrays' dimensions (names / subranges). R-EQSYM: every "
            "==/!= inside an ir::equals(l, r, k) overload whose operands derive from the parameters pairs the same "
            "accessor path of l and of r (or is a same-side bound, an end() sentinel, or a mirrored constant test); "
            "every boolean predicate applied to one operand has its mirror on the other (found: equals(enum_type_decl) "
            "asks its redundancy question of `r` in both loops - a recorded, replayed finding)",
            "symmetry of equals() over cyclic type graphs (canonical-type propagation) and hash consistency are "
            "runtime properties and are not decided; R-EQSYM decides only the syntactic pairing",
            "§3 R-HASCHG, §4 C21"),
}

NOT_APPLICABLE = {
}

PENDING = "static rule designed (see DESIGN.md §3/§4) but its checker is not built yet, so the property is not claimed"


def main():
    props = [json.loads(l) for l in open(os.path.join(VERIF, "properties.jsonl")) if l.strip()]
    ids = [p["id"] for p in props]
    checks = []
    for pid in ids:
        if pid not in CLAIMS:
            continue
        tech, clause, notdec, ref = CLAIMS[pid]
        checks.append({
            "property_id": pid,
            "quick_cmd": "python3 sa/check.py %s --tier quick" % pid,
            "thorough_cmd": "python3 sa/check.py %s --tier thorough" % pid,
            "evidence_file": "evidence/%s.json" % pid,
            "replay_cmd_template": "python3 sa/check.py --replay {path}",
            "engine": "abgsa",
            "level_claimed": {
                "category": "other",
                "text": ("Static analysis (no execution): decides the structural clause - %s. The clause is a necessary "
                         "condition of the property, checked on every path/instance in the current sources; the "
                         "behavioural statement as a whole is not claimed." % clause),
                "design_ref": ref,
            },
            "level_note": ("Trusted: clang 14 front end, the project's compile flags, documented behaviour of libxml2/"
                           "elfutils/libstdc++/glibc. Not decided: %s." % notdec),
            "technique": "static analysis: " + tech,
        })
    na = []
    for pid in ids:
        if pid in CLAIMS:
            continue
        na.append({"property_id": pid, "reason": NOT_APPLICABLE.get(pid, PENDING)})
    man = {
        "version": 1,
        "setup_cmd": "python3 sa/setup.py",
        "hooks": {
            "guard": "LIBABIGAIL_VERIF",
            "enable": "none needed: clang analyses the unmodified sources; no hook code exists in /repo",
            "baseline_off_cmd": "cd /repo && make -k check",
            "source_commits": [],
            "add_only": True,
        },
        "engines": [{
            "name": "abgsa",
            "path": "sa/",
            "serves_properties": sorted(CLAIMS),
            "kind_free_text": ("clang-14 frontend plugin (sa/abgsa.cc) exporting type-resolved AST + CFG facts for every "
                               "function of /repo's current sources; Python rule engine (sa/engine, sa/rules): CFG dataflow "
                               "(must-pass-through, non-null, lockset, status sets), call-graph reachability with CHA, "
                               "table extraction, sibling-agreement rules, compile-fail witnesses"),
        }],
        "checks": checks,
        "not_applicable": na,
        "notes": ("Technique family: static analysis only. Exit 0 = all obligations hold (known findings printed as "
                  "KNOWN-FINDING lines); exit 1 = VIOLATION line(s); exit 2 = analysis broken (vanished anchor, unit does "
                  "not parse, instance floor not met). Known findings: known_findings.json."),
    }
    with open(os.path.join(VERIF, "MANIFEST.json"), "w") as f:
        json.dump(man, f, indent=1)
    print("MANIFEST.json: %d checks, %d not applicable" % (len(checks), len(na)))


if __name__ == "__main__":
    main()
