// Compile-fail witnesses for C42 (R-INTERN): only interned_string_pool can mint an interned_string
// from a raw std::string*.  Each WITNESS(n) function must be rejected by the compiler; control()
// must compile.  Checked with: clang++ -fsyntax-only -ferror-limit=0 (see sa/rules/C42.py).
#include "abg-interned-str.h"
#include <string>

using abigail::interned_string;

void control()
{
  interned_string a;                       // the empty (null) representative
  interned_string b(a);                    // copy
  abigail::interned_string_pool pool;
  interned_string c = pool.create_string("x");
  (void) (b == c);
}

void witness_1()
{
  std::string* p = new std::string("x");
  interned_string s(p);                    // must fail: private constructor
}

void witness_2()
{
  std::string local("x");
  interned_string s(&local);               // must fail: private constructor
}

interned_string witness_3(std::string* p)
{
  return interned_string(p);               // must fail: private constructor
}

interned_string witness_4(std::string* p)
{
  interned_string s = p;                   // must fail: no implicit conversion from std::string*
  return s;
}
