#!/usr/bin/env python3
"""Checker self-validation: analyse *variants* of /repo's sources (never executed).

For each variant a scratch copy of the analysed sources (src/, include/, tools/, config.h,
Makefile.am) is made under a fresh temporary directory outside /repo and /verif, one edit is
applied, the property's check is run against the copy (VERIF_REPO / VERIF_WORK) and the
scratch copy is removed.  A *seeded* variant (one rule instance broken) must be reported as a
violation naming that instance; a *neutral* variant (behaviour-preserving edit) must stay silent.

usage: selftest.py [Cxx ...]   (no argument: all properties that have variants)
       selftest.py --patch file.diff Cxx [Cxx...]   run checks against /repo + patch (scratch copy)
exit 0 = all variants behaved as expected, 2 = a checker failed its self-validation.
"""
import json
import os
import re
import shutil
import subprocess
import sys
import tempfile

HERE = os.path.dirname(os.path.abspath(__file__))
VERIF = os.path.dirname(HERE)
REPO = os.environ.get("VERIF_REPO", "/repo")


def make_scratch():
    d = tempfile.mkdtemp(prefix="abgsa-scratch-")
    for sub in ("src", "include", "tools"):
        os.makedirs(os.path.join(d, sub))
        for fn in os.listdir(os.path.join(REPO, sub)):
            if fn.endswith((".cc", ".h", ".am")) or fn == "Makefile":
                shutil.copy2(os.path.join(REPO, sub, fn), os.path.join(d, sub, fn))
    shutil.copy2(os.path.join(REPO, "config.h"), os.path.join(d, "config.h"))
    return d


def run_check(prop, scratch, tier="quick"):
    env = dict(os.environ)
    env["VERIF_NO_SELFTEST"] = "1"
    env["VERIF_REPO"] = scratch
    env["VERIF_WORK"] = os.path.join(scratch, ".work")
    env["VERIF_EVIDENCE_DIR"] = os.path.join(scratch, ".evidence")
    r = subprocess.run([sys.executable, os.path.join(HERE, "check.py"), prop, "--tier", tier],
                       capture_output=True, text=True, env=env)
    return r.returncode, r.stdout + r.stderr


def apply_edit(scratch, rel, old, new, count=1):
    p = os.path.join(scratch, rel)
    s = open(p).read()
    if s.count(old) < 1:
        raise RuntimeError("variant anchor not found in %s: %r" % (rel, old[:60]))
    s = s.replace(old, new, count)
    open(p, "w").write(s)


def load_variants():
    out = []
    vdir = os.path.join(HERE, "mutants")
    for fn in sorted(os.listdir(vdir)):
        if fn.endswith(".json"):
            for v in json.load(open(os.path.join(vdir, fn))):
                out.append(v)
    return out


def run_variant(v):
    scratch = make_scratch()
    try:
        for e in v.get("edits", []):
            apply_edit(scratch, e["file"], e["old"], e["new"], e.get("count", 1))
        if v.get("patch"):
            # a unified diff stored next to the variant tables (sa/mutants/patches/)
            r = subprocess.run(["patch", "-p1", "-s", "-d", scratch, "-i",
                                os.path.join(HERE, "mutants", "patches", v["patch"])], capture_output=True, text=True)
            if r.returncode != 0:
                raise RuntimeError("variant patch %s does not apply: %s" % (v["patch"], r.stdout + r.stderr))
        if v.get("revert"):
            # undo a `fix:` commit of /repo (found by its subject) in the scratch copy
            h = subprocess.check_output(["git", "-C", REPO, "log", "--format=%H", "--grep", v["revert"], "-F", "-1"],
                                        text=True).strip()
            if not h:
                raise RuntimeError("no commit with subject containing %r" % v["revert"])
            d = subprocess.check_output(["git", "-C", REPO, "show", "--format=", h], text=True)
            r = subprocess.run(["patch", "-R", "-p1", "-s", "-F3", "-d", scratch], input=d, text=True, capture_output=True)
            if r.returncode != 0:
                raise RuntimeError("cannot revert %s in scratch: %s" % (h[:8], r.stdout + r.stderr))
        code, out = run_check(v["property"], scratch)
        if v["kind"] == "seeded":
            ok = code == 1 and all(re.search(x, out) for x in v.get("expect", []))
        else:
            ok = code == 0 and "VIOLATION" not in out
        return ok, code, out
    finally:
        shutil.rmtree(scratch, ignore_errors=True)


def main():
    args = sys.argv[1:]
    if args and args[0] == "--patch":
        patch, props = args[1], args[2:]
        scratch = make_scratch()
        try:
            r = subprocess.run(["patch", "-p1", "-d", scratch, "-i", os.path.abspath(patch)],
                               capture_output=True, text=True)
            if r.returncode != 0:
                print(r.stdout + r.stderr)
                sys.exit(2)
            rc = 0
            for p in props:
                code, out = run_check(p, scratch)
                print(out.strip())
                print("== %s exit %d" % (p, code))
                rc = max(rc, code)
            sys.exit(rc)
        finally:
            shutil.rmtree(scratch, ignore_errors=True)
    only = set(args)
    variants = [v for v in load_variants() if not only or v["property"] in only]
    bad = 0
    from concurrent.futures import ThreadPoolExecutor
    with ThreadPoolExecutor(max_workers=8) as ex:
        for v, (ok, code, out) in zip(variants, ex.map(run_variant, variants)):
            print("%s %-7s %-8s %s (exit %d)" % ("ok  " if ok else "FAIL", v["kind"], v["property"], v["id"], code))
            if not ok:
                bad += 1
                print("    " + "\n    ".join(out.strip().splitlines()[-6:]))
    print("%d variants, %d unexpected" % (len(variants), bad))
    sys.exit(2 if bad else 0)


if __name__ == "__main__":
    main()
