#!/usr/bin/env python3
"""Runs the quick command of every check registered in MANIFEST.json and prints one line each."""
import json, os, subprocess, sys, time
V = os.path.dirname(os.path.dirname(os.path.abspath(__file__)))
man = json.load(open(os.path.join(V, "MANIFEST.json")))
tier = sys.argv[1] if len(sys.argv) > 1 else "quick"
bad = 0
for c in man["checks"]:
    t = time.time()
    cmd = c["quick_cmd"] if tier == "quick" else c["thorough_cmd"]
    r = subprocess.run(cmd, shell=True, cwd=V, capture_output=True, text=True)
    last = (r.stdout.strip().splitlines() or [""])[-1]
    print("%s exit=%d %5.1fs %s" % (c["property_id"], r.returncode, time.time() - t, last))
    if r.returncode != 0:
        bad += 1
        print("   " + "\n   ".join(l for l in r.stdout.splitlines() if l.startswith(("VIOLATION", "ANALYSIS", "  "))[:6]))
sys.exit(1 if bad else 0)
