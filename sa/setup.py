#!/usr/bin/env python3
"""setup_cmd: build the clang plugin from sa/abgsa.cc (offline, one clang++ invocation)."""
import os, sys
sys.path.insert(0, os.path.dirname(os.path.abspath(__file__)))
from engine import facts
facts.build_plugin(force=True)
print("built", facts.PLUGIN)
