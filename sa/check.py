#!/usr/bin/env python3
"""Entry point:  check.py <Cxx> [--tier quick|thorough]   |   check.py --replay <file>

Exit codes: 0 = every obligation of the property's rules holds on the current
/repo sources (known findings are printed, not failed); 1 = at least one
violation not listed in known_findings.json (a `VIOLATION property=.. replay=..`
line is printed per violation); 2 = analysis broken (anchor vanished, unit does
not parse, instance count under its floor) - neither a pass nor a violation.
"""
import argparse
import importlib
import json
import os
import sys
import traceback

sys.path.insert(0, os.path.dirname(os.path.abspath(__file__)))

from engine import core                       # noqa: E402
from engine.compdb import AnalysisBroken      # noqa: E402


def self_validate(ctx, prop):
    """thorough tier: the checker must fire on every seeded variant of its property and stay silent on
    every neutral one (sa/mutants/*.json; variants are analysed in scratch copies, never executed)."""
    import selftest
    variants = [v for v in selftest.load_variants() if v["property"] == prop]
    if not variants:
        ctx.note("thorough: no self-validation variant registered for %s" % prop)
        return None
    from concurrent.futures import ThreadPoolExecutor
    bad = []
    with ThreadPoolExecutor(max_workers=4) as ex:
        for v, (ok, code, out) in zip(variants, ex.map(selftest.run_variant, variants)):
            if ok:
                ctx.ob("SELF-VALIDATION", "%s variant %s: %s" % (v["kind"], v["id"],
                                                               "reported" if v["kind"] == "seeded" else "silent"),
                       True, "sa/mutants", "check exit %d on the variant" % code)
            else:
                # a checker that cannot be shown to fire (or that fires on a neutral edit) is not trusted:
                # analysis-broken, never a violation of the property
                ctx.note("self-validation FAILED on %s variant %s (check exit %d)" % (v["kind"], v["id"], code))
                bad.append(v["id"])
    if bad:
        return "checker self-validation failed on variant(s): %s" % ", ".join(bad)
    return None


def run_property(prop, tier, seed):
    ctx = core.Ctx(prop, tier, seed)
    broken = None
    try:
        mod = importlib.import_module("rules." + prop)
        mod.run(ctx)
        if tier == "thorough" and not os.environ.get("VERIF_NO_SELFTEST"):
            broken = self_validate(ctx, prop)
    except AnalysisBroken as e:
        broken = str(e)
    except Exception:
        broken = "internal error: " + traceback.format_exc()[-1500:]
    return core.finish(ctx, broken)


def main():
    ap = argparse.ArgumentParser()
    ap.add_argument("prop", nargs="?")
    ap.add_argument("--tier", default=os.environ.get("VERIF_TIER", "quick"),
                    choices=["quick", "thorough"])
    ap.add_argument("--replay")
    a = ap.parse_args()
    seed = int(os.environ.get("VERIF_SEED", "0") or 0)
    if a.replay:
        with open(a.replay) as f:
            r = json.load(f)
        print("replaying %s (%s) on the current tree" % (r["key"], r["property"]))
        os.environ["VERIF_REPLAY_KEY"] = r["key"]
        code = run_property(r["property"], r.get("tier", "quick"), seed)
        sys.exit(code)
    if not a.prop:
        ap.error("property id required")
    sys.exit(run_property(a.prop, a.tier, seed))


if __name__ == "__main__":
    main()
