#!/usr/bin/env python3
"""Entry point:  check.py <Cxx> [--tier quick|thorough]   |   check.py --replay <file>

Exit codes: 0 = every obligation of the property's rules holds on the current
/repo sources (known findings are printed, not failed); 1 = at least one
violation not listed in known_findings.json (a `VIOLATION property=.. replay=..`
line is printed per violation); 2 = analysis broken (anchor vanished, unit does
not parse, instance count under its floor) - neither a pass nor a violation.
"""
import argparse
import importlib
import json
import os
import sys
import traceback

sys.path.insert(0, os.path.dirname(os.path.abspath(__file__)))

from engine import core                       # noqa: E402
from engine.compdb import AnalysisBroken      # noqa: E402


def run_property(prop, tier, seed):
    ctx = core.Ctx(prop, tier, seed)
    broken = None
    try:
        mod = importlib.import_module("rules." + prop)
        mod.run(ctx)
    except AnalysisBroken as e:
        broken = str(e)
    except Exception:
        broken = "internal error: " + traceback.format_exc()[-1500:]
    return core.finish(ctx, broken)


def main():
    ap = argparse.ArgumentParser()
    ap.add_argument("prop", nargs="?")
    ap.add_argument("--tier", default=os.environ.get("VERIF_TIER", "quick"),
                    choices=["quick", "thorough"])
    ap.add_argument("--replay")
    a = ap.parse_args()
    seed = int(os.environ.get("VERIF_SEED", "0") or 0)
    if a.replay:
        with open(a.replay) as f:
            r = json.load(f)
        print("replaying %s (%s) on the current tree" % (r["key"], r["property"]))
        os.environ["VERIF_REPLAY_KEY"] = r["key"]
        code = run_property(r["property"], r.get("tier", "quick"), seed)
        sys.exit(code)
    if not a.prop:
        ap.error("property id required")
    sys.exit(run_property(a.prop, a.tier, seed))


if __name__ == "__main__":
    main()
