"""C31 - parallel package comparison equals the sequential one: R-SHARED / R-LIBCMT."""
import json
import os
from rules import reach_rules as rr

TABLES = os.path.join(os.path.dirname(os.path.dirname(os.path.abspath(__file__))), "tables")


def run(ctx):
    ctx.clause = ("code reachable from a worker task or a completion notifier modifies no mutable variable of static "
                  "storage duration (listed exceptions), never writes the shared options object, and calls no "
                  "MT-unsafe libc function that was not triaged")
    ctx.rules = ["R-SHARED", "R-LIBCMT"]
    with open(os.path.join(TABLES, "c31_tables.json")) as fh:
        T = json.load(fh)
    P = ctx.program(None)
    rr.check_shared(ctx, P, T)
    ctx.assume("races through heap objects shared by two tasks are outside what this analysis tracks (each task "
               "builds its own environment); statics inside libstdc++ / libxml2 / elfutils are trusted")
