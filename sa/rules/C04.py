"""C04 - abidw output is well-formed, self-contained XML (sanitiser and id-reference clauses)."""
from rules import esc_rule, idref_rule


def run(ctx):
    ctx.clause = ("no string read from the IR (names, SONAME, paths, versions, symbol ids) reaches the XML stream "
                  "without the context's sanitiser; every emitted type-id reference is recorded for emission")
    ctx.rules = ["R-ESC", "R-ESC/TABLE", "R-ESC/SIGN", "R-IDREF", "R-IDUNIQ"]
    P = ctx.program(None)   # whole program: call sites of writer helpers and of setters must all be visible
    esc_rule.Esc(ctx, P).run()
    idref_rule.run(ctx, P)
    from rules import C40
    C40.check_iduniq(ctx, P)
