"""R-CHGKIND (C23), R-NETPAIR / R-SECTION / R-STATFIRST (C10).

R-CHGKIND (a)  in the four change_kind-taking predicates no path returns true without having
               passed the `get_change_kind() & k` test.
R-CHGKIND (b)  application table of corpus_diff::priv::apply_supprs_to_added_removed_fns_vars_...:
               every loop iterates container K, passes the change kind that matches K
               (ADDED for added_*, DELETED for deleted_*, FUNCTION vs VARIABLE domain) and stores
               into suppressed_K.
R-NETPAIR      every diff_stats::net_num_X() is num_A() - num_B_filtered_out(); the setter of
               num_A is fed from K.size() and the setter of num_B_filtered_out from
               suppressed_K.size() for the same K.
R-SECTION      in each reporter's report(const corpus_diff&) the section that lists K skips
               exactly via the predicate that looks up suppressed_K.
R-STATFIRST    emit_diff_stats is called before any section, and show_stats_only() only gates
               what follows.
"""
import re

from engine.cfg import forward, state_before, TOP, strip_casts, EnumConsts
from engine.facts import walk, call_args, member_call_object, expr_str
from engine.compdb import AnalysisBroken
from rules import atoms as at
from rules.null_rules import short

PREDICATES = [
    ("abigail::suppr::function_suppression::suppresses_function", "const function_decl *"),
    ("abigail::suppr::function_suppression::suppresses_function_symbol", "const elf_symbol *"),
    ("abigail::suppr::variable_suppression::suppresses_variable", "const var_decl *"),
    ("abigail::suppr::variable_suppression::suppresses_variable_symbol", "const elf_symbol *"),
]


def check_chgkind_a(ctx, P):
    n = 0
    for q, ptype in PREDICATES:
        fs = [f for f in P.fn(q) if len(f.r["params"]) == 3 and
              "*" in (f.unit.type(f.params()[0]["t"]) or {}).get("s", "")]
        if len(fs) != 1:
            raise AnalysisBroken("anchor %s(raw pointer, change_kind, ctxt) not found" % q)
        f = fs[0]
        ctx.analysed(f)
        cfg = f.cfg()
        kparam = f.params()[1]["n"]

        def tests_kind(cond):
            """cond contains  get_change_kind() & k"""
            for x in walk(cond):
                if x["k"] in ("CXXOperatorCallExpr", "BinaryOperator") and x.get("op") == "&":
                    txt = expr_str(f, x)
                    if "get_change_kind()" in txt and re.search(r"\b%s\b" % re.escape(kparam), txt):
                        return x
            return None

        def edge(st, blk, idx):
            br = cfg.branch(blk.id)
            if br is None:
                return st
            for c in cfg.branch_conds(blk.id):
                t = tests_kind(c)
                if t is None:
                    continue
                # the edge on which `get_change_kind() & k` is non-zero
                c0 = strip_casts(c)
                neg = c0 is not None and c0["k"] in ("UnaryOperator", "CXXOperatorCallExpr") and c0.get("op") == "!"
                passing = (idx == 1) if neg else (idx == 0)
                if passing:
                    return st | {"CK"}
            return st
        ins, _ = forward(cfg, frozenset(), lambda s, n_, b: s, edge)
        for r in f.nodes():
            if r["k"] != "ReturnStmt" or not r.get("c"):
                continue
            v = strip_casts(r["c"][0])
            if v is not None and v["k"] == "CXXBoolLiteralExpr" and v.get("v") == 0:
                continue
            st = state_before(cfg, ins, lambda s, n_, b: s, r)
            if st is TOP:
                continue
            n += 1
            ctx.ob("R-CHGKIND/a", "%s: `return %s` only after get_change_kind() & %s" % (short(f), expr_str(f, v), kparam),
                   "CK" in st, f.loc(r),
                   "every path to this return passed the change_kind test" if "CK" in st else
                   "a path reaches this non-false return without testing the suppression's change_kind against the "
                   "kind of change: an added-only suppression can hide a removal")
    ctx.floor("R-CHGKIND/a", "non-false returns of the four change_kind predicates", n, 4)


def _field(f, n):
    n = strip_casts(n)
    if n is not None and n["k"] == "MemberExpr" and (f.decl(n) or {}).get("k") == "Field":
        return f.decl(n)["n"]
    return None


def application_rows(f):
    """[(loop, iterated field, predicate name, enumerator name or None, stored field)]"""
    rows = []
    consts = None
    for loop in f.nodes():
        if loop["k"] != "ForStmt":
            continue
        init = loop["c"][0]
        K = None
        # the container is the one whose end() bounds the loop (the initialiser may be anything - that is R-APPLYALL's business)
        for x in (walk(loop["c"][1]) if loop["c"][1] is not None else []):
            if x["k"] == "CXXMemberCallExpr" and (f.decl(x) or {}).get("n") in ("end", "cend"):
                K = _field(f, member_call_object(x))
        if K is None:
            for x in walk(init):
                if x["k"] == "CXXMemberCallExpr" and (f.decl(x) or {}).get("n") in ("begin", "cbegin"):
                    K = _field(f, member_call_object(x))
        if K is None or K == "suppressions":
            continue
        body = loop["c"][3]
        pred = enum = store = None
        for x in walk(body):
            if x["k"] in ("CallExpr", "CXXMemberCallExpr"):
                nm = (f.decl(x) or {}).get("n", "")
                if "suppress" in nm:
                    pred = nm
                    for a in call_args(x):
                        a0 = strip_casts(a)
                        if a0 is not None and a0["k"] == "DeclRefExpr" and (f.decl(a0) or {}).get("k") == "EnumConstant":
                            enum = f.decl(a0)["n"]
                        elif a0 is not None and a0["k"] == "DeclRefExpr" and (f.decl(a0) or {}).get("st") == "local" \
                                and "change_kind" in (f.type(a0) or {}).get("c", ""):
                            # the kind is passed through a local: take the enumerators that reach this use
                            if consts is None:
                                consts = EnumConsts(f).solve()
                            vals = consts.values(a0)
                            enum = next(iter(vals)) if len(vals) == 1 and "?" not in vals else \
                                "{%s}" % ", ".join(sorted(vals))
            if x["k"] in ("CXXOperatorCallExpr", "BinaryOperator") and x.get("op") == "=":
                l = strip_casts(x["c"][1] if x["k"] == "CXXOperatorCallExpr" else x["c"][0])
                if l is not None and l["k"] == "CXXOperatorCallExpr" and l.get("op") == "[]":
                    store = _field(f, l["c"][1])
        # nested loops: only take the innermost (one that directly has a store)
        if store and pred:
            rows.append((loop, K, pred, enum, store))
    return rows


def check_chgkind_b(ctx, P):
    f = P.fn1("abigail::comparison::corpus_diff::priv::apply_supprs_to_added_removed_fns_vars_unreachable_types")
    ctx.analysed(f)
    rows = application_rows(f)
    ctx.floor("R-CHGKIND/b", "suppression application loops", len(rows), 12)
    seen = {}
    for loop, K, pred, enum, store in rows:
        key = "%s via %s" % (K, pred)
        seen[key] = seen.get(key, 0) + 1
        ent = "apply_supprs: loop over %s with %s%s" % (K, pred, "" if seen[key] == 1 else " #%d" % seen[key])
        problems = []
        if store != "suppressed_" + K:
            problems.append("stores into %s instead of suppressed_%s" % (store, K))
        direction = "ADDED" if K.startswith("added_") else "DELETED" if K.startswith("deleted_") else None
        if enum is not None and enum.startswith("{"):
            problems.append("the kind is passed through a local that may hold %s here" % enum)
        elif enum is not None:
            if direction and direction not in enum:
                problems.append("passes %s for the %s container" % (enum, K))
            dom = "FUNCTION" if "fn" in K else "VARIABLE" if "var" in K else None
            if dom and dom not in enum:
                problems.append("passes the %s for a %s container" % (enum, "function" if dom == "FUNCTION" else "variable"))
        elif "type" not in pred:
            problems.append("no change kind is passed to %s" % pred)
        if "fn" in K and "variable" in pred or "var" in K and "function" in pred:
            problems.append("predicate %s applied to %s" % (pred, K))
        ctx.ob("R-CHGKIND/b", ent, not problems, f.loc(loop),
               "iterates %s, passes %s, stores into %s" % (K, enum or "(type suppression)", store) if not problems else
               "; ".join(problems) + ": the wrong interfaces / the wrong kind of change get hidden")
    # R-APPLYALL: a suppression is evaluated against *every* entry of the container: the loop starts at begin() of the very
    # container whose end() bounds it and nothing leaves it early
    for loop, K, pred, enum, store in rows:
        init = loop["c"][0]
        starts = [x for x in walk(init) if x["k"] == "CXXMemberCallExpr" and (f.decl(x) or {}).get("n") in ("begin", "cbegin") and
                  _field(f, member_call_object(x)) == K] if init is not None else []
        other_calls = [x for x in walk(init) if x["k"] == "CallExpr"] if init is not None else []
        body = loop["c"][3]
        early = [x for x in walk(body) if x["k"] in ("BreakStmt", "ReturnStmt", "GotoStmt") and
                 not any(a["k"] in ("ForStmt", "WhileStmt", "DoStmt", "CXXForRangeStmt", "SwitchStmt") and a is not loop and
                         any(z is a for z in walk(body)) for a in f.ancestors(x))]
        ok = bool(starts) and not other_calls and not early
        key = "%s via %s" % (K, pred)
        seen[key + "#all"] = seen.get(key + "#all", 0) + 1
        ctx.ob("R-APPLYALL", "apply_supprs: every entry of %s is offered to %s%s" % (K, pred, "" if seen[key + "#all"] == 1 else " #%d" % seen[key + "#all"]),
               ok, f.loc(loop), "from %s.begin() to %s.end(), no early exit" % (K, K) if ok else
               "the loop %s%s: a suppression that designates an interface of %s can be left unevaluated, so the interface is neither "
               "hidden nor counted as filtered out" % (
                   "does not start at %s.begin() (`%s`)" % (K, " ".join(expr_str(f, v["c"][0])[:60] for v in walk(init) if v["k"] == "VarDecl" and v.get("c") and v["c"][0] is not None) or expr_str(f, init)[:60]) if (not starts or other_calls) else "",
                   (" and " if (not starts or other_calls) and early else "") + ("leaves early (`%s`)" % early[0]["k"].replace("Stmt", "").lower() if early else ""), K))
    return rows


def check_netpair(ctx, P):
    pairs = at.netpairs(ctx, P)
    _, feed = at.feed_table(ctx, P)
    n = 0
    for name, (pair, f) in sorted(pairs.items()):
        n += 1
        if pair is None:
            ctx.ob("R-NETPAIR", "%s is num_A() - num_B_filtered_out()" % name, False, f.loc(),
                   "body is not a single `return num_A() - num_B()` of diff_stats counters")
            continue
        a, b = pair
        ka, kb = feed.get(a, set()), feed.get(b, set())
        ok_shape = b.endswith("_filtered_out")
        # same K: the filtered counter is fed from suppressed_K (or from a walk over K itself)
        same = bool(ka) and (any(("suppressed_" + k) in kb for k in ka) or bool(ka & kb) or
                             any(k.replace("_map_", "_").rstrip("_") in "".join(kb) for k in ka))
        if not kb and not ka:
            same = False
        ctx.ob("R-NETPAIR", "%s = %s - %s" % (name, a, b), ok_shape and same, f.loc(),
               "%s is fed from %s; %s is fed from %s" % (a, sorted(ka) or "?", b, sorted(kb) or "?"))
    ctx.floor("R-NETPAIR", "diff_stats::net_num_* functions", n, 16)


def check_statfirst(ctx, P):
    n = 0
    for f in P.all_funcs():
        if f.dep or f.n != "report" or not f.cls or not f.cls.endswith("_reporter"):
            continue
        ps = f.params()
        if not ps or "corpus_diff" not in (f.unit.type(ps[0]["t"]) or {}).get("c", ""):
            continue
        ctx.analysed(f)
        n += 1
        short_cls = f.cls.split("::")[-1]
        emit = [x for x in f.nodes() if x["k"] == "CXXMemberCallExpr" and (f.decl(x) or {}).get("n") == "emit_diff_stats"]
        ctx.ob("R-STATFIRST", "%s::report(corpus_diff): emit_diff_stats is called" % short_cls, len(emit) >= 1, f.loc(),
               "%d call(s)" % len(emit))
        if not emit:
            continue
        e = emit[0]
        # not under a condition that depends on show_stats_only
        guards = []
        for anc in f.ancestors(e):
            if anc["k"] == "IfStmt":
                guards.append(expr_str(f, anc["c"][0]))
        ok_guard = not any("show_stats_only" in g for g in guards)
        ctx.ob("R-STATFIRST", "%s::report(corpus_diff): summary not gated by show_stats_only" % short_cls, ok_guard,
               f.loc(e), "enclosing conditions: %s" % (guards or "none"))
        # every section header insertion ("Removed function" ...) comes after it
        first_section = None
        for x in f.nodes():
            if x["k"] == "StringLiteral" and re.search(r"(Removed|Added|Changed|changed|removed|added) ", x.get("s", "")):
                first_section = x
                break
        ok_order = first_section is None or (first_section["l"], first_section["i"]) > (e["l"], e["i"])
        ctx.ob("R-STATFIRST", "%s::report(corpus_diff): summary precedes every section" % short_cls, ok_order, f.loc(e),
               "first section literal at %s" % (f.loc(first_section) if first_section else "n/a"))
        # show_stats_only() gates a return placed after the summary
        sso = [x for x in f.nodes() if x["k"] == "CXXMemberCallExpr" and (f.decl(x) or {}).get("n") == "show_stats_only"]
        ok_sso = all((x["l"], x["i"]) > (e["l"], e["i"]) for x in sso) and bool(sso)
        ctx.ob("R-STATFIRST", "%s::report(corpus_diff): show_stats_only() is tested after the summary" % short_cls,
               ok_sso, f.loc(sso[0]) if sso else f.loc(), "%d test(s)" % len(sso))
    ctx.floor("R-STATFIRST", "reporters with report(const corpus_diff&)", n, 2)


SECTION_TABLE = [
    # (container the section iterates, skip predicate, header counter)
    ("deleted_fns_", "deleted_function_is_suppressed", "net_num_func_removed"),
    ("added_fns_", "added_function_is_suppressed", "net_num_func_added"),
    ("deleted_vars_", "deleted_variable_is_suppressed", "net_num_vars_removed"),
    ("added_vars_", "added_variable_is_suppressed", "net_num_vars_added"),
    ("deleted_unrefed_fn_syms_", "deleted_unrefed_fn_sym_is_suppressed", "net_num_removed_func_syms"),
    ("added_unrefed_fn_syms_", "added_unrefed_fn_sym_is_suppressed", "net_num_added_func_syms"),
    ("deleted_unrefed_var_syms_", "deleted_unrefed_var_sym_is_suppressed", "net_num_removed_var_syms"),
    ("added_unrefed_var_syms_", "added_unrefed_var_sym_is_suppressed", "net_num_added_var_syms"),
]


def check_section(ctx, P):
    """the skip predicates look up suppressed_K for the K their name says, and each reporter's section
    over K calls exactly that predicate"""
    n = 0
    for K, pred, counter in SECTION_TABLE:
        fs = [f for f in P.all_funcs() if f.n == pred and f.cls == "abigail::comparison::corpus_diff::priv"]
        if len(fs) != 1:
            raise AnalysisBroken("anchor vanished: corpus_diff::priv::%s" % pred)
        f = fs[0]
        ctx.analysed(f)
        fields = at._member_fields(f, f.body)
        n += 1
        ctx.ob("R-SECTION", "%s looks up suppressed_%s" % (pred, K), ("suppressed_" + K) in fields and
               not any(x.startswith("suppressed_") and x != "suppressed_" + K for x in fields), f.loc(),
               "fields referenced: %s" % sorted(fields))
    for f in P.all_funcs():
        if f.dep or f.n != "report" or not f.cls or not f.cls.endswith("_reporter"):
            continue
        ps = f.params()
        if not ps or "corpus_diff" not in (f.unit.type(ps[0]["t"]) or {}).get("c", ""):
            continue
        short_cls = f.cls.split("::")[-1]
        for K, pred, counter in SECTION_TABLE:
            # loops of this reporter that iterate K (directly or through a sorted copy built from K)
            for loop in f.nodes():
                if loop["k"] != "ForStmt":
                    continue
                hdr = [loop["c"][0], loop["c"][1]]
                srcs = set()
                for h in hdr:
                    if h is None:
                        continue
                    srcs |= at._member_fields(f, h)
                    for x in walk(h):
                        if x["k"] == "DeclRefExpr" and (f.decl(x) or {}).get("k") == "Var":
                            # sorted local: find what it was filled from
                            nm = f.decl(x)["n"]
                            for c in f.nodes():
                                if c["k"] == "CallExpr" and any(
                                        y["k"] == "DeclRefExpr" and (f.decl(y) or {}).get("n") == nm
                                        for a in call_args(c) for y in walk(a)):
                                    srcs |= set().union(*[at._member_fields(f, a) for a in call_args(c)])
                if K not in srcs:
                    continue
                preds = {(f.decl(x) or {}).get("n") for x in walk(loop["c"][3])
                         if x["k"] in ("CXXMemberCallExpr", "CallExpr")}
                sup = {p for p in preds if p and p.endswith("_is_suppressed")}
                if not sup:
                    continue
                n += 1
                ctx.ob("R-SECTION", "%s section over %s skips via %s" % (short_cls, K, pred), sup == {pred}, f.loc(loop),
                       "skip predicate(s) used in the loop: %s" % sorted(sup))
    ctx.floor("R-SECTION", "section/predicate pairs", n, 16)


CATEGORY_SETTERS = ("add_to_category", "add_to_local_category", "add_to_local_and_inherited_categories",
                    "remove_from_category", "remove_from_local_category", "set_category", "set_local_category")
CATEGORY_READERS = ("is_filtered_out", "is_filtered_out_wrt_non_inherited_categories", "get_category", "get_local_category",
                    "to_be_reported", "is_suppressed", "has_local_changes_to_be_reported")


def check_catorder(ctx, P):
    """R-CATORDER: in corpus_diff::priv::apply_filters_and_compute_diff_stats the categories are complete before
    they are counted: no call that can write a diff node's category (maybe_apply_filters, the redundancy pass -
    found through the call graph, not by name) is reachable in the CFG from a call that reads a category to feed
    a counter, and every such read is dominated by the redundancy categorisation."""
    f = P.fn1("abigail::comparison::corpus_diff::priv::apply_filters_and_compute_diff_stats")
    ctx.analysed(f)
    cfg = f.cfg()
    setters = {g.u for g in P.all_funcs() if g.cls == "abigail::comparison::diff" and g.n in CATEGORY_SETTERS}
    if len(setters) < 4:
        raise AnalysisBroken("anchor vanished: the category setters of comparison::diff")
    writes_memo = {}

    def writes(u):
        if u not in writes_memo:
            r = P.reach([u])
            writes_memo[u] = bool(setters & set(r))
        return writes_memo[u]
    writers, readers = [], []
    for n, d in f.calls():
        if d.get("cls") == "abigail::comparison::diff" and d["n"] in CATEGORY_READERS:
            readers.append(n)
        elif d.get("u") in P.funcs and writes(d["u"]):
            writers.append((n, d))
    ctx.floor("R-CATORDER", "category-writing calls in apply_filters_and_compute_diff_stats", len(writers), 4)
    ctx.floor("R-CATORDER", "category reads feeding the counters", len(readers), 3)
    # CFG reachability between elements
    where = {}
    for n in [w for w, _ in writers] + readers:
        where[n["i"]] = cfg.where(n)
    succ_closure = {}

    def reachable_blocks(b):
        if b not in succ_closure:
            seen, work = set(), [b]
            while work:
                x = work.pop()
                for s_ in cfg.blocks[x].succs:
                    if s_ is not None and s_ in cfg.blocks and s_ not in seen:
                        seen.add(s_)
                        work.append(s_)
            succ_closure[b] = seen
        return succ_closure[b]

    def reaches(a, b):
        """can element b execute after element a?"""
        wa, wb = where[a["i"]], where[b["i"]]
        if wa is None or wb is None:
            return False
        if wb[0] in reachable_blocks(wa[0]):
            return True
        return wa[0] == wb[0] and wb[1] > wa[1]
    seen = {}
    for r in readers:
        later = [(w, d) for w, d in writers if reaches(r, w)]
        ent = "apply_filters_and_compute_diff_stats: `%s` reads complete categories" % expr_str(f, r)[:60]
        seen[ent] = seen.get(ent, 0) + 1
        if seen[ent] > 1:
            ent += " #%d" % seen[ent]
        ctx.ob("R-CATORDER", ent, not later, f.loc(r),
               "no category-writing call can run after this read" if not later else
               "%s can still run after this read (%s): the counter is computed from categories that are not final, "
               "while the reporters evaluate the same predicate later, with the final categories - summary and "
               "listing disagree" % (", ".join(sorted({d["n"] for _, d in later})),
                                     ", ".join(sorted({f.loc(w) for w, _ in later}))))


def _opts_in(f, e):
    return {(f.decl(x) or {}).get("n") for x in walk(e)
            if x["k"] == "CXXMemberCallExpr" and (f.decl(x) or {}).get("n", "").startswith("show_")
            and "diff_context" in ((f.decl(x) or {}).get("cls") or "")}


def _opts_fn(P, f, depth=0, seen=None):
    """show_* options of the diff context a function tests, through the repo helpers it calls"""
    seen = seen if seen is not None else set()
    if f.u in seen or depth > 3:
        return set()
    seen.add(f.u)
    o = _opts_in(f, f.body)
    for n, d in f.calls():
        g = P.funcs.get(d.get("u"))
        if g is not None and not g.dep and g.q.startswith("abigail::comparison::") and \
                (g.cls or "").startswith("abigail::comparison::corpus_diff::diff_stats"):
            o |= _opts_fn(P, g, depth + 1, seen)
    return o


def check_optgate(ctx, P):
    """R-OPTGATE: a section of the report and the counter that feeds the verdict are switched off by the same
    options.  For every container K of SECTION_TABLE: the show_* options tested by the conditions that enclose the
    reporters' section over K equal the show_* options under which num_<K>_filtered_out() declares everything
    filtered (through the helpers of diff_stats).  An option the reporter honours and the counter ignores gives a
    change bit with an empty report; the converse hides a change from the exit status."""
    pairs = at.netpairs(ctx, P)
    n = 0
    counter_opts = {}
    for K, pred, counter in SECTION_TABLE:
        pair, _ = pairs.get(counter, (None, None))
        if not pair:
            raise AnalysisBroken("anchor vanished: diff_stats::%s as num - filtered" % counter)
        gs = [x for x in P.all_funcs() if x.n == pair[1] and (x.cls or "").endswith("diff_stats")
              and len(x.r["params"]) == 0 and not x.dep]
        if len(gs) != 1:
            raise AnalysisBroken("anchor vanished: diff_stats::%s()" % pair[1])
        ctx.analysed(gs[0])
        counter_opts[K] = (pair[1], _opts_fn(P, gs[0]), gs[0])
    for f in sorted(P.all_funcs(), key=lambda x: x.q):
        if f.dep or f.n != "report" or not f.cls or not f.cls.endswith("_reporter"):
            continue
        ps = f.params()
        if not ps or "corpus_diff" not in (f.unit.type(ps[0]["t"]) or {}).get("c", ""):
            continue
        short_cls = f.cls.split("::")[-1]
        for K, pred, counter in SECTION_TABLE:
            for loop in f.nodes():
                if loop["k"] != "ForStmt":
                    continue
                if not any((f.decl(x) or {}).get("n") == pred for x in walk(loop["c"][3])
                           if x["k"] in ("CXXMemberCallExpr", "CallExpr")):
                    continue
                gate = set()
                for a in f.ancestors(loop):
                    if a["k"] == "IfStmt":
                        gate |= _opts_in(f, a["c"][0])
                getter, copts, g = counter_opts[K]
                n += 1
                ok = gate == copts
                ctx.ob("R-OPTGATE", "%s section over %s and %s() obey the same options" % (short_cls, K, getter), ok,
                       f.loc(loop),
                       "both depend on %s" % (sorted(gate) or "no option") if ok else
                       "the section is shown under %s but %s() (src %s) decides on %s: with the differing option off, the "
                       "exit status and the report disagree" % (sorted(gate), getter, g.loc(), sorted(copts)))
    ctx.floor("R-OPTGATE", "reporter sections paired with their filtered-out counter", n, 16)
