"""C24 - type suppressions never over-suppress (regular-expression clauses)."""
from rules import null_rules as nr
from rules import rxpres_rule


def run(ctx):
    ctx.clause = ("no null compiled regex reaches regex::match, and a suppression whose regular expression does not "
                  "compile never reaches the matching functions (parser gate), so an invalid pattern cannot silently "
                  "widen what a suppression hides")
    ctx.rules = ["R-RXNULL", "R-RXVALID/G1-G4", "R-RXPRES", "R-MEMOKEY", "R-BINGATE"]
    P = ctx.program(None)
    n = nr.rxnull(ctx, P)
    ctx.floor("R-RXNULL", "regex::match call sites", n, 40)
    rxpres_rule.run(ctx, P)
    # memoised results in the suppression machinery (one suppression object is evaluated against every diff node)
    from rules import memokey_rule, bingate_rule
    bingate_rule.check(ctx, P)
    sf = [f for f in P.all_funcs() if f.q.startswith("abigail::suppr::") or "suppression" in (f.cls or "")]
    k = memokey_rule.check(ctx, P, sf)
    kp = memokey_rule.check_memoparam(ctx, P, sf)
    ctx.note("R-MEMOKEY (path form): %d member function(s) of the suppression classes return a member that they fill from a "
             "parameter (0 on the tree this was written for; the seeded variant C24-insertion-ranges-evaluated-once is the "
             "positive example of the thorough tier)" % kp)
    ctx.floor("R-MEMOKEY", "lazy caches in the suppression classes", k, 10)
    # a suppressed node's children must not be seen by the redundancy pass (else their next, unsuppressed, occurrence is
    # filtered as redundant: over-suppression)
    from rules import C26
    C26.check_redundskip(ctx)
    ctx.assume("insertion-range arithmetic (has_data_member_inserted_*) is evaluated on runtime offsets and is not decided")
