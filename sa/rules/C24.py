"""C24 - type suppressions never over-suppress (regular-expression clauses)."""
from rules import null_rules as nr
from rules import rxpres_rule


def run(ctx):
    ctx.clause = ("no null compiled regex reaches regex::match, and a suppression whose regular expression does not "
                  "compile never reaches the matching functions (parser gate), so an invalid pattern cannot silently "
                  "widen what a suppression hides")
    ctx.rules = ["R-RXNULL", "R-RXVALID/G1-G4", "R-RXPRES"]
    P = ctx.program(None)
    n = nr.rxnull(ctx, P)
    ctx.floor("R-RXNULL", "regex::match call sites", n, 40)
    rxpres_rule.run(ctx, P)
    ctx.assume("insertion-range arithmetic (has_data_member_inserted_*) is evaluated on runtime offsets and is not decided")
