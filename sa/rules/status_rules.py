"""R-STATUS / R-LOADFAIL / R-ACCUM: obligations over the exit-status abstract interpretation.

Shared by C05, C08, C09, C30.
"""
from engine import status as st
from engine.status import T, is_tracked_type
from engine.facts import walk, call_args, expr_str
from engine.cfg import strip_casts
from engine.compdb import AnalysisBroken

LIB_UNITS = ["src/abg-tools-utils.cc", "src/abg-elf-reader-common.cc"]
TOOLS = {"abidiff": "tools/abidiff.cc", "abicompat": "tools/abicompat.cc",
         "abipkgdiff": "tools/abipkgdiff.cc"}

# loaders: callee qualified name -> True if the elf_reader::status out-parameter obeys lemma L2
LOADERS = {
    "abigail::dwarf_reader::read_corpus_from_elf": True,
    "abigail::xml_reader::read_corpus_from_input": False,
    "abigail::xml_reader::read_corpus_group_from_input": False,
    "abigail::xml_reader::read_translation_unit_from_file": False,
    "read_corpus": False,      # abicompat's static helper
}

BITS = {1: "ERROR", 2: "USAGE_ERROR", 4: "ABI_CHANGE", 8: "ABI_INCOMPATIBLE_CHANGE"}


def fmt(v):
    if not isinstance(v, int):
        return "unknown"
    if v == 0:
        return "OK(0)"
    return "|".join(BITS.get(b, "bit%d" % b) for b in (1, 2, 4, 8, 16, 32, 64, 128) if v & b) + "(%d)" % v


def loader_sites(f):
    """[(result var name, call node, callee decl, status var or None)] in function f"""
    out = []
    for n in f.nodes():
        k = n["k"]
        lhs = rhs = None
        if k == "VarDecl" and n.get("c"):
            d = f.decl(n)
            lhs, rhs = (d["n"] if d else None), n["c"][0]
        elif k == "CXXOperatorCallExpr" and n.get("op") == "=" and len(n["c"]) == 3:
            l = strip_casts(n["c"][1])
            if l is not None and l["k"] == "DeclRefExpr":
                lhs, rhs = f.decl(l)["n"], n["c"][2]
        elif k == "BinaryOperator" and n.get("op") == "=":
            l = strip_casts(n["c"][0])
            if l is not None and l["k"] == "DeclRefExpr":
                lhs, rhs = f.decl(l)["n"], n["c"][1]
        if lhs is None or rhs is None:
            continue
        call = None
        for x in walk(rhs):
            if x["k"] == "CallExpr":
                d = f.decl(x)
                if d is not None and d["q"] in LOADERS:
                    call = (x, d)
                    break
        if call is None:
            continue
        x, d = call
        svar = None
        for a in call_args(x):
            a0 = strip_casts(a)
            if a0 is not None and a0["k"] == "DeclRefExpr":
                dd = f.decl(a0)
                if dd and dd["k"] in ("Var", "ParmVar") and is_tracked_type(f.unit.type(dd.get("t"))):
                    svar = dd["n"]
        out.append((lhs, x, d, svar))
    return out


def check_L2(ctx, P):
    """Lemma L2: dwarf_reader::read_corpus_from_elf never returns a null corpus with STATUS_OK set,
    and a return after `status |= STATUS_OK` returns what read_debug_info_into_corpus produced."""
    fs = [f for f in P.fn("abigail::dwarf_reader::read_corpus_from_elf")
          if len(f.r["params"]) == 2]
    if len(fs) != 1:
        raise AnalysisBroken("anchor read_corpus_from_elf(read_context&, status&) not found")
    f = fs[0]
    ctx.analysed(f)
    I = st.Interp(P)
    I.run(f)
    sname = [p["n"] for p in f.params() if is_tracked_type(f.unit.type(p.get("t")))][0]
    ok_all = True
    n_null = 0
    for n, w in I.all_returns.get(f.u, []):
        e = strip_casts(n["c"][0]) if n.get("c") else None
        while e is not None and e["k"] == "CXXConstructExpr" and len(e.get("c", [])) == 1:
            e = strip_casts(e["c"][0])
        is_null = e is not None and e["k"] in ("CXXTemporaryObjectExpr", "CXXConstructExpr") and not e.get("c")
        v = w.get(sname)
        if is_null:
            n_null += 1
            ok = isinstance(v, int) and not (v & 1)
            ok_all &= ctx.ob("R-LOADFAIL/L2", "read_corpus_from_elf null-return without STATUS_OK", ok, f.loc(n),
                             "returns an empty corpus_sptr with status=%s" % (v,))
        else:
            # non-null return expression must be a value produced by read_debug_info_into_corpus
            src = e
            if src is not None and src["k"] == "CXXConstructExpr" and len(src.get("c", [])) == 1:
                src = strip_casts(src["c"][0])
            okp = False
            if src is not None and src["k"] == "DeclRefExpr":
                name = f.decl(src)["n"]
                for x in f.nodes():
                    if x["k"] == "VarDecl" and f.decl(x)["n"] == name and x.get("c"):
                        for y in walk(x["c"][0]):
                            if y["k"] == "CallExpr" and (f.decl(y) or {}).get("n") == "read_debug_info_into_corpus":
                                okp = True
            ok_all &= ctx.ob("R-LOADFAIL/L2", "read_corpus_from_elf non-null return is the built corpus", okp,
                             f.loc(n), "return %s with status=%s" % (expr_str(f, e), v))
    ctx.floor("R-LOADFAIL/L2", "null returns of read_corpus_from_elf", n_null, 1)
    return ok_all


def analyse_tool(ctx, tool, infeasible=None, extra_units=()):
    """Run the interpreter over one tool.  Returns (P, I, main, rets)."""
    P = ctx.program([TOOLS[tool]] + LIB_UNITS + list(extra_units))
    main = P.fn1("main")
    unit = P.units[TOOLS[tool]]
    links_cache = {}

    def links(f):
        if f.u not in links_cache:
            m = {}
            for lhs, call, d, svar in loader_sites(f):
                if svar and LOADERS.get(d["q"]) and lhs:
                    m[lhs] = (svar, 1)
            links_cache[f.u] = m
        return links_cache[f.u]

    nv_cache = {}

    def nullvars(f):
        if f.u not in nv_cache:
            nv_cache[f.u] = {lhs for lhs, _, _, _ in loader_sites(f) if lhs}
        return nv_cache[f.u]

    I = st.Interp(P, infeasible=infeasible, null_vars_of=nullvars, status_links=links, loaders=set(LOADERS))
    tool_funcs = [f for f in unit.functions if not f.dep and P.funcs.get(f.u) is f]
    I.compute_fieldvals(tool_funcs)
    I.events[:] = []
    rets = I.run(main)
    # interpret every other function of the tool that handles a tracked status, so that
    # assignments in task bodies / notifiers are seen too
    for f in tool_funcs:
        if f is main or f.u in I.returns:
            continue
        uses = is_tracked_type(f.ret_type()) or any(
            n["k"] == "VarDecl" and is_tracked_type(f.unit.type((f.decl(n) or {}).get("t"))) for n in f.nodes()) or \
            any(n["k"] == "MemberExpr" and (f.decl(n) or {}).get("q") in I.fieldvals for n in f.nodes())
        if uses and f.cfg() is not None:
            I.run(f)
    for u in I.returns:
        f = P.funcs.get(u)
        if f:
            ctx.analysed(f)
    return P, I, main, rets


def check_exit_values(ctx, tool, main, rets, fieldvals=None):
    """S1..S4 on every value that can reach the process exit status."""
    seen = {}
    for v, w, n in rets:
        seen.setdefault((n["i"], v if isinstance(v, int) else "unknown"), (v, w, n))
    count = 0
    for (nid, _), (v, w, n) in sorted(seen.items(), key=lambda kv: (kv[1][2]["l"], str(kv[0][1]))):
        count += 1
        expr = expr_str(main, n["c"][0]) if n.get("c") else ""
        ent = "%s main: return %s" % (tool, expr)
        if not isinstance(v, int):
            ctx.ob("R-STATUS/S1", ent, False, main.loc(n),
                   "exit value cannot be bounded by the analysis (world: %s)" % (w,))
            continue
        ctx.ob("R-STATUS/S1", ent + " = " + fmt(v), (v & ~15) == 0, main.loc(n), "value %s uses only documented bits" % fmt(v))
        ctx.ob("R-STATUS/S2", ent + " = " + fmt(v), not (v & 8) or bool(v & 4), main.loc(n),
               "INCOMPATIBLE_CHANGE implies ABI_CHANGE; value %s under %s" % (fmt(v), sorted(w.preds, key=str)))
        ctx.ob("R-STATUS/S3", ent + " = " + fmt(v), not (v & 2) or bool(v & 1), main.loc(n),
               "USAGE_ERROR implies ERROR; value %s" % fmt(v))
        e = strip_casts(n["c"][0]) if n.get("c") else None
        if e is not None and e["k"] == "IntegerLiteral":
            ctx.ob("R-STATUS/S4", ent, e.get("v") in (0, 1), main.loc(n),
                   "bare integer exit value %s" % e.get("v"))
    return count


def check_kills(ctx, tool, I):
    """S5: a plain assignment to a status variable that can already hold accumulated bits
    and whose right-hand side does not mention the variable discards them."""
    n_assign = 0
    for ev in I.events:
        _, f, n, name, op, incoming, mentions = ev
        t = None
        n_assign += 1
        if op != "=":
            continue
        nonzero = sorted(v for v in incoming if isinstance(v, int) and v != 0)
        ent = "%s %s: %s" % (tool, f.n if f.n != "operator()" else f.q.split("::")[-2] + "::operator()",
                             expr_str(f, n))
        ok = not nonzero or mentions
        ctx.ob("R-STATUS/S5", ent, ok, f.loc(n),
               "plain assignment while `%s` may already hold %s: accumulated bits are discarded"
               % (name, ", ".join(fmt(v) for v in nonzero)) if not ok else
               "assignment with nothing accumulated (incoming %s)" % sorted(map(str, incoming)))
    return n_assign


def check_accum(ctx, tool, I, stores):
    """R-ACCUM: stores to aggregate status fields outside constructors accumulate (|=)."""
    k = 0
    for f, q, op, rhs in stores:
        if rhs is None:
            continue
        in_ctor_init = False
        node = None
        for n in f.nodes():
            if n["k"] == "CtorInit" and (f.decl(n) or {}).get("q") == q and n.get("c") and n["c"][0] is rhs:
                in_ctor_init = True
        if in_ctor_init:
            continue
        k += 1
        ent = "%s %s: %s %s %s" % (tool, f.q.split("::")[-2] + "::" + f.n if f.cls else f.n,
                                   q.split("::")[-2] + "::" + q.split("::")[-1], op, expr_str(f, rhs))
        ctx.ob("R-ACCUM", ent, op == "|=", f.loc(rhs),
               "store into aggregate status field %s uses `%s`" % (q, op))
    return k


def check_loadfail(ctx, tool, P, I, main, rets):
    """On the null edge of a loader result, no non-error value reaches an exit."""
    sites = loader_sites(main)
    names = {}
    for lhs, call, d, svar in sites:
        names.setdefault(lhs, []).append((call, d, svar))
    for lhs, lst in sorted(names.items()):
        bad = []
        tested = False
        for v, w, n in rets:
            if w.pred(("nn", lhs)) is False and w.pred(("loaded", lhs)) is True:
                tested = True
                if not isinstance(v, int) or not (v & 1):
                    bad.append((v, n))
        for call, d, svar in lst:
            ent = "%s main: %s = %s(...)" % (tool, lhs, d["n"])
            if not tested:
                ctx.ob("R-LOADFAIL", ent, True, main.loc(call),
                       "result is not null-tested directly (covered by the all-null / kind-mismatch exits)")
                continue
            # attribute failing returns to this site if the return lies in the same switch case as the call
            mine = [(v, n) for (v, n) in bad if _same_case(main, call, n)] if len(lst) > 1 else bad
            ok = not mine
            ctx.ob("R-LOADFAIL", ent + "", ok, main.loc(call),
                   ("with %s null the exit value can be %s (return at %s): a failed load is reported as success"
                    % (lhs, ", ".join(sorted({fmt(v) for v, _ in mine})), main.loc(mine[0][1]))) if not ok else
                   "every exit reached with %s null carries the ERROR bit" % lhs)
    return len(sites)


def _case_group(f, n):
    """(switch id, index of the case group) containing n; a group starts at each case/default label
    that is a direct child of the switch body."""
    chain = [n] + list(f.ancestors(n))
    for idx, a in enumerate(chain):
        if a["k"] != "SwitchStmt":
            continue
        body = a["c"][1]
        if idx < 2 or body is None or chain[idx - 1]["i"] != body["i"]:
            return (a["i"], None)
        child = chain[idx - 2]
        grp = -1
        for c in body.get("c", []):
            if c is None:
                continue
            if c["k"] in ("CaseStmt", "DefaultStmt"):
                grp += 1
            if c["i"] == child["i"]:
                return (a["i"], grp)
        return (a["i"], None)
    return (None, None)


def _same_case(f, call, ret):
    a, b = _case_group(f, call), _case_group(f, ret)
    return a[0] is not None and a == b
