"""C29 - abicompat judges only the interfaces the application uses: R-USEDONLY.

perform_compat_check_in_normal_mode restricts the two library corpora to "the functions and variables which symbols
are those undefined in the app" through the corpora's keep-lists and corpus::maybe_drop_some_exported_decls().
  /FEED   every id pushed into a get_sym_ids_of_{fns,vars}_to_keep() list comes from iterating the application's
          undefined {function,variable} symbols, and is pushed for both library versions (twin stores);
  /DROP   from every such store, every feasible path to compute_diff() passes maybe_drop_some_exported_decls() on both
          library corpora (the condition guarding the calls is implied by the loop the store sits in);
  /EMPTY  for each kind, an application that uses *no* interface of that kind must still be restricted to none of them:
          the filter exported_decls_builder::priv::keep_wrt_id_of_{fns,vars}_to_keep must not read an empty keep-list as
          "keep everything" (or abicompat must guarantee a non-empty list).  Decided by interpreting the filter in the
          world where the list is empty and the declaration has a symbol: it must answer false.
  /MATCH  the kept ids are id strings of *undefined* symbols of the application (/FEED); an id string spells whether the
          version is the default one (`@@` vs `@`), which an undefined reference and the definition it binds to do not
          share.  Every consumer of the keep-lists (the two filters of exported_decls_builder::priv and the two
          get_unreferenced_*_symbols of corpus::priv, through any helper the list is handed to) therefore has to match an
          element by (name, version) - elf_symbol::get_name_and_version_from_id - and never by comparing the element with a
          get_id_string().
"""
from engine.cfg import strip_casts
from engine.facts import walk, call_args, member_call_object, expr_str
from engine.compdb import AnalysisBroken

UNITS = ["tools/abicompat.cc", "src/abg-corpus.cc"]
KINDS = {"fns": ("get_sym_ids_of_fns_to_keep", "get_sorted_undefined_fun_symbols", "keep_wrt_id_of_fns_to_keep"),
         "vars": ("get_sym_ids_of_vars_to_keep", "get_sorted_undefined_var_symbols", "keep_wrt_id_of_vars_to_keep")}


LISTS = {"fns": ("sym_id_of_fns_to_keep", "sym_id_of_fns_to_keep_", "sym_id_fns_to_keep"),
         "vars": ("sym_id_of_vars_to_keep", "sym_id_of_vars_to_keep_", "sym_id_vars_to_keep")}


def _is_list(f, e, names, params=()):
    e = strip_casts(e)
    while e is not None and e["k"] in ("MaterializeTemporaryExpr", "CXXBindTemporaryExpr", "ExprWithCleanups", "ImplicitCastExpr") and e.get("c"):
        e = strip_casts(e["c"][0])
    if e is None:
        return False
    if e["k"] in ("CXXMemberCallExpr", "MemberExpr") and (f.decl(e) or {}).get("n") in names:
        return True
    return e["k"] == "DeclRefExpr" and e.get("d") in params


def keep_in_empty_world(P, g, names, params=(), depth=0):
    """truth values the filter g can return when the keep-list is empty and the declaration has a symbol"""
    from rules.world import World, ANY, truth
    symvars = {x.get("d") for x in g.nodes() if x["k"] == "VarDecl" and x.get("c") and x["c"][0] is not None and
               any(y["k"] == "CXXMemberCallExpr" and (g.decl(y) or {}).get("n") == "get_symbol" for y in walk(x["c"][0]))}
    symvars |= {x["var"].get("d") for x in g.nodes() if x["k"] == "IfStmt" and x.get("var") and
                any(y["k"] == "CXXMemberCallExpr" and (g.decl(y) or {}).get("n") == "get_symbol" for y in walk(x["var"]))}

    def atom(e):
        k = e["k"]
        if k == "CXXForRangeStmt":
            return [False] if e.get("c") and _is_list(g, e["c"][0], names, params) else None
        if k == "CXXMemberCallExpr":
            nm = (g.decl(e) or {}).get("n")
            o = member_call_object(e)
            if nm == "empty" and _is_list(g, o, names, params):
                return [True]
            if nm == "size" and _is_list(g, o, names, params):
                return [0]
            if nm and nm.startswith("operator bool"):
                o0 = strip_casts(o)
                if o0 is not None and o0["k"] == "DeclRefExpr" and o0.get("d") in symvars:
                    return [True]
        if k in ("CXXOperatorCallExpr", "BinaryOperator") and e.get("op") in ("!=", "=="):
            a = call_args(e) if k == "CXXOperatorCallExpr" else e["c"]
            for x in a:
                x0 = strip_casts(x)
                if x0 is not None and x0["k"] == "CXXMemberCallExpr" and (g.decl(x0) or {}).get("n") in ("end", "cend") and \
                        _is_list(g, member_call_object(x0), names, params):
                    return [e["op"] == "=="]
        if k in ("CallExpr", "CXXMemberCallExpr") and depth < 2:
            h = P.funcs.get((g.decl(e) or {}).get("u"))
            if h is not None and not h.dep and h.cfg() is not None:
                hp = [h.r["params"][i] for i, x in enumerate(call_args(e)) if i < len(h.r["params"]) and _is_list(g, x, names, params)]
                if hp:
                    return keep_in_empty_world(P, h, names, tuple(hp), depth + 1) or None
        return None
    track = {x.get("d") for x in g.nodes() if x["k"] == "VarDecl" and (g.unit.type((g.unit.decl(x.get("d")) or {}).get("t")) or {}).get("s") in ("bool", "_Bool")}
    return truth(World(g, atom).run_env(track))


def check_match(ctx, P):
    names = LISTS["fns"] + LISTS["vars"]
    n = 0
    for f in sorted(P.all_funcs(), key=lambda x: (x.file, x.l0)):
        if f.dep or f.cfg() is None or not f.q.startswith("abigail::") or f.n in names:
            continue
        if not any(_is_list(f, x, names) for x in f.nodes() if x["k"] in ("CXXMemberCallExpr", "MemberExpr")):
            continue
        if f.relfile.startswith("tools/"):
            continue
        good, bad = [], []
        _match_uses(P, f, names, (), good, bad, 0)
        if not good and not bad:
            continue                                   # only tests emptiness / passes the list on
        ctx.analysed(f)
        n += 1
        from rules.null_rules import short
        ctx.ob("R-USEDONLY/MATCH", "%s matches the kept ids by name and version" % short(f), not bad, f.loc(bad[0][1]) if bad else f.loc(),
               "get_name_and_version_from_id on the element (%d use(s))" % len(good) if not bad else
               "`%s`%s compares a kept id - the id string of an undefined symbol of the application - with get_id_string() of a "
               "symbol of the library: the strings differ whenever the library defines the symbol under a non-default version "
               "(`foo@V` vs `foo@@V`), so a used interface is dropped from the comparison" % (
                   expr_str(bad[0][0], bad[0][1])[:60], "" if bad[0][0] is f else " (in %s)" % bad[0][0].n))
    ctx.floor("R-USEDONLY/MATCH", "consumers of the keep-lists", n, 4)


def _match_uses(P, f, names, params, good, bad, depth):
    """classify the uses of the elements of a keep-list in f (and in helpers the list is handed to)"""
    linit = {x.get("d"): x["c"][0] for x in f.nodes() if x["k"] == "VarDecl" and x.get("c") and x["c"][0] is not None}
    elems = set()      # decl ids of variables that denote an element (range variable) or an iterator over the list
    for x in f.nodes():
        if x["k"] == "CXXForRangeStmt" and x.get("c") and _is_list(f, x["c"][0], names, params):
            elems.add(x.get("d"))
        if x["k"] == "VarDecl" and x.get("c") and x["c"][0] is not None:
            for y in walk(x["c"][0]):
                if y["k"] == "CXXMemberCallExpr" and (f.decl(y) or {}).get("n") in ("begin", "cbegin") and \
                        _is_list(f, member_call_object(y), names, params):
                    elems.add(x.get("d"))

    changed = True
    while changed:                      # `const string& id = *it;`
        changed = False
        for x in f.nodes():
            if x["k"] == "VarDecl" and x.get("d") not in elems and x.get("c") and x["c"][0] is not None and \
                    any(y["k"] == "DeclRefExpr" and y.get("d") in elems for y in walk(x["c"][0])):
                elems.add(x.get("d"))
                changed = True

    def is_elem(e):
        return any(y["k"] == "DeclRefExpr" and y.get("d") in elems for y in walk(e)) if e is not None else False

    def from_id_string(e, d=0):
        for y in walk(e):
            if y["k"] == "CXXMemberCallExpr" and (f.decl(y) or {}).get("n") == "get_id_string":
                return True
            if y["k"] == "DeclRefExpr" and y.get("d") in linit and d < 3 and y.get("d") not in elems and from_id_string(linit[y["d"]], d + 1):
                return True
        return False
    for x in f.nodes():
        k = x["k"]
        if k in ("CallExpr", "CXXMemberCallExpr"):
            nm = (f.decl(x) or {}).get("n")
            args = call_args(x)
            if nm == "get_name_and_version_from_id" and args and is_elem(args[0]):
                good.append((f, x))
            h = P.funcs.get((f.decl(x) or {}).get("u"))
            if h is not None and not h.dep and h.cfg() is not None and depth < 2:
                hp = tuple(h.r["params"][i] for i, a in enumerate(args) if i < len(h.r["params"]) and _is_list(f, a, names, params))
                if hp:
                    _match_uses(P, h, names, hp, good, bad, depth + 1)
        if k in ("CXXOperatorCallExpr", "BinaryOperator") and x.get("op") in ("==", "!="):
            a = call_args(x) if k == "CXXOperatorCallExpr" else x["c"]
            if len(a) == 2:
                for i in (0, 1):
                    s0 = strip_casts(a[i])
                    # an iterator compared with end() is not an element comparison
                    if is_elem(a[i]) and not any(y["k"] == "CXXMemberCallExpr" and (f.decl(y) or {}).get("n") in ("end", "cend") for y in walk(a[1 - i])) \
                            and from_id_string(a[1 - i]):
                        bad.append((f, x))


def _known_from_context(f, node):
    """condition texts known true at `node`: enclosing then-branches, and `!X.empty()` for an enclosing loop over X"""
    known = set()
    prev = node
    for a in f.ancestors(node):
        if a["k"] == "IfStmt" and a["c"][1] is not None and any(z["i"] == prev["i"] for z in walk(a["c"][1])):
            known.add(expr_str(f, a["c"][0]).replace(" ", ""))
        if a["k"] == "ForStmt" and a["c"][0] is not None:
            for x in walk(a["c"][0]):
                if x["k"] == "CXXMemberCallExpr" and (f.decl(x) or {}).get("n") in ("begin", "cbegin"):
                    known.add("!" + expr_str(f, member_call_object(x)).replace(" ", "") + ".empty()")
        prev = a
    return known


def _must_pass(f, start, pred, known):
    cfg = f.cfg()

    def disjuncts(c):
        c = strip_casts(c)
        if c is not None and c["k"] == "BinaryOperator" and c.get("op") == "||":
            return disjuncts(c["c"][0]) + disjuncts(c["c"][1])
        return [expr_str(f, c).replace(" ", "")] if c is not None else []
    w = cfg.where(start)
    if w is None:
        return False
    seen, stack = set(), [(w[0], w[1] + 1)]
    while stack:
        b, i = stack.pop()
        blk = cfg.blocks[b]
        if any(pred(e) for e in blk.elems[i:]):
            continue
        if b == cfg.exit:
            return False
        succs = [(idx, s_) for idx, s_ in enumerate(blk.succs) if s_ is not None and s_ in cfg.blocks]
        if cfg.branch(b) is not None:
            for c in cfg.branch_conds(b):
                if any(d in known for d in disjuncts(c)):
                    succs = [(idx, s_) for idx, s_ in succs if idx == 0]
        for idx, s_ in succs:
            if (s_, 0) not in seen:
                seen.add((s_, 0))
                stack.append((s_, 0))
    return True


def run(ctx):
    ctx.clause = ("abicompat feeds the libraries' keep-lists only from the application's undefined symbols, for both "
                  "library versions alike, applies them before comparing, and restricts each kind of interface even when "
                  "the application uses none of that kind")
    ctx.rules = ["R-USEDONLY/FEED", "R-USEDONLY/DROP", "R-USEDONLY/EMPTY", "R-USEDONLY/MATCH", "R-DERIVCACHE", "R-INVBREAK"]
    P = ctx.program(UNITS)
    from rules import derivcache_rule
    derivcache_rule.check(ctx, ctx.program(["src/abg-corpus.cc"]))
    # /MATCH matches the application's undefined symbols by (name, version): the version of an undefined symbol is what
    # get_version_needed_for_versym() finds by walking the Verneed / Vernaux records
    from rules import invbreak_rule
    PE = ctx.program(["src/abg-elf-helpers.cc"])
    k = invbreak_rule.check(ctx, PE, [f for f in PE.all_funcs() if f.relfile.endswith("src/abg-elf-helpers.cc")])
    ctx.floor("R-INVBREAK", "search loops (`if (..) break`) of the ELF helpers", k, 2)
    unit = P.units["tools/abicompat.cc"]
    fs = [f for f in unit.functions if f.n == "perform_compat_check_in_normal_mode" and not f.dep and f.cfg() is not None]
    if len(fs) != 1:
        raise AnalysisBroken("anchor vanished: abicompat perform_compat_check_in_normal_mode")
    f = fs[0]
    ctx.analysed(f)
    diffs = [n for n, d in f.calls() if d["n"] == "compute_diff"]
    if not diffs:
        raise AnalysisBroken("anchor vanished: compute_diff call in perform_compat_check_in_normal_mode")
    n_push = 0
    for kind, (getter, undef, keepfn) in sorted(KINDS.items()):
        pushes = []
        for n in f.nodes():
            if n["k"] == "CXXMemberCallExpr" and (f.decl(n) or {}).get("n") in ("push_back", "insert", "emplace_back"):
                o = strip_casts(member_call_object(n))
                if o is not None and o["k"] == "CXXMemberCallExpr" and (f.decl(o) or {}).get("n") == getter:
                    pushes.append((n, expr_str(f, member_call_object(o))))
        n_push += len(pushes)
        libs = sorted({l for _, l in pushes})
        # FEED: inside a loop over the app's undefined symbols of that kind
        for n, lib in pushes:
            loop_ok = False
            for a in f.ancestors(n):
                if a["k"] == "ForStmt" and a["c"][0] is not None and any(
                        x["k"] == "CXXMemberCallExpr" and (f.decl(x) or {}).get("n") == undef for x in walk(a["c"][0])):
                    loop_ok = True
            ctx.ob("R-USEDONLY/FEED", "abicompat: %s.%s() is fed from the application's %s()" % (lib, getter, undef), loop_ok,
                   f.loc(n), "pushed inside the loop over app_corpus->%s()" % undef if loop_ok else
                   "an id enters the keep-list from somewhere else than the application's undefined symbols")
        ctx.ob("R-USEDONLY/FEED", "abicompat: the %s keep-list is fed for both library versions" % kind, len(libs) == 2, f.loc(),
               "lists fed: %s" % libs)
        # DROP
        for n, lib in pushes:
            known = _known_from_context(f, n)
            ok = _must_pass(f, n, lambda e, lib=lib: e["k"] == "CXXMemberCallExpr" and
                            (f.decl(e) or {}).get("n") == "maybe_drop_some_exported_decls" and
                            expr_str(f, member_call_object(e)) == lib, known)
            ctx.ob("R-USEDONLY/DROP", "abicompat: after feeding %s.%s() the list is applied before compute_diff" % (lib, getter),
                   ok, f.loc(n), "every feasible path reaches %s->maybe_drop_some_exported_decls()" % lib if ok else
                   "a path from the store reaches the comparison without %s->maybe_drop_some_exported_decls(): interfaces the "
                   "application does not use are compared" % lib)
        # EMPTY: interpret the filter in the world where the keep-list is empty and the declaration has a symbol
        ks = [g for g in P.all_funcs() if g.n == keepfn and not g.dep and g.cfg() is not None]
        if len(ks) != 1:
            raise AnalysisBroken("anchor vanished: exported_decls_builder::priv::%s" % keepfn)
        g = ks[0]
        ctx.analysed(g)
        vals = keep_in_empty_world(P, g, LISTS[kind])
        empty_means_all = vals != frozenset([False])
        guaranteed = False      # abicompat gives no guarantee that the list is non-empty: the loops may not iterate
        ctx.ob("R-USEDONLY/EMPTY", "abicompat: an application using no %s of the library is compared on none of them" % (
            "function" if kind == "fns" else "variable"), not empty_means_all or guaranteed, g.loc(),
            "with an empty keep-list %s() answers false" % keepfn if not empty_means_all else
            "%s() reads an empty keep-list as `no restriction` and abicompat fills the list only from the application's "
            "undefined %s symbols: when the application uses none, every %s of the library is compared and a change to an "
            "unused one alters the verdict" % (keepfn, "function" if kind == "fns" else "variable",
                                               "function" if kind == "fns" else "variable"))
    check_match(ctx, P)
    ctx.floor("R-USEDONLY/FEED", "stores into the keep-lists", n_push, 4)
    ctx.assume("which library interfaces the application's undefined symbols resolve to, and weak mode's type comparison, "
               "are runtime behaviour")
