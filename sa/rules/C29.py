"""C29 - abicompat judges only the interfaces the application uses: R-USEDONLY.

perform_compat_check_in_normal_mode restricts the two library corpora to "the functions and variables which symbols
are those undefined in the app" through the corpora's keep-lists and corpus::maybe_drop_some_exported_decls().
  /FEED   every id pushed into a get_sym_ids_of_{fns,vars}_to_keep() list comes from iterating the application's
          undefined {function,variable} symbols, and is pushed for both library versions (twin stores);
  /DROP   from every such store, every feasible path to compute_diff() passes maybe_drop_some_exported_decls() on both
          library corpora (the condition guarding the calls is implied by the loop the store sits in);
  /EMPTY  for each kind, an application that uses *no* interface of that kind must still be restricted to none of them:
          the filter exported_decls_builder::priv::keep_wrt_id_of_{fns,vars}_to_keep must not read an empty keep-list as
          "keep everything" (or abicompat must guarantee a non-empty list).
"""
from engine.cfg import strip_casts
from engine.facts import walk, call_args, member_call_object, expr_str
from engine.compdb import AnalysisBroken

UNITS = ["tools/abicompat.cc", "src/abg-corpus.cc"]
KINDS = {"fns": ("get_sym_ids_of_fns_to_keep", "get_sorted_undefined_fun_symbols", "keep_wrt_id_of_fns_to_keep"),
         "vars": ("get_sym_ids_of_vars_to_keep", "get_sorted_undefined_var_symbols", "keep_wrt_id_of_vars_to_keep")}


def _known_from_context(f, node):
    """condition texts known true at `node`: enclosing then-branches, and `!X.empty()` for an enclosing loop over X"""
    known = set()
    prev = node
    for a in f.ancestors(node):
        if a["k"] == "IfStmt" and a["c"][1] is not None and any(z["i"] == prev["i"] for z in walk(a["c"][1])):
            known.add(expr_str(f, a["c"][0]).replace(" ", ""))
        if a["k"] == "ForStmt" and a["c"][0] is not None:
            for x in walk(a["c"][0]):
                if x["k"] == "CXXMemberCallExpr" and (f.decl(x) or {}).get("n") in ("begin", "cbegin"):
                    known.add("!" + expr_str(f, member_call_object(x)).replace(" ", "") + ".empty()")
        prev = a
    return known


def _must_pass(f, start, pred, known):
    cfg = f.cfg()

    def disjuncts(c):
        c = strip_casts(c)
        if c is not None and c["k"] == "BinaryOperator" and c.get("op") == "||":
            return disjuncts(c["c"][0]) + disjuncts(c["c"][1])
        return [expr_str(f, c).replace(" ", "")] if c is not None else []
    w = cfg.where(start)
    if w is None:
        return False
    seen, stack = set(), [(w[0], w[1] + 1)]
    while stack:
        b, i = stack.pop()
        blk = cfg.blocks[b]
        if any(pred(e) for e in blk.elems[i:]):
            continue
        if b == cfg.exit:
            return False
        succs = [(idx, s_) for idx, s_ in enumerate(blk.succs) if s_ is not None and s_ in cfg.blocks]
        if cfg.branch(b) is not None:
            for c in cfg.branch_conds(b):
                if any(d in known for d in disjuncts(c)):
                    succs = [(idx, s_) for idx, s_ in succs if idx == 0]
        for idx, s_ in succs:
            if (s_, 0) not in seen:
                seen.add((s_, 0))
                stack.append((s_, 0))
    return True


def run(ctx):
    ctx.clause = ("abicompat feeds the libraries' keep-lists only from the application's undefined symbols, for both "
                  "library versions alike, applies them before comparing, and restricts each kind of interface even when "
                  "the application uses none of that kind")
    ctx.rules = ["R-USEDONLY/FEED", "R-USEDONLY/DROP", "R-USEDONLY/EMPTY"]
    P = ctx.program(UNITS)
    unit = P.units["tools/abicompat.cc"]
    fs = [f for f in unit.functions if f.n == "perform_compat_check_in_normal_mode" and not f.dep and f.cfg() is not None]
    if len(fs) != 1:
        raise AnalysisBroken("anchor vanished: abicompat perform_compat_check_in_normal_mode")
    f = fs[0]
    ctx.analysed(f)
    diffs = [n for n, d in f.calls() if d["n"] == "compute_diff"]
    if not diffs:
        raise AnalysisBroken("anchor vanished: compute_diff call in perform_compat_check_in_normal_mode")
    n_push = 0
    for kind, (getter, undef, keepfn) in sorted(KINDS.items()):
        pushes = []
        for n in f.nodes():
            if n["k"] == "CXXMemberCallExpr" and (f.decl(n) or {}).get("n") in ("push_back", "insert", "emplace_back"):
                o = strip_casts(member_call_object(n))
                if o is not None and o["k"] == "CXXMemberCallExpr" and (f.decl(o) or {}).get("n") == getter:
                    pushes.append((n, expr_str(f, member_call_object(o))))
        n_push += len(pushes)
        libs = sorted({l for _, l in pushes})
        # FEED: inside a loop over the app's undefined symbols of that kind
        for n, lib in pushes:
            loop_ok = False
            for a in f.ancestors(n):
                if a["k"] == "ForStmt" and a["c"][0] is not None and any(
                        x["k"] == "CXXMemberCallExpr" and (f.decl(x) or {}).get("n") == undef for x in walk(a["c"][0])):
                    loop_ok = True
            ctx.ob("R-USEDONLY/FEED", "abicompat: %s.%s() is fed from the application's %s()" % (lib, getter, undef), loop_ok,
                   f.loc(n), "pushed inside the loop over app_corpus->%s()" % undef if loop_ok else
                   "an id enters the keep-list from somewhere else than the application's undefined symbols")
        ctx.ob("R-USEDONLY/FEED", "abicompat: the %s keep-list is fed for both library versions" % kind, len(libs) == 2, f.loc(),
               "lists fed: %s" % libs)
        # DROP
        for n, lib in pushes:
            known = _known_from_context(f, n)
            ok = _must_pass(f, n, lambda e, lib=lib: e["k"] == "CXXMemberCallExpr" and
                            (f.decl(e) or {}).get("n") == "maybe_drop_some_exported_decls" and
                            expr_str(f, member_call_object(e)) == lib, known)
            ctx.ob("R-USEDONLY/DROP", "abicompat: after feeding %s.%s() the list is applied before compute_diff" % (lib, getter),
                   ok, f.loc(n), "every feasible path reaches %s->maybe_drop_some_exported_decls()" % lib if ok else
                   "a path from the store reaches the comparison without %s->maybe_drop_some_exported_decls(): interfaces the "
                   "application does not use are compared" % lib)
        # EMPTY
        ks = [g for g in P.all_funcs() if g.n == keepfn and not g.dep and g.cfg() is not None]
        if len(ks) != 1:
            raise AnalysisBroken("anchor vanished: exported_decls_builder::priv::%s" % keepfn)
        g = ks[0]
        ctx.analysed(g)
        # `keep` starts true and is only cleared under `!list.empty()`: an empty list keeps everything
        empty_means_all = False
        for v in g.nodes():
            if v["k"] == "VarDecl" and v.get("c") and strip_casts(v["c"][0]) is not None and \
                    strip_casts(v["c"][0])["k"] == "CXXBoolLiteralExpr" and strip_casts(v["c"][0]).get("v") == 1:
                kd = v.get("d")
                clears = [a for a in g.nodes() if a["k"] == "BinaryOperator" and a.get("op") == "=" and
                          (strip_casts(a["c"][0]) or {}).get("d") == kd and
                          (strip_casts(a["c"][1]) or {}).get("k") == "CXXBoolLiteralExpr" and strip_casts(a["c"][1]).get("v") == 0]
                guarded = [a for a in clears if any(
                    anc["k"] == "IfStmt" and ".empty()" in expr_str(g, anc["c"][0]) and expr_str(g, anc["c"][0]).strip().startswith("!")
                    for anc in g.ancestors(a))]
                if guarded:
                    empty_means_all = True
        guaranteed = False      # abicompat gives no guarantee that the list is non-empty: the loops may not iterate
        ctx.ob("R-USEDONLY/EMPTY", "abicompat: an application using no %s of the library is compared on none of them" % (
            "function" if kind == "fns" else "variable"), not empty_means_all or guaranteed, g.loc(),
            "an empty keep-list keeps nothing" if not empty_means_all else
            "%s() reads an empty keep-list as `no restriction` and abicompat fills the list only from the application's "
            "undefined %s symbols: when the application uses none, every %s of the library is compared and a change to an "
            "unused one alters the verdict" % (keepfn, "function" if kind == "fns" else "variable",
                                               "function" if kind == "fns" else "variable"))
    ctx.floor("R-USEDONLY/FEED", "stores into the keep-lists", n_push, 4)
    ctx.assume("which library interfaces the application's undefined symbols resolve to, and weak mode's type comparison, "
               "are runtime behaviour")
