"""R-BINGATE: a suppression that names a binary (file_name_* or soname_* properties) never applies to other binaries.

The five predicates type_suppression::suppresses_type, function_suppression::suppresses_function /
suppresses_function_symbol and variable_suppression::suppresses_variable / suppresses_variable_symbol start with a
gate over four questions: does the section carry a file-name property, do the names of the binaries match it, does
it carry a SONAME property, do the SONAMEs match.  Finite-world interpretation of each predicate (and of the
helpers it delegates to, by interpreting their bodies under the same world): in every world where a carried
property does not match - (file-name property, names do not match) or (SONAME property, SONAMEs do not match) -
*every* path through the predicate returns false.  Conditions over anything else are explored both ways.
"""
from engine.cfg import strip_casts
from engine.facts import walk, call_args, member_call_object, expr_str
from engine.compdb import AnalysisBroken
from rules.null_rules import short

ATOMS = {"has_file_name_related_property": "hasF", "names_of_binaries_match": "matchF",
         "has_soname_related_property": "hasS", "sonames_of_binaries_match": "matchS"}
PREDICATES = [("abigail::suppr::type_suppression::suppresses_type", 2),
              ("abigail::suppr::function_suppression::suppresses_function", 3),
              ("abigail::suppr::function_suppression::suppresses_function_symbol", 3),
              ("abigail::suppr::variable_suppression::suppresses_variable", 3),
              ("abigail::suppr::variable_suppression::suppresses_variable_symbol", 3)]
BAD_WORLDS = [("a file-name property that does not match the binaries", {"hasF": True, "matchF": False, "hasS": True, "matchS": True}),
              ("a file-name property that does not match (no SONAME property)", {"hasF": True, "matchF": False, "hasS": False, "matchS": False}),
              ("a SONAME property that does not match the binaries", {"hasF": True, "matchF": True, "hasS": True, "matchS": False}),
              ("a SONAME property that does not match (no file-name property)", {"hasF": False, "matchF": False, "hasS": True, "matchS": False})]


class Interp(object):
    def __init__(self, P):
        self.P = P
        self.memo = {}

    def ev(self, f, e, w, depth):
        """set of possible truth values of expression e in world w"""
        e = strip_casts(e)
        if e is None:
            return {True, False}
        k = e["k"]
        if k == "CXXBoolLiteralExpr":
            return {bool(e.get("v"))}
        if k in ("UnaryOperator", "CXXOperatorCallExpr") and e.get("op") == "!":
            return {not v for v in self.ev(f, e["c"][-1], w, depth)}
        if k == "BinaryOperator" and e.get("op") in ("&&", "||"):
            a, b = self.ev(f, e["c"][0], w, depth), self.ev(f, e["c"][1], w, depth)
            out = set()
            for x in a:
                if e["op"] == "&&":
                    out |= {False} if not x else set(b)
                else:
                    out |= {True} if x else set(b)
            return out
        if k in ("ParenExpr", "ExprWithCleanups", "ImplicitCastExpr", "MaterializeTemporaryExpr", "CXXBindTemporaryExpr") and e.get("c"):
            return self.ev(f, e["c"][0], w, depth)
        if k in ("CallExpr", "CXXMemberCallExpr"):
            d = f.decl(e) or {}
            if k == "CXXMemberCallExpr" and d.get("n", "").startswith("operator bool"):
                o = strip_casts(member_call_object(e))
                if o is not None and o["k"] == "DeclRefExpr" and (f.decl(o) or {}).get("n") == "ctxt":
                    return {True}        # the gate is about comparisons that have a context
            if d.get("n") in ATOMS:
                return {w[ATOMS[d["n"]]]}
            g = self.P.funcs.get(d.get("u"))
            if g is not None and not g.dep and g.cfg() is not None and depth < 3 and g.q.startswith("abigail::suppr::") and \
                    any((g.decl(x) or {}).get("n") in ATOMS for x in g.nodes() if x["k"] in ("CallExpr", "CXXMemberCallExpr")):
                return self.run(g, w, depth + 1)
            return {True, False}
        if k == "DeclRefExpr" and (f.decl(e) or {}).get("n") == "ctxt":
            return {True}            # the gate is about comparisons that have a context
        if k == "CXXMemberCallExpr" or k == "DeclRefExpr":
            return {True, False}
        return {True, False}

    def run(self, f, w, depth=0):
        """possible return values of f in world w: path-sensitive interpretation (rules/world.py) that follows the boolean
        locals of f, with the four questions fixed by the world and helpers of the suppr namespace interpreted in turn"""
        from rules.world import World, ANY
        key = (f.u, tuple(sorted(w.items())))
        if key in self.memo:
            return self.memo[key]
        self.memo[key] = {True, False}      # recursion guard

        def atom(e):
            k = e["k"]
            if k in ("CallExpr", "CXXMemberCallExpr"):
                d = f.decl(e) or {}
                if d.get("n") in ATOMS:
                    return [w[ATOMS[d["n"]]]]
                g = self.P.funcs.get(d.get("u"))
                if g is not None and g.u != f.u and not g.dep and g.cfg() is not None and depth < 3 and g.q.startswith("abigail::suppr::") and \
                        any((g.decl(x) or {}).get("n") in ATOMS for x in g.nodes() if x["k"] in ("CallExpr", "CXXMemberCallExpr")):
                    return sorted(self.run(g, w, depth + 1))
            if k == "DeclRefExpr" and (f.decl(e) or {}).get("n") == "ctxt":
                return [True]            # the gate is about comparisons that have a context
            return None
        track = {x.get("d") for x in f.nodes() if x["k"] == "VarDecl" and (f.type(x) or {}).get("c", "").replace("const ", "") in ("bool", "_Bool")}
        rets = World(f, atom).run_env(track)
        out = set()
        for v in rets:
            out |= {True, False} if v == ANY else {bool(v)}
        self.memo[key] = out or {True, False}
        return self.memo[key]


def check(ctx, P, rule="R-BINGATE"):
    I = Interp(P)
    n = 0
    for q, nparams in PREDICATES:
        fs = [f for f in P.fn(q) if not f.dep and f.cfg() is not None and len(f.r["params"]) == nparams and
              any((f.decl(x) or {}).get("n") in ATOMS or
                  ((P.funcs.get((f.decl(x) or {}).get("u")) is not None) and (f.decl(x) or {}).get("n", "").endswith("binaries_match"))
                  for x in f.nodes() if x["k"] in ("CallExpr", "CXXMemberCallExpr"))]
        if len(fs) != 1:
            # pick the overload that takes the raw pointer / reference and evaluates the gate
            fs = [f for f in P.fn(q) if not f.dep and f.cfg() is not None and
                  any((f.decl(x) or {}).get("n") in ATOMS for x in walk(f.body) if x["k"] in ("CallExpr", "CXXMemberCallExpr"))]
        if not fs:
            raise AnalysisBroken("anchor vanished: %s no longer evaluates the binary-name gate (directly)" % q)
        f = fs[0]
        ctx.analysed(f)
        for what, w in BAD_WORLDS:
            n += 1
            vals = I.run(f, w)
            ok = vals == {False}
            ctx.ob(rule, "%s rejects a section with %s" % (short(f), what), ok, f.loc(),
                   "every path returns false in that world" if ok else
                   "with %s the predicate can still answer %s: a section written for another binary is applied to this "
                   "comparison" % (what, sorted(vals - {False})))
    ctx.floor(rule, "(predicate, world) pairs", n, 20)
