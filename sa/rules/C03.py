"""C03 - re-serialisation is a fixpoint (flush and vocabulary clauses)."""
from rules import write_rules as wr
from rules import vocab_rules as vr


def run(ctx):
    ctx.clause = ("a temporary ABIXML file is flushed before it is re-read by path (abilint --diff, abidw --abidiff), "
                  "and nothing the writer emits is unknown to the reader (a writer-only name cannot survive "
                  "read+write)")
    ctx.rules = ["R-FLUSH", "R-VOCAB", "R-ENUMTAB", "R-ALIASFIFO", "R-SETKEY"]
    P = ctx.program(["tools/abidw.cc", "tools/abilint.cc"] + vr.UNITS)
    wr.check_flush(ctx, P)
    vr.check_vocab(ctx, P)
    vr.check_enumtab(ctx, P)
    check_aliasfifo(ctx)
    check_setkey(ctx)
    ctx.assume("byte equality of the rest of the document (ordering, ids) is runtime behaviour; the iteration-order "
               "clause is decided under C14")



def check_setkey(ctx, rule="R-SETKEY"):
    """R-SETKEY: the order in which the writer emits what it finds in an ordered container (the translation units of a
    corpus: std::set<translation_unit_sptr, shared_translation_unit_comp>) is the order of the keys *at insertion
    time*.  The ABIXML reader inserts a unit and completes it afterwards; the DWARF reader completes it first.  Both give
    the same document only because the key is computed once and kept: for every comparator functor of this repository
    that orders a std::set / std::map by a getter whose result is a cached field (`if (cache.empty()) cache = ...;
    return cache;`), nothing but that getter (and constructors) writes the cache.  A setter that resets it changes the
    key of an element that is already in the tree: later insertions land in the wrong place, and read+write re-orders
    the units."""
    from engine.facts import walk, call_args, member_call_object, expr_str
    from engine.cfg import strip_casts
    from engine.compdb import AnalysisBroken
    P = ctx.program(["src/abg-ir.cc", "src/abg-corpus.cc", "src/abg-reader.cc", "src/abg-writer.cc", "src/abg-dwarf-reader.cc"])
    comps = {}
    for f in P.all_funcs():
        if f.n != "operator()" or f.dep or not f.cls or not f.cls.startswith("abigail::") or len(f.r["params"]) != 2:
            continue
        short_cls = f.cls.split("::")[-1]
        used = any(("std::set<" in (t.get("c") or "") or "std::map<" in (t.get("c") or "") or "std::multiset<" in (t.get("c") or ""))
                   and short_cls in (t.get("c") or "") for u in (P.units.values() if isinstance(P.units, dict) else P.units) for t in u.types)
        if used:
            comps.setdefault(f.cls, f)
    if "abigail::ir::shared_translation_unit_comp" not in comps:
        raise AnalysisBroken("anchor vanished: shared_translation_unit_comp is no longer the ordering of a std::set")
    n = 0
    for cls, f in sorted(comps.items()):
        getters = {}
        for x in f.nodes():
            if x["k"] == "CXXMemberCallExpr" and not call_args(x):
                g = P.funcs.get((f.decl(x) or {}).get("u"))
                if g is not None and not g.dep and any(y["k"] == "DeclRefExpr" and y.get("d") in f.r["params"] for y in walk(x)):
                    getters[g.u] = g
        for g in sorted(getters.values(), key=lambda z: z.q):
            rets = [r for r in g.nodes() if r["k"] == "ReturnStmt" and r.get("c") and r["c"][0] is not None]
            fields = set()
            for r in rets:
                e = strip_casts(r["c"][0])
                while e is not None and e["k"] in ("CXXConstructExpr", "ExprWithCleanups", "MaterializeTemporaryExpr") and len(e.get("c", [])) == 1:
                    e = strip_casts(e["c"][0])
                if e is not None and e["k"] == "MemberExpr" and (g.decl(e) or {}).get("k") == "Field":
                    fields.add(g.decl(e)["q"])
                else:
                    fields.add(None)
            # a cache: the getter itself stores into the field it returns
            if None in fields or len(fields) != 1:
                ctx.note("%s: %s orders by %s(), which returns a computed value: not decided" % (rule, cls.split("::")[-1], g.q))
                continue
            fq = next(iter(fields))
            self_writes = [x for x in _writes_of(P, g, fq)]
            if not self_writes:
                ctx.note("%s: %s orders by %s(), a plain field getter (%s): not a cached key, not decided" % (rule, cls.split("::")[-1], g.q, fq))
                continue
            n += 1
            ctx.analysed(f)
            ctx.analysed(g)
            bad = []
            for h in P.all_funcs():
                if h.dep or h.u == g.u:
                    continue
                if h.cls and h.n == h.cls.split("::")[-1]:
                    continue                                   # constructors
                for w in _writes_of(P, h, fq):
                    bad.append((h, w))
            ctx.ob(rule, "%s: the cached key %s is written by %s() only" % (cls.split("::")[-1], fq.split("::")[-1], g.n),
                   not bad, bad[0][0].loc(bad[0][1]) if bad else g.loc(),
                   "std::set / std::map ordered by %s(); the cache is filled there and nowhere reset" % g.q if not bad else
                   "%s writes %s: the key of an element that already sits in a container ordered by %s changes under the "
                   "container's feet (the ABIXML reader adds a unit before it completes it), later insertions are misplaced "
                   "and the document is re-ordered by read+write" % (bad[0][0].q, fq.split("::")[-1], cls.split("::")[-1]))
    ctx.floor(rule, "cached ordering keys of std::set / std::map comparators", n, 1)


def _writes_of(P, h, fq):
    """nodes of function h that write field fq: assignments, compound assignments, non-const member calls on it"""
    from engine.facts import walk, call_args, member_call_object
    from engine.cfg import strip_casts
    out = []
    for x in h.nodes():
        k = x["k"]
        tgt = None
        if k in ("BinaryOperator", "CompoundAssignOperator") and (x.get("op") or "").endswith("=") and x.get("op") not in ("==", "!=", "<=", ">="):
            tgt = x["c"][0]
        elif k == "CXXOperatorCallExpr" and (x.get("op") or "").endswith("=") and x.get("op") not in ("==", "!=", "<=", ">="):
            a = call_args(x)
            tgt = a[0] if a else None
        elif k == "CXXMemberCallExpr" and not (h.decl(x) or {}).get("const"):
            tgt = member_call_object(x)
        t = strip_casts(tgt) if tgt is not None else None
        if t is not None and t["k"] == "MemberExpr" and (h.decl(t) or {}).get("q") == fq:
            out.append(x)
    return out


def check_aliasfifo(ctx):
    """R-ALIASFIFO: the writer lists the aliases of a symbol in ring order (`alias='a,b,c'`) and the reader rebuilds the
    ring by calling elf_symbol::add_alias() from left to right; the order survives read+write only if add_alias()
    *appends*: the new alias's successor is the main symbol, and it is linked after the element that used to close
    the ring.  Shape rule on add_alias: every store into <parameter>->priv_->next_alias_ has the main symbol as its
    value (get_main_symbol() or a local / this that denotes it), never another alias."""
    from engine.facts import walk, call_args, member_call_object, expr_str
    from engine.cfg import strip_casts
    from engine.compdb import AnalysisBroken
    P = ctx.program(["src/abg-ir.cc"])
    f = P.fn1("abigail::ir::elf_symbol::add_alias")
    ctx.analysed(f)
    param = f.r["params"][0]
    main_locals = set()
    for n in f.nodes():
        if n["k"] == "VarDecl" and n.get("c") and n["c"][0] is not None:
            e = strip_casts(n["c"][0])
            while e is not None and e["k"] in ("CXXConstructExpr", "ExprWithCleanups", "CXXBindTemporaryExpr",
                                               "MaterializeTemporaryExpr") and len(call_args(e) or e.get("c", [])) == 1:
                e = strip_casts((call_args(e) or e["c"])[0])
            if e is not None and e["k"] == "CXXMemberCallExpr" and (f.decl(e) or {}).get("n") == "get_main_symbol":
                main_locals.add(n.get("d"))

    def is_main(e):
        e = strip_casts(e)
        while e is not None and e["k"] in ("CXXConstructExpr", "ExprWithCleanups", "CXXBindTemporaryExpr",
                                           "MaterializeTemporaryExpr", "ImplicitCastExpr") and len(call_args(e) or e.get("c", [])) == 1:
            e = strip_casts((call_args(e) or e["c"])[0])
        if e is None:
            return False
        if e["k"] == "CXXMemberCallExpr" and (f.decl(e) or {}).get("n") == "get_main_symbol":
            return True
        return e["k"] == "DeclRefExpr" and e.get("d") in main_locals
    stores = []
    for n in f.nodes():
        if n["k"] in ("BinaryOperator", "CXXOperatorCallExpr") and n.get("op") == "=":
            lhs, rhs = (call_args(n)[0], call_args(n)[1]) if n["k"] == "CXXOperatorCallExpr" else (n["c"][0], n["c"][1])
            l = strip_casts(lhs)
            if l is not None and l["k"] == "MemberExpr" and (f.decl(l) or {}).get("n") == "next_alias_" and \
                    any(x["k"] == "DeclRefExpr" and x.get("d") == param for x in walk(l)):
                stores.append((n, rhs))
    if not stores:
        raise AnalysisBroken("anchor vanished: no store into alias->priv_->next_alias_ in elf_symbol::add_alias")
    for i, (n, rhs) in enumerate(stores):
        ok = is_main(rhs)
        ctx.ob("R-ALIASFIFO", "elf_symbol::add_alias: the new alias closes the ring (its successor is the main symbol)%s" % (
            "" if i == 0 else " #%d" % (i + 1)), ok, f.loc(n),
            "`%s`" % expr_str(f, n)[:80] if ok else
            "`%s`: the new alias is linked in front of existing aliases; the reader, which re-adds the aliases in the order "
            "they are written, then reverses the list on every read+write - abilint is not a fixpoint for symbols with two "
            "or more aliases" % expr_str(f, n)[:90])
