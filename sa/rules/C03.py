"""C03 - re-serialisation is a fixpoint (flush and vocabulary clauses)."""
from rules import write_rules as wr
from rules import vocab_rules as vr


def run(ctx):
    ctx.clause = ("a temporary ABIXML file is flushed before it is re-read by path (abilint --diff, abidw --abidiff), "
                  "and nothing the writer emits is unknown to the reader (a writer-only name cannot survive "
                  "read+write)")
    ctx.rules = ["R-FLUSH", "R-VOCAB", "R-ENUMTAB"]
    P = ctx.program(["tools/abidw.cc", "tools/abilint.cc"] + vr.UNITS)
    wr.check_flush(ctx, P)
    vr.check_vocab(ctx, P)
    vr.check_enumtab(ctx, P)
    ctx.assume("byte equality of the rest of the document (ordering, ids) is runtime behaviour; the iteration-order "
               "clause is decided under C14")
