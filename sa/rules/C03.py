"""C03 - re-serialisation is a fixpoint (flush and vocabulary clauses)."""
from rules import write_rules as wr
from rules import vocab_rules as vr


def run(ctx):
    ctx.clause = ("a temporary ABIXML file is flushed before it is re-read by path (abilint --diff, abidw --abidiff), "
                  "and nothing the writer emits is unknown to the reader (a writer-only name cannot survive "
                  "read+write)")
    ctx.rules = ["R-FLUSH", "R-VOCAB", "R-ENUMTAB", "R-ALIASFIFO"]
    P = ctx.program(["tools/abidw.cc", "tools/abilint.cc"] + vr.UNITS)
    wr.check_flush(ctx, P)
    vr.check_vocab(ctx, P)
    vr.check_enumtab(ctx, P)
    check_aliasfifo(ctx)
    ctx.assume("byte equality of the rest of the document (ordering, ids) is runtime behaviour; the iteration-order "
               "clause is decided under C14")



def check_aliasfifo(ctx):
    """R-ALIASFIFO: the writer lists the aliases of a symbol in ring order (`alias='a,b,c'`) and the reader rebuilds the
    ring by calling elf_symbol::add_alias() from left to right; the order survives read+write only if add_alias()
    *appends*: the new alias's successor is the main symbol, and it is linked after the element that used to close
    the ring.  Shape rule on add_alias: every store into <parameter>->priv_->next_alias_ has the main symbol as its
    value (get_main_symbol() or a local / this that denotes it), never another alias."""
    from engine.facts import walk, call_args, member_call_object, expr_str
    from engine.cfg import strip_casts
    from engine.compdb import AnalysisBroken
    P = ctx.program(["src/abg-ir.cc"])
    f = P.fn1("abigail::ir::elf_symbol::add_alias")
    ctx.analysed(f)
    param = f.r["params"][0]
    main_locals = set()
    for n in f.nodes():
        if n["k"] == "VarDecl" and n.get("c") and n["c"][0] is not None:
            e = strip_casts(n["c"][0])
            while e is not None and e["k"] in ("CXXConstructExpr", "ExprWithCleanups", "CXXBindTemporaryExpr",
                                               "MaterializeTemporaryExpr") and len(call_args(e) or e.get("c", [])) == 1:
                e = strip_casts((call_args(e) or e["c"])[0])
            if e is not None and e["k"] == "CXXMemberCallExpr" and (f.decl(e) or {}).get("n") == "get_main_symbol":
                main_locals.add(n.get("d"))

    def is_main(e):
        e = strip_casts(e)
        while e is not None and e["k"] in ("CXXConstructExpr", "ExprWithCleanups", "CXXBindTemporaryExpr",
                                           "MaterializeTemporaryExpr", "ImplicitCastExpr") and len(call_args(e) or e.get("c", [])) == 1:
            e = strip_casts((call_args(e) or e["c"])[0])
        if e is None:
            return False
        if e["k"] == "CXXMemberCallExpr" and (f.decl(e) or {}).get("n") == "get_main_symbol":
            return True
        return e["k"] == "DeclRefExpr" and e.get("d") in main_locals
    stores = []
    for n in f.nodes():
        if n["k"] in ("BinaryOperator", "CXXOperatorCallExpr") and n.get("op") == "=":
            lhs, rhs = (call_args(n)[0], call_args(n)[1]) if n["k"] == "CXXOperatorCallExpr" else (n["c"][0], n["c"][1])
            l = strip_casts(lhs)
            if l is not None and l["k"] == "MemberExpr" and (f.decl(l) or {}).get("n") == "next_alias_" and \
                    any(x["k"] == "DeclRefExpr" and x.get("d") == param for x in walk(l)):
                stores.append((n, rhs))
    if not stores:
        raise AnalysisBroken("anchor vanished: no store into alias->priv_->next_alias_ in elf_symbol::add_alias")
    for i, (n, rhs) in enumerate(stores):
        ok = is_main(rhs)
        ctx.ob("R-ALIASFIFO", "elf_symbol::add_alias: the new alias closes the ring (its successor is the main symbol)%s" % (
            "" if i == 0 else " #%d" % (i + 1)), ok, f.loc(n),
            "`%s`" % expr_str(f, n)[:80] if ok else
            "`%s`: the new alias is linked in front of existing aliases; the reader, which re-adds the aliases in the order "
            "they are written, then reverses the list on every read+write - abilint is not a fixpoint for symbols with two "
            "or more aliases" % expr_str(f, n)[:90])
