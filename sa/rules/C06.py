"""C06 - ABI-neutral edits are never reported: R-NOLOC (source-location clause)."""
import json
import os
from rules import reach_rules as rr

TABLES = os.path.join(os.path.dirname(os.path.dirname(os.path.abspath(__file__))), "tables")


def run(ctx):
    ctx.clause = ("in everything reachable from equality, hashing, canonicalisation and diffing a source location is "
                  "only ever copied, never compared, branched on, ordered or hashed (one listed kernel-only exception)")
    ctx.rules = ["R-NOLOC", "R-LOOPMEMO", "R-NOPARMNAME", "R-DECLORDER"]
    with open(os.path.join(TABLES, "noloc_exceptions.json")) as fh:
        exc = json.load(fh)["deciding_readers"]
    P = ctx.program(None)
    rr.check_noloc(ctx, P, exc)
    # moving a definition to another file reorders translation units and hash maps: nothing computed for one element
    # of a loop may be reused for the next (loop-local memoisation flags)
    from rules import memokey_rule
    k = memokey_rule.check_loopmemo(ctx, P, [f for f in P.all_funcs() if f.relfile.startswith("src/")])
    ctx.note("R-LOOPMEMO: %d flag-guarded computation(s) inside loops in the library" % k)
    check_noparmname(ctx, P)
    check_declorder(ctx, P)
    ctx.assume("other neutral edits (translation-unit layout, declaration order, DIE de-duplication) are runtime "
               "behaviour and are not decided")



# sequences of a class that are kept in *declaration* order and hold entities that have no place in the layout: walking two
# of them in lock-step makes the verdict depend on where a declaration was written
DECL_ORDER_ONLY = {
    "get_data_members": "non-static members followed / interleaved with static ones, in the order they were declared; a "
                        "static data member takes no part in the layout",
    "get_member_functions": "declaration order; DWARF does not even list all of them in every unit",
    "get_member_types": "declaration order of nested types",
    "get_member_decls": "every member declaration, in source order",
}


def check_declorder(ctx, P):
    """R-DECLORDER: moving a declaration inside a class is ABI neutral unless it moves a non-static data member, a base or
    a virtual function.  The structural comparisons ir::equals(class_or_union / class_decl / union_decl) walk pairs of
    member sequences in lock-step; no such walk is over a sequence of DECL_ORDER_ONLY (a table with its reasons): two
    iterators initialised from `l.X()` and `r.X()` and advanced together, with X kept in declaration order."""
    from engine.facts import walk, call_args, member_call_object, expr_str
    from engine.cfg import strip_casts
    from engine.compdb import AnalysisBroken
    fs = [f for f in P.fn("abigail::ir::equals") if not f.dep and f.cfg() is not None and
          any(w in f.sig for w in ("class_or_union &", "class_decl &", "union_decl &"))]
    if len(fs) < 2:
        raise AnalysisBroken("anchor vanished: ir::equals for class_or_union / class_decl")
    n = 0
    for f in sorted(fs, key=lambda x: x.l0):
        ops = set(f.r["params"][:2])
        for L in f.nodes():
            if L["k"] not in ("ForStmt", "WhileStmt"):
                continue
            # accessors of l / r whose begin() initialises an iterator of the loop, or is compared in its condition
            head = [c for c in L["c"][:-1] if c is not None]
            acc = []
            for h in head:
                for x in walk(h):
                    if x["k"] == "CXXMemberCallExpr" and (f.decl(x) or {}).get("n") in ("begin", "cbegin"):
                        o = strip_casts(member_call_object(x))
                        if o is not None and o["k"] == "DeclRefExpr" and o.get("d") not in ops:
                            # a local (reference) that holds the sequence
                            for v in f.nodes():
                                if v["k"] == "VarDecl" and v.get("d") == o.get("d") and v.get("c") and v["c"][0] is not None:
                                    o = strip_casts(v["c"][0])
                                    while o is not None and o["k"] in ("CXXConstructExpr", "MaterializeTemporaryExpr", "ExprWithCleanups") and len(o.get("c", [])) == 1:
                                        o = strip_casts(o["c"][0])
                                    break
                        if o is not None and o["k"] == "CXXMemberCallExpr" and \
                                any(y["k"] == "DeclRefExpr" and y.get("d") in ops for y in walk(member_call_object(o))):
                            acc.append((f.decl(o) or {}).get("n"))
            if len(acc) < 2 or len(set(acc)) != 1:
                continue
            n += 1
            ctx.analysed(f)
            name = acc[0]
            sig = f.sig.split("(")[1].split(",")[0].replace("const ", "").replace(" &", "").split("::")[-1]
            ok = name not in DECL_ORDER_ONLY
            ctx.ob("R-DECLORDER", "equals(%s): the lock-step walk over %s() is not over a declaration-ordered sequence" % (sig, name), ok, f.loc(L),
                   "%s() is not one of the sequences kept in declaration order (%s)" % (name, ", ".join(sorted(DECL_ORDER_ONLY))) if ok else
                   "%s() is in declaration order (%s): two classes with the same layout compare different when a declaration "
                   "is moved, and every function that reaches the class is reported" % (name, DECL_ORDER_ONLY[name]))
    ctx.floor("R-DECLORDER", "lock-step member walks in the class comparisons", n, 3)


def check_noparmname(ctx, P):
    """R-NOPARMNAME: renaming a parameter is ABI neutral.  ir::equals(function_decl::parameter) - what function types,
    function declarations and fn_parm_diff::has_changes compare parameters with - reads of its operands nothing that
    carries the name: no get_name / get_qualified_name / get_pretty_representation / get_linkage_name on `l` or `r`, and no
    delegation to the decl_base overload (which compares names)."""
    from engine.facts import walk, call_args, member_call_object
    from engine.compdb import AnalysisBroken
    fs = [f for f in P.fn("abigail::ir::equals") if not f.dep and f.cfg() is not None and "function_decl::parameter &" in f.sig]
    if len(fs) != 1:
        raise AnalysisBroken("anchor vanished: ir::equals(const function_decl::parameter&, ...)")
    f = fs[0]
    ctx.analysed(f)
    ops = set(f.r["params"][:2])
    NAME = ("get_name", "get_qualified_name", "get_pretty_representation", "get_linkage_name", "get_name_id", "get_qualified_parent_name")
    reads = sorted({(f.decl(x) or {}).get("n") for x in f.nodes() if x["k"] == "CXXMemberCallExpr" and
                    any(y["k"] == "DeclRefExpr" and y.get("d") in ops for y in walk(member_call_object(x)))})
    bad = [r for r in reads if r in NAME]
    deleg = [x for x in f.nodes() if x["k"] == "CallExpr" and (f.decl(x) or {}).get("n") == "equals" and
             any(y["k"] == "DeclRefExpr" and y.get("d") in ops for a in call_args(x)[:2] for y in walk(a))]
    ctx.ob("R-NOPARMNAME", "equals(function_decl::parameter) does not look at the parameters' names", not bad and not deleg, f.loc(),
           "reads %s" % ", ".join(reads) if not bad and not deleg else
           "reads %s%s: renaming a parameter makes two function types unequal" % (bad, " and delegates to another equals overload" if deleg else ""))
    if len(reads) < 3:
        raise AnalysisBroken("anchor vanished: equals(function_decl::parameter) reads %s" % reads)
