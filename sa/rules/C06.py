"""C06 - ABI-neutral edits are never reported: R-NOLOC (source-location clause)."""
import json
import os
from rules import reach_rules as rr

TABLES = os.path.join(os.path.dirname(os.path.dirname(os.path.abspath(__file__))), "tables")


def run(ctx):
    ctx.clause = ("in everything reachable from equality, hashing, canonicalisation and diffing a source location is "
                  "only ever copied, never compared, branched on, ordered or hashed (one listed kernel-only exception)")
    ctx.rules = ["R-NOLOC", "R-LOOPMEMO"]
    with open(os.path.join(TABLES, "noloc_exceptions.json")) as fh:
        exc = json.load(fh)["deciding_readers"]
    P = ctx.program(None)
    rr.check_noloc(ctx, P, exc)
    # moving a definition to another file reorders translation units and hash maps: nothing computed for one element
    # of a loop may be reused for the next (loop-local memoisation flags)
    from rules import memokey_rule
    k = memokey_rule.check_loopmemo(ctx, P, [f for f in P.all_funcs() if f.relfile.startswith("src/")])
    ctx.note("R-LOOPMEMO: %d flag-guarded computation(s) inside loops in the library" % k)
    ctx.assume("other neutral edits (translation-unit layout, declaration order, DIE de-duplication) are runtime "
               "behaviour and are not decided")
