"""C06 - ABI-neutral edits are never reported: R-NOLOC (source-location clause)."""
import json
import os
from rules import reach_rules as rr

TABLES = os.path.join(os.path.dirname(os.path.dirname(os.path.abspath(__file__))), "tables")


def run(ctx):
    ctx.clause = ("in everything reachable from equality, hashing, canonicalisation and diffing a source location is "
                  "only ever copied, never compared, branched on, ordered or hashed (one listed kernel-only exception)")
    ctx.rules = ["R-NOLOC", "R-LOOPMEMO", "R-NOPARMNAME"]
    with open(os.path.join(TABLES, "noloc_exceptions.json")) as fh:
        exc = json.load(fh)["deciding_readers"]
    P = ctx.program(None)
    rr.check_noloc(ctx, P, exc)
    # moving a definition to another file reorders translation units and hash maps: nothing computed for one element
    # of a loop may be reused for the next (loop-local memoisation flags)
    from rules import memokey_rule
    k = memokey_rule.check_loopmemo(ctx, P, [f for f in P.all_funcs() if f.relfile.startswith("src/")])
    ctx.note("R-LOOPMEMO: %d flag-guarded computation(s) inside loops in the library" % k)
    check_noparmname(ctx, P)
    ctx.assume("other neutral edits (translation-unit layout, declaration order, DIE de-duplication) are runtime "
               "behaviour and are not decided")



def check_noparmname(ctx, P):
    """R-NOPARMNAME: renaming a parameter is ABI neutral.  ir::equals(function_decl::parameter) - what function types,
    function declarations and fn_parm_diff::has_changes compare parameters with - reads of its operands nothing that
    carries the name: no get_name / get_qualified_name / get_pretty_representation / get_linkage_name on `l` or `r`, and no
    delegation to the decl_base overload (which compares names)."""
    from engine.facts import walk, call_args, member_call_object
    from engine.compdb import AnalysisBroken
    fs = [f for f in P.fn("abigail::ir::equals") if not f.dep and f.cfg() is not None and "function_decl::parameter &" in f.sig]
    if len(fs) != 1:
        raise AnalysisBroken("anchor vanished: ir::equals(const function_decl::parameter&, ...)")
    f = fs[0]
    ctx.analysed(f)
    ops = set(f.r["params"][:2])
    NAME = ("get_name", "get_qualified_name", "get_pretty_representation", "get_linkage_name", "get_name_id", "get_qualified_parent_name")
    reads = sorted({(f.decl(x) or {}).get("n") for x in f.nodes() if x["k"] == "CXXMemberCallExpr" and
                    any(y["k"] == "DeclRefExpr" and y.get("d") in ops for y in walk(member_call_object(x)))})
    bad = [r for r in reads if r in NAME]
    deleg = [x for x in f.nodes() if x["k"] == "CallExpr" and (f.decl(x) or {}).get("n") == "equals" and
             any(y["k"] == "DeclRefExpr" and y.get("d") in ops for a in call_args(x)[:2] for y in walk(a))]
    ctx.ob("R-NOPARMNAME", "equals(function_decl::parameter) does not look at the parameters' names", not bad and not deleg, f.loc(),
           "reads %s" % ", ".join(reads) if not bad and not deleg else
           "reads %s%s: renaming a parameter makes two function types unequal" % (bad, " and delegates to another equals overload" if deleg else ""))
    if len(reads) < 3:
        raise AnalysisBroken("anchor vanished: equals(function_decl::parameter) reads %s" % reads)
