"""C06 - ABI-neutral edits are never reported: R-NOLOC (source-location clause)."""
import json
import os
from rules import reach_rules as rr

TABLES = os.path.join(os.path.dirname(os.path.dirname(os.path.abspath(__file__))), "tables")


def run(ctx):
    ctx.clause = ("in everything reachable from equality, hashing, canonicalisation and diffing a source location is "
                  "only ever copied, never compared, branched on, ordered or hashed (one listed kernel-only exception)")
    ctx.rules = ["R-NOLOC"]
    with open(os.path.join(TABLES, "noloc_exceptions.json")) as fh:
        exc = json.load(fh)["deciding_readers"]
    P = ctx.program(None)
    rr.check_noloc(ctx, P, exc)
    ctx.assume("other neutral edits (translation-unit layout, declaration order, DIE de-duplication) are runtime "
               "behaviour and are not decided")
