"""R-WRITERES (C36) and R-FLUSH (C03): write failures reach the exit code; a stream that was
written is flushed before it is re-read by path.

W1  the three writer entry points (write_corpus, write_corpus_group, write_translation_unit
    taking a write_context) return, on every path that does not return a literal `false`, a
    value computed from the state of the context's output stream (good()/fail()/bad()/!/bool).
W2  at every call site of those entry points in abidw / abilint the result is not discarded and
    flows into the function's return value.
W3  from every such call site, every path to a `return` that can signal success passes, in
    this order, a flush()/close() of an ostream and a test of a stream's state.
R-FLUSH  every use of temp_file::get_path() (handing the file to another reader) that follows a
    write through that temp file's get_stream() is preceded on all paths by a flush of it.
"""
from engine.cfg import forward, state_before, TOP, strip_casts
from engine.facts import walk, call_args, member_call_object, expr_str
from engine.compdb import AnalysisBroken
from rules.null_rules import short, occurrence_tag

WRITERS = ("write_corpus", "write_corpus_group", "write_translation_unit")
STATE_TESTS = ("good", "fail", "bad", "operator bool", "operator!", "eof")


def is_ostream(t):
    return t is not None and ("basic_ostream<char" in t["c"] or "basic_ofstream<char" in t["c"]
                              or "basic_fstream<char" in t["c"] or "basic_ostringstream" in t["c"])


def stream_state_test(f, n):
    """n is a call good()/fail()/bad()/operator!/operator bool on an ostream-typed object"""
    if n["k"] == "CXXMemberCallExpr":
        d = f.decl(n)
        if d is not None and (d["n"] in STATE_TESTS or d["n"].startswith("operator bool")):
            o = member_call_object(n)
            return is_ostream(f.type(o))
    if n["k"] == "CXXOperatorCallExpr" and n.get("op") == "!":
        return is_ostream(f.type(call_args(n)[0]))
    return False


def flush_event(f, n):
    return flush_kind(f, n) is not None


def flush_kind(f, n, wrappers=None):
    """(kind, object node, tested) when n pushes buffered data of an ostream to its destination:
    kind 'flush' | 'close'; tested = the same call also returns the stream's state (wrapper helpers)."""
    if n["k"] == "CXXMemberCallExpr":
        d = f.decl(n)
        if d is not None and d["n"] in ("flush", "close"):
            o = member_call_object(n)
            if is_ostream(f.type(o)):
                return (d["n"], o, False)
    if n["k"] == "CXXOperatorCallExpr" and n.get("op") == "<<":
        a = strip_casts(call_args(n)[1])
        if a is not None and a["k"] == "DeclRefExpr" and (f.decl(a) or {}).get("n") in ("flush", "endl"):
            return ("flush", call_args(n)[0], False)
    if wrappers and n["k"] == "CallExpr":
        d = f.decl(n)
        w = wrappers.get((d or {}).get("u")) if d else None
        if w is not None:
            args = call_args(n)
            if w["param"] < len(args):
                par = f.parent(n)
                used = par is not None and par["k"] not in ("CompoundStmt", "ExprWithCleanups")
                return (w["kind"], args[w["param"]], w["tested"] and used)
    return None


def flush_wrappers(P, files):
    """{function usr: {param, kind, tested}}: helpers that, on every path to every return, flush/close the
    ostream they receive by reference (and possibly return its state) - the repo's way of factoring
    `out.flush(); return out.good();`.  Computed from the helpers' own CFGs, not from their names."""
    out = {}
    for g in P.all_funcs():
        if g.dep or g.cfg() is None or not g.relfile.endswith(files):
            continue
        for idx, prm in enumerate(g.params()):
            t = g.unit.type(prm.get("t"))
            if not is_ostream(t):
                continue
            pd = g.r["params"][idx]

            def on_param(o):
                o = strip_casts(o)
                return o is not None and o["k"] == "DeclRefExpr" and o.get("d") == pd

            def transfer(st, n, blk):
                k = flush_kind(g, n)
                if k and on_param(k[1]):
                    return st | {k[0]}
                return st
            ins, _ = forward(g.cfg(), frozenset(), transfer, join=lambda a, b: a & b)
            rets = [n for n in g.nodes() if n["k"] == "ReturnStmt"]
            if not rets:
                continue
            kinds, tested = None, True
            for r in rets:
                st = state_before(g.cfg(), ins, transfer, r)
                if st is TOP:
                    continue
                kinds = set(st) if kinds is None else kinds & set(st)
                v = r["c"][0] if r.get("c") else None
                tested = tested and v is not None and any(
                    stream_state_test(g, x) and on_param(member_call_object(x) if x["k"] == "CXXMemberCallExpr"
                                                         else call_args(x)[0]) for x in walk(v))
            if kinds:
                out[g.u] = {"param": idx, "kind": "close" if "close" in kinds else "flush", "tested": tested,
                            "name": short(g)}
    return out


def owns_file(f, o):
    """o denotes a local std::ofstream / std::fstream object (not a reference): the function owns the file
    and the only place a failing close(2) can be seen is an explicit close() before the state test"""
    o = strip_casts(o)
    if o is None or o["k"] != "DeclRefExpr":
        return False
    d = f.decl(o) or {}
    if d.get("k") != "Var" or d.get("st") != "local":
        return False
    t = f.unit.type(d.get("t"))
    return t is not None and not t.get("ref") and ("basic_ofstream<char" in t["c"] or "basic_fstream<char" in t["c"])


def writer_entry_points(P):
    out = []
    for f in P.all_funcs():
        if f.dep or f.n not in WRITERS or not f.q.startswith("abigail::xml_writer::"):
            continue
        ps = f.params()
        if ps and "write_context" in (f.unit.type(ps[0].get("t")) or {}).get("c", ""):
            out.append(f)
    return out


def check_W1(ctx, P):
    eps = writer_entry_points(P)
    ctx.floor("R-WRITERES/W1", "writer entry points taking a write_context", len(eps), 3)
    for f in sorted(eps, key=lambda x: (x.n, x.l0)):
        ctx.analysed(f)
        seen = {}
        for n in f.nodes():
            if n["k"] != "ReturnStmt" or not n.get("c"):
                continue
            e = strip_casts(n["c"][0])
            if e is not None and e["k"] == "CXXBoolLiteralExpr" and e.get("v") == 0:
                continue
            if e is not None and e["k"] == "CXXBoolLiteralExpr" and e.get("v") == 1 and not _may_have_written(f, n):
                ctx.note("%s: `return true` at %s precedes any insertion into the stream (nothing to report)"
                         % (f.n, f.loc(n)))
                continue
            ok = any(stream_state_test(f, x) for x in walk(e)) or \
                any(x["k"] == "CallExpr" and (f.decl(x) or {}).get("n") in WRITERS for x in walk(e))
            ent = "%s(%s): return %s" % (f.n, ", ".join(p["n"] for p in f.params()), expr_str(f, e))
            ent += occurrence_tag(seen, ent)
            ctx.ob("R-WRITERES/W1", ent, ok, f.loc(n),
                   "the success value is the state of the output stream" if ok else
                   "returns a value that does not depend on the output stream: a failed write is reported as success")


def _may_have_written(f, ret):
    """can an insertion into an ostream (or a call that receives the context) precede `ret`?"""
    cfg = f.cfg()

    def transfer(st, n, blk):
        if n["k"] == "CXXOperatorCallExpr" and n.get("op") == "<<" and is_ostream(f.type(call_args(n)[0])):
            return st | {"w"}
        if n["k"] == "CallExpr" and any("write_context" in (f.type(a) or {}).get("c", "") for a in call_args(n)
                                        if a is not None):
            return st | {"w"}
        return st
    ins, _ = forward(cfg, frozenset(), transfer, join=lambda a, b: a | b)
    st = state_before(cfg, ins, transfer, ret)
    return st is TOP or "w" in st


def check_W2_W3(ctx, P, tool_files=("tools/abidw.cc", "tools/abilint.cc")):
    n_sites = 0
    wrappers = flush_wrappers(P, tool_files)
    for w in wrappers.values():
        ctx.note("R-WRITERES/W3: %s(...) summarised as %s%s of its stream parameter #%d on every path" % (
            w["name"], w["kind"], " + state test" if w["tested"] else "", w["param"]))
    for f in sorted(P.all_funcs(), key=lambda x: (x.file, x.l0)):
        if f.dep or f.cfg() is None or not f.relfile.endswith(tool_files):
            continue
        sites = [n for n, d in f.calls() if d["n"] in WRITERS and d["q"].startswith("abigail::xml_writer::")]
        if not sites:
            continue
        ctx.analysed(f)
        cfg = f.cfg()
        seen = {}
        for n in sites:
            n_sites += 1
            ent0 = "%s: %s" % (short(f), expr_str(f, n).split("(")[0] + "(...)")
            ent = ent0 + occurrence_tag(seen, ent0)
            # ---- W2: not discarded
            p = f.parent(n)
            while p is not None and p["k"] in ("UnaryOperator",) and p.get("op") == "!":
                p = f.parent(p)
            used = p is not None and p["k"] in ("BinaryOperator", "VarDecl", "ReturnStmt", "IfStmt",
                                                "ConditionalOperator", "CXXOperatorCallExpr")
            var = None
            if p is not None and p["k"] == "VarDecl":
                var = p.get("d")
            if p is not None and p["k"] == "BinaryOperator" and p.get("op") in ("=", "|=", "&=", "&&", "||"):
                l = strip_casts(p["c"][0])
                if l is not None and l["k"] == "DeclRefExpr":
                    var = l.get("d")
            flows = True
            if var is not None:
                # the variable is read in a return expression or a condition afterwards
                flows = any(x["k"] == "DeclRefExpr" and x.get("d") == var and x.get("rv")
                            for x in f.nodes() if x["l"] >= n["l"])
            ctx.ob("R-WRITERES/W2", ent + " result is used", used and flows, f.loc(n),
                   "the writer's result flows into a condition / the return value" if used and flows else
                   "the writer's result is discarded: a failed write cannot influence the exit status")
            # ---- W3: flush/close then stream test before any success return
            bad = _w3(f, cfg, n, wrappers)
            ctx.ob("R-WRITERES/W3", ent + " followed by flush and stream test", bad is None, f.loc(n),
                   "every path to a success return flushes/closes the stream and tests its state" if bad is None else
                   "a path from this write reaches `return %s` (%s) without %s: buffered data can fail to be "
                   "written (ENOSPC) and the tool still exits 0" % (bad[1], f.loc(bad[0]), bad[2]))
    ctx.floor("R-WRITERES/W2", "writer call sites in abidw/abilint", n_sites, 8)


def _w3(f, cfg, call, wrappers=None):
    """returns None if ok, else (return node, return text, what is missing)"""
    w = cfg.where(call)
    if w is None:
        return None
    b0, i0 = w
    seen = set()
    stack = [(b0, i0 + 1, 0, frozenset())]   # phase 0: nothing, 1: flushed, 2: flushed and tested
    only_flushed = False
    is_bool_ret = bool(f.ret_type() and f.ret_type()["c"] == "bool")
    while stack:
        b, i, ph, failed = stack.pop()
        blk = cfg.blocks[b]
        ended = False
        for e in blk.elems[i:]:
            fk = flush_kind(f, e, wrappers) if ph < 2 else None
            if fk is not None:
                kind, obj, tested = fk
                if owns_file(f, obj) and kind != "close":
                    # flushing a file the function owns does not surface a failing close(2): not a discharge
                    only_flushed = True
                elif ph == 0:
                    ph = 2 if tested else 1
            elif ph == 1 and stream_state_test(f, e):
                ph = 2
            if e["k"] == "BinaryOperator" and e.get("op") == "=":
                l, r = strip_casts(e["c"][0]), strip_casts(e["c"][1])
                if l is not None and l["k"] == "DeclRefExpr" and r is not None and \
                        r["k"] in ("IntegerLiteral", "CXXBoolLiteralExpr"):
                    lt = f.type(l)
                    isb = lt is not None and lt["c"] == "bool"
                    # `exit_code = 1` / `is_ok = false` mark the path as a failure path
                    if (isb and r.get("v") == 0 and l.get("d")) or (not isb and r.get("v") not in (0, None)):
                        failed = failed | {l.get("d")}
                    else:
                        failed = failed - {l.get("d")}
            if e["k"] == "ReturnStmt":
                v = strip_casts(e["c"][0]) if e.get("c") else None
                lit = v is not None and v["k"] in ("IntegerLiteral", "CXXBoolLiteralExpr")
                failing = lit and v.get("v") not in (0,)        # `return 1`
                if f.ret_type() and f.ret_type()["c"] == "bool":
                    failing = lit and v.get("v") == 0
                if v is not None and not failing:
                    # `return exit_code;` / `return is_ok ? 0 : 1;` after the variable was set to its failure value
                    if any(x["k"] == "DeclRefExpr" and x.get("d") in failed for x in walk(v)):
                        failing = True
                if ph < 2 and not failing:
                    return (e, expr_str(f, v) if v is not None else "",
                            "closing the output file it owns (the stream is only flushed, so a failing close(2) happens "
                            "in the destructor, after the exit status is decided)" if ph == 0 and only_flushed else
                            "flushing the stream" if ph == 0 else "testing the stream state after the flush")
                ended = True
                break
        if ended:
            continue
        for s in blk.succs:
            if s is None or s not in cfg.blocks:
                continue
            if s == cfg.exit:
                continue
            st = (s, 0, ph, failed)
            if st not in seen:
                seen.add(st)
                stack.append(st)
    return None


def check_flush(ctx, P, tool_files=("tools/abidw.cc", "tools/abilint.cc")):
    """R-FLUSH: typestate on temp_file: written -> flushed before get_path() is handed out."""
    n_sites = 0
    wrappers = flush_wrappers(P, tool_files)
    for f in sorted(P.all_funcs(), key=lambda x: (x.file, x.l0)):
        if f.dep or f.cfg() is None or not f.relfile.endswith(tool_files):
            continue
        paths = [n for n in f.nodes() if n["k"] == "CXXMemberCallExpr" and (f.decl(n) or {}).get("n") == "get_path"
                 and "temp_file" in (f.decl(n) or {}).get("q", "")]
        streams = [n for n in f.nodes() if n["k"] == "CXXMemberCallExpr" and (f.decl(n) or {}).get("n") == "get_stream"
                   and "temp_file" in (f.decl(n) or {}).get("q", "")]
        if not paths or not streams:
            continue
        ctx.analysed(f)
        cfg = f.cfg()
        # locals bound to the temp stream (ostream& of = cond ? tmp->get_stream() : cout)
        aliases = set()
        for n in f.nodes():
            if n["k"] == "VarDecl" and n.get("c") and any(x["i"] == s["i"] for s in streams for x in walk(n["c"][0])):
                aliases.add(n.get("d"))

        def is_temp_stream(e):
            e = strip_casts(e)
            if e is None:
                return False
            if e["k"] == "DeclRefExpr" and e.get("d") in aliases:
                return True
            return e["k"] == "CXXMemberCallExpr" and (f.decl(e) or {}).get("n") == "get_stream"

        def transfer(st, n, blk):
            # written: a writer entry point or set_ostream/create_write_context bound to the temp stream ran
            if n["k"] == "CallExpr" and (f.decl(n) or {}).get("n") in WRITERS:
                return st - {"flushed"} | {"written"}
            fk = flush_kind(f, n, wrappers)
            if fk is not None and is_temp_stream(fk[1]):
                return st | {"flushed"}
            return st
        join = lambda a, b: frozenset((a & b) | ({"written"} & (a | b)))
        ins, _ = forward(cfg, frozenset(), transfer, join=join)
        seen = {}
        for n in paths:
            # the path is only printed in a diagnostic (cerr << ... << get_path()): nobody re-reads the file
            par = f.parent(n)
            while par is not None and par["k"] in ("ImplicitCastExpr", "MaterializeTemporaryExpr", "CXXBindTemporaryExpr"):
                par = f.parent(par)
            if par is not None and par["k"] == "CXXOperatorCallExpr" and par.get("op") == "<<" and \
                    is_ostream(f.type(call_args(par)[0])):
                continue
            st = state_before(cfg, ins, transfer, n)
            if st is TOP or "written" not in st:
                continue
            n_sites += 1
            ent = "%s: %s read back by path" % (short(f), expr_str(f, n))
            ent += occurrence_tag(seen, ent)
            ctx.ob("R-FLUSH", ent, "flushed" in st, f.loc(n),
                   "the temporary stream is flushed on every path before its path is handed out" if "flushed" in st else
                   "the temporary file's path is used while data written through get_stream() may still be "
                   "buffered: the reader of the file sees a truncated document")
    ctx.floor("R-FLUSH", "temp_file paths handed out after a write", n_sites, 2)
