"""C30 - abipkgdiff's verdict covers every binary in the packages.

R-STATUS/S5 (kill rule): no plain assignment to a status variable that may already hold
accumulated bits.  R-ACCUM: every store into an aggregate status field (task / notifier) outside
its constructor is an OR-accumulation.  R-REMOVED: the removed-binary branch ORs CHANGE and
INCOMPATIBLE_CHANGE into the function's status and those values survive to its return.
"""
from rules import status_rules as sr
from rules import C08
from engine.facts import walk, expr_str
from engine.status import is_tracked_type
from rules import alias_rule


def run(ctx):
    ctx.clause = ("in abipkgdiff no accumulated status bit is discarded: per-task results and the removed-binary "
                  "bits are OR-ed, never overwritten, on every path to the exit status")
    ctx.rules = ["R-STATUS/S5", "R-ACCUM", "R-REMOVED", "R-ALIASARG", "R-PKGWALK"]
    P, I, main, rets = sr.analyse_tool(ctx, "abipkgdiff", infeasible=C08.l1_prune)
    unit = P.units[sr.TOOLS["abipkgdiff"]]
    tool_funcs = [f for f in unit.functions if not f.dep and P.funcs.get(f.u) is f]
    n_assign = sr.check_kills(ctx, "abipkgdiff", I)
    I2 = sr.st.Interp(P)
    stores = I2.compute_fieldvals(tool_funcs)
    n_store = sr.check_accum(ctx, "abipkgdiff", I, stores)
    # R-REMOVED: in compare_prepared_userspace_packages, whenever removed_binaries is appended to,
    # CHANGE|INCOMPATIBLE (12) is contained in every value the function can return afterwards.
    check_pkgwalk(ctx, P, unit)
    f = P.fn1("compare_prepared_userspace_packages")
    ctx.analysed(f)
    pushes = [n for n in f.nodes() if n["k"] == "CXXMemberCallExpr" and (f.decl(n) or {}).get("n") == "push_back"
              and "removed_binaries" in expr_str(f, n)]
    ctx.floor("R-REMOVED", "removed_binaries.push_back sites", len(pushes), 1)
    # rerun the function with a marker predicate set when the push executes
    marker = ("removed", "binary")

    class MI(sr.st.Interp):
        def _elem(self, ff, n, worlds, rets_, retseen, nullvars):
            out = sr.st.Interp._elem(self, ff, n, worlds, rets_, retseen, nullvars)
            if ff is f and any(n["i"] == p["i"] for p in pushes):
                out = [w.with_pred(marker, True) for w in out]
            return out
    MIi = MI(P, infeasible=C08.l1_prune)
    MIi.compute_fieldvals(tool_funcs)
    r = MIi.run(f)
    vals_removed = sorted({v for v, w, n in r if w.pred(marker)}, key=str)
    ok = bool(vals_removed) and all(isinstance(v, int) and (v & 12) == 12 for v in vals_removed)
    ctx.ob("R-REMOVED", "compare_prepared_userspace_packages: removed binary => CHANGE|INCOMPATIBLE returned", ok,
           f.loc(pushes[0]) if pushes else f.loc(),
           "values returned on paths that recorded a removed binary: %s" % ", ".join(sr.fmt(v) for v in vals_removed))
    ctx.floor("R-STATUS/S5", "assignments to status variables in abipkgdiff", n_assign, 10)
    ctx.floor("R-ACCUM", "stores into aggregate status fields", n_store, 3)
    # R-ALIASARG: the keys of the package-content maps (and every other path abipkgdiff derives in place,
    # `dir_name(key, key)`, `real_path(p, p)` ...) are computed by helpers called with one string as input
    # and output; a helper that reads its input after touching its output silently merges / loses binaries.
    PW = ctx.program(None)
    n_alias = alias_rule.check(ctx, PW, PW.all_funcs(), only_callers=lambda f: f.relfile.endswith("tools/abipkgdiff.cc"))
    ctx.floor("R-ALIASARG", "helpers abipkgdiff calls with aliased in/out arguments", n_alias, 3)



def check_pkgwalk(ctx, P, unit):
    """R-PKGWALK: the verdict is accumulated over the binaries of the two packages; which files those are is decided by the
    fts(3) walks of abipkgdiff.  A package may reach part of its content through a symbolic link to a directory; the entry
    handler (maybe_update_package_content) keeps a symbolic link only if it resolves to a file, so the walk itself has to
    follow links: every fts_open() of tools/abipkgdiff.cc passes FTS_LOGICAL (and not FTS_PHYSICAL)."""
    from engine.facts import walk, call_args
    n = 0
    for f in unit.functions:
        if f.dep or P.funcs.get(f.u) is not f:
            continue
        for x in f.nodes():
            if x["k"] == "CallExpr" and (f.decl(x) or {}).get("n") == "fts_open" and len(call_args(x)) >= 2:
                exprs = [call_args(x)[1]]
                for y in walk(call_args(x)[1]):          # flags held in a local: look at its initialiser
                    if y["k"] == "DeclRefExpr":
                        exprs += [v["c"][0] for v in f.nodes() if v["k"] == "VarDecl" and v.get("d") == y.get("d") and v.get("c") and v["c"][0] is not None]
                flags = sorted({y.get("m") for e_ in exprs for y in walk(e_) if (y.get("m") or "").startswith("FTS_")})
                n += 1
                ctx.analysed(f)
                ok = "FTS_LOGICAL" in flags and "FTS_PHYSICAL" not in flags
                ctx.ob("R-PKGWALK", "%s walks the package following symbolic links" % f.n, ok, f.loc(x),
                       "fts_open(.., %s)" % "|".join(flags) if ok else
                       "fts_open(.., %s): a directory that the package reaches through a symbolic link is not descended into (the "
                       "entry handler drops links that do not resolve to a file), so the binaries behind it are neither compared "
                       "nor reported as removed" % "|".join(flags))
    ctx.floor("R-PKGWALK", "fts walks of abipkgdiff", n, 2)
