"""R-DEVM: the DWARF location-expression evaluator of the reader survives any expression.

abg-dwarf-reader.cc evaluates DW_AT_data_member_location / DW_AT_location / DW_AT_vtable_elem_location blocks on a small
stack machine ("DEVM"): dwarf_expr_eval_context (accumulator + stack), expr_result (a value that is a constant or not),
expr_result_stack_type, and the op_* functions that eval_last_constant_dwarf_sub_expr() tries in turn.  Everything the
machine sees - which operations, in which order, with which operands - is read from the file.  Four structural clauses,
each a necessary condition of "never aborts / crashes on corrupted DWARF attribute values":

R-DEVM/ASSERT     the only fact the evaluator may assert is the invariant of its loop, `index < length` over two of its
                  own parameters.  Any other ABG_ASSERT in the scope (stack depth, index + 1, next_index, a value's
                  constness) is decided by the expression in the file - except an assertion that restates the
                  precondition of an accessor, which is accepted when every call site establishes it
                  (R-DEVM/UNDERFLOW, R-DEVM/CONST).
R-DEVM/UNDERFLOW  every read of the top of the stack (ctxt.pop(), stack.front(), stack[k], pop_front(), elems_.back()) is
                  either made through an accessor that is total (it tests the depth itself) or dominated by a test of the
                  depth of that very stack (size-fact dataflow).
R-DEVM/CONST      expr_result::const_value() / operator int64_t assert that the value is a constant: every use of them is
                  under an is_const() test of the same object.
R-DEVM/DIV        every integer `/` and `%` of the value class is under a test of the divisor against zero.
"""
from engine.cfg import strip_casts, TOP
from engine.facts import walk, call_args, member_call_object, expr_str
from engine.compdb import AnalysisBroken
from rules.null_rules import short, occurrence_tag
from rules import idx_rule

NS = "abigail::dwarf_reader::"
CTX, STACK, RES = NS + "dwarf_expr_eval_context", NS + "expr_result_stack_type", NS + "expr_result"
RAW = {"back": 1, "front": 1, "pop_back": 1}          # std::vector accessors that need one element


def scope(P):
    meths = [f for f in P.all_funcs() if not f.dep and f.cls in (CTX, STACK, RES) and f.cfg() is not None]
    evals = [f for f in P.all_funcs() if not f.dep and f.cfg() is not None and f.cls not in (CTX, STACK, RES) and
             f.relfile.endswith("src/abg-dwarf-reader.cc") and
             any("dwarf_expr_eval_context" in ((f.unit.type(p["t"]) or {}).get("c", "")) for p in f.params() if p)]
    if len(evals) < 5 or len(meths) < 20:
        raise AnalysisBroken("anchor vanished: the DWARF expression evaluator (%d op functions, %d methods)" % (len(evals), len(meths)))
    return meths, evals


def _needs(P, g, memo):
    """how many elements of its container accessor g needs: 0 when it tests the depth itself (total)"""
    if g.u in memo:
        return memo[g.u]
    memo[g.u] = 1
    if g.cls not in (CTX, STACK):
        memo[g.u] = 0
        return 0
    sites = _reads(P, g, memo)
    if not sites:
        memo[g.u] = 0
        return 0
    flow = idx_rule.SizeFlow(g).solve()
    need = 0
    for x, key, k in sites:
        st = flow.before(x)
        have = 0 if st is TOP else max([m for (t, kk, m) in st if kk == key] or [0])
        if st is not TOP and have < k:
            need = max(need, k)
    # operator[](i) of the stack type needs i + 1: decided at the call site from the literal index
    memo[g.u] = need
    return need


def _reads(P, g, memo):
    """[(node, container key, elements needed)] : the reads of a stack top in function g"""
    out = []
    for x in g.nodes():
        if x["k"] == "CXXMemberCallExpr":
            d = g.decl(x) or {}
            o = strip_casts(member_call_object(x))
            if o is None:
                continue
            ot = (g.type(o) or {}).get("c", "")
            if "std::vector<" in ot and d.get("n") in RAW:
                out.append((x, expr_str(g, o), RAW[d["n"]]))
                continue
            callee = P.funcs.get(d.get("u"))
            if callee is None or callee.cls not in (CTX, STACK) or callee.u == g.u:
                continue
            k = _needs(P, callee, memo)
            if k:
                key = expr_str(g, o)
                if callee.cls == CTX:
                    key = (key + ".stack") if o["k"] != "CXXThisExpr" else "stack"
                elif o["k"] == "CXXThisExpr":
                    key = "elems_"
                out.append((x, key, k))
        elif x["k"] == "CXXOperatorCallExpr" and x.get("op") == "[]":
            a = call_args(x)
            d = g.decl(x) or {}
            callee = P.funcs.get(d.get("u"))
            if callee is not None and callee.cls == STACK and len(a) >= 2:
                i = strip_casts(a[1])
                k = (i.get("v") + 1) if i is not None and i["k"] == "IntegerLiteral" and i.get("v") is not None else None
                out.append((x, expr_str(g, strip_casts(a[0])), k if k is not None else 10 ** 6))
    return out


def check(ctx, P):
    meths, evals = scope(P)
    memo = {}
    n_under = n_assert = n_const = n_div = 0
    guarded_accessors = set()        # accessors whose precondition every call site establishes
    # ---- UNDERFLOW: call sites in the evaluator functions and in the context / stack methods
    for g in sorted(evals + [m for m in meths if m.cls in (CTX, STACK)], key=lambda x: (x.l0, x.sig)):
        sites = _reads(P, g, memo)
        if not sites:
            continue
        if g.cls in (CTX, STACK) and g.n in ("front", "pop_front", "operator[]", "pop") and False:
            continue
        ctx.analysed(g)
        flow = idx_rule.SizeFlow(g).solve()
        seen = {}
        for x, key, k in sites:
            # a raw read inside an accessor of the stack type is that accessor's precondition: decided at its call sites
            if g.cls == STACK and key == "elems_":
                continue
            if g.cls == STACK and g.n in ("pop_front",) :
                continue
            st = flow.before(x)
            if st is TOP:
                continue
            n_under += 1
            have = max([m for (t, kk, m) in st if kk == key] or [0])
            ok = have >= k
            ent = "%s: `%s` reads a stack that holds enough values" % (short(g), expr_str(g, x)[:50])
            ent += occurrence_tag(seen, ent)
            ctx.ob("R-DEVM/UNDERFLOW", ent, ok, g.loc(x),
                   "%s is known to hold >= %d value(s) here" % (key, k) if ok else
                   "`%s` needs %s value(s) on %s, only %d are known to be there: the depth of the stack is decided by the "
                   "expression in the file - one that pops more than it pushed reads an empty vector" % (
                       expr_str(g, x)[:50], k if k < 10 ** 6 else "an index that is not a literal", key, have))
    # ---- ASSERT
    from rules.inassert_rule import assertion_sites
    for g in sorted(evals + meths, key=lambda x: (x.l0, x.sig)):
        seen = {}
        for site, cond, kind in assertion_sites(g):
            n_assert += 1
            ctx.analysed(g)
            c = strip_casts(cond) if cond is not None else None
            ok, why = False, ""
            if c is not None and c["k"] == "BinaryOperator" and c.get("op") in ("<", ">", "<=", ">="):
                a, b = strip_casts(c["c"][0]), strip_casts(c["c"][1])
                if all(z is not None and z["k"] == "DeclRefExpr" and z.get("d") in g.r["params"] for z in (a, b)):
                    ok, why = True, "the loop invariant of the evaluator, over two parameters"
            if not ok and g.cls == STACK and g.n == "operator[]":
                ok, why = True, "restates the precondition of operator[]; its call sites are decided by R-DEVM/UNDERFLOW"
            if not ok and g.cls == RES and g.n in ("const_value", "operator long") and c is not None and \
                    c["k"] == "CXXMemberCallExpr" and (g.decl(c) or {}).get("n") == "is_const":
                ok, why = True, "restates the precondition of const_value(); its uses are decided by R-DEVM/CONST"
            ent = "%s: %s(%s)" % (short(g), kind, expr_str(g, cond)[:50] if cond is not None else "")
            ent += occurrence_tag(seen, ent)
            ctx.ob("R-DEVM/ASSERT", ent, ok, g.loc(site), why if ok else
                   "`%s` is decided by the expression in the file (its operations, their order, their operands): a corrupted "
                   "DW_AT_data_member_location / DW_AT_location block aborts the tool" % (expr_str(g, cond)[:60] if cond is not None else kind))
    # ---- CONST: uses of const_value() / the conversion to int64_t
    cv = {m.u for m in meths if m.cls == RES and (m.n == "const_value" and not m.r["params"] or m.n.startswith("operator long") or m.n == "operator int64_t")}
    for g in sorted(evals + meths + [f for f in P.all_funcs() if not f.dep and f.relfile.endswith("src/abg-dwarf-reader.cc") and f.cfg() is not None
                                      and f not in evals and f not in meths], key=lambda x: (x.l0, x.sig)):
        seen = {}
        for x in g.nodes():
            if x["k"] != "CXXMemberCallExpr" or (g.decl(x) or {}).get("u") not in cv:
                continue
            o = strip_casts(member_call_object(x))
            if o is None:
                continue
            if g.cls == RES and o["k"] == "CXXThisExpr" and g.u in cv:
                continue                              # operator int64_t forwards to const_value(): same precondition
            n_const += 1
            ctx.analysed(g)
            key = expr_str(g, o)
            ok = False
            prev = x
            for a in g.ancestors(x):
                cond = None
                if a["k"] == "IfStmt" and a["c"][0] is not None and len(a["c"]) > 1 and a["c"][1] is not None and \
                        any(y is prev or y is x for y in walk(a["c"][1])):
                    cond = a["c"][0]
                elif a["k"] == "BinaryOperator" and a.get("op") == "&&" and any(y is x for y in walk(a["c"][1])):
                    cond = a["c"][0]
                elif a["k"] == "IfStmt" and a["c"][0] is not None and any(y is x for y in walk(a["c"][0])):
                    cond = None
                if cond is not None:
                    for y in walk(cond):
                        if y["k"] == "CXXMemberCallExpr" and (g.decl(y) or {}).get("n") == "is_const" and not call_args(y):
                            oy = strip_casts(member_call_object(y))
                            if oy is not None and expr_str(g, oy) == key and not _negated(g, y, cond):
                                ok = True
                prev = a
            ent = "%s: `%s` is used as a constant only after is_const()" % (short(g), expr_str(g, x)[:50])
            ent += occurrence_tag(seen, ent)
            ctx.ob("R-DEVM/CONST", ent, ok, g.loc(x),
                   "under `%s.is_const()`" % key if ok else
                   "`%s` goes through expr_result::const_value(), which asserts is_const(); nothing tests `%s.is_const()` before: "
                   "a non-constant value (the result of a DW_OP_deref, of an underflow ...) aborts the tool" % (expr_str(g, x)[:50], key))
    # ---- DIV
    for g in sorted(meths + evals, key=lambda x: (x.l0, x.sig)):
        seen = {}
        for x in g.nodes():
            if x["k"] in ("BinaryOperator", "CompoundAssignOperator") and x.get("op") in ("/", "%", "/=", "%="):
                t = g.type(x) or {}
                if not t.get("arith") or "double" in t.get("c", "") or "float" in t.get("c", ""):
                    continue
                d = strip_casts(x["c"][1])
                if d is None or d["k"] == "IntegerLiteral":
                    continue
                n_div += 1
                ctx.analysed(g)
                dtxt = expr_str(g, d)
                ok = False
                for y in g.nodes():
                    if y["k"] == "IfStmt" and y["c"][0] is not None and (y["l"], y["i"]) < (x["l"], x["i"]):
                        for z in walk(y["c"][0]):
                            if z["k"] == "BinaryOperator" and z.get("op") in ("==", "!=") and \
                                    {expr_str(g, strip_casts(z["c"][0])), expr_str(g, strip_casts(z["c"][1]))} == {dtxt, "0"}:
                                ok = True
                ent = "%s: `%s` divides by a value tested against zero" % (short(g), expr_str(g, x)[:50])
                ent += occurrence_tag(seen, ent)
                ctx.ob("R-DEVM/DIV", ent, ok, g.loc(x),
                       "`%s` is compared with 0 before the division" % dtxt if ok else
                       "`%s` is a value computed by the expression in the file; `DW_OP_lit0; DW_OP_div` divides by zero (SIGFPE)" % dtxt)
    return n_under, n_assert, n_const, n_div


def _negated(g, node, within):
    """is `node` under an odd number of `!` inside expression `within`"""
    neg = False
    for a in g.ancestors(node):
        if a is within:
            break
        if a["k"] == "UnaryOperator" and a.get("op") == "!":
            neg = not neg
    return neg
