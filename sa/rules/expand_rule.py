"""R-EXPAND: the ABIXML entry points return a non-null result only after the root element has
been completely expanded (null-checked xmlTextReaderExpand), or when they run in "corpus node"
mode, which is only ever entered by code that has itself passed such an expansion.

Must-pass-through dataflow over the CFG with one sticky fact OK, generated on
  - the non-null edge of a variable last assigned from xmlTextReaderExpand(...)
  - the non-null edge of read_context::get_corpus_node() (directly or through a variable).
"""
from engine.cfg import forward, state_before, cond_facts, assigned_key, strip_casts, TOP
from engine.facts import walk, call_args, expr_str
from engine.compdb import AnalysisBroken

UNITS = ["src/abg-reader.cc"]
ENTRY = ["abigail::xml_reader::read_translation_unit_from_input",
         "abigail::xml_reader::read_corpus_from_input",
         "abigail::xml_reader::read_corpus_group_from_input"]


def _source_call(f, rhs):
    for x in walk(rhs):
        if x["k"] in ("CallExpr", "CXXMemberCallExpr"):
            d = f.decl(x)
            if d is not None and d["n"] in ("xmlTextReaderExpand", "get_corpus_node"):
                return d["n"]
    return None


class Flow(object):
    def __init__(self, f):
        self.f = f
        self.cfg = f.cfg()

    def transfer(self, st, n, blk):
        f = self.f
        key = assigned_key(f, n)
        if key is not None:
            st = frozenset(x for x in st if not (isinstance(x, tuple) and x[1] == key))
            rhs = None
            if n["k"] == "VarDecl":
                rhs = n["c"][0] if n.get("c") else None
            elif n["k"] == "BinaryOperator":
                rhs = n["c"][1]
            if rhs is not None:
                src = _source_call(f, rhs)
                # only a *direct* assignment from the call counts
                r0 = strip_casts(rhs)
                if src and r0 is not None and r0["k"] in ("CallExpr", "CXXMemberCallExpr") and \
                        (f.decl(r0) or {}).get("n") == src:
                    st = st | frozenset([("pend", key)])
        return st

    def edge(self, st, blk, idx):
        if self.cfg.branch(blk.id) is None:
            return st
        facts = self.cfg.edge_facts(self.f, blk.id, idx)
        for kind, key in facts:
            if kind == "nn" and (("pend", key) in st or key.endswith("get_corpus_node()")):
                st = st | frozenset(["OK"])
        return st

    def solve(self):
        self.ins, _ = forward(self.cfg, frozenset(), self.transfer, self.edge)
        return self

    def before(self, node):
        return state_before(self.cfg, self.ins, self.transfer, node)


def _never_assigned_default_locals(f):
    """locals default-constructed and never assigned (the `nil` idiom)"""
    decls, assigned = {}, set()
    for n in f.nodes():
        if n["k"] == "VarDecl":
            d = f.decl(n)
            init = n["c"][0] if n.get("c") else None
            if init is None or (init["k"] == "CXXConstructExpr" and not init.get("c")):
                decls[d["n"]] = n
        else:
            k = assigned_key(f, n)
            if k:
                assigned.add(k)
    return {k for k in decls if k not in assigned}


def run(ctx):
    P = ctx.program(UNITS)
    n_ret = 0
    for q in ENTRY:
        fs = [f for f in P.fn(q) if len(f.r["params"]) == 1]
        if len(fs) != 1:
            raise AnalysisBroken("anchor %s(read_context&) not found" % q)
        f = fs[0]
        ctx.analysed(f)
        fl = Flow(f).solve()
        nil = _never_assigned_default_locals(f)
        has_expand = any(n["k"] == "CallExpr" and (f.decl(n) or {}).get("n") == "xmlTextReaderExpand"
                         for n in f.nodes())
        ctx.ob("R-EXPAND", "%s calls xmlTextReaderExpand" % f.n, has_expand, f.loc(),
               "the entry point expands the root element itself")
        for n in f.nodes():
            if n["k"] != "ReturnStmt" or not n.get("c"):
                continue
            e = strip_casts(n["c"][0])
            while e is not None and e["k"] == "CXXConstructExpr" and len(e.get("c", [])) == 1:
                e = strip_casts(e["c"][0])
            if e is None:
                continue
            if e["k"] in ("CXXConstructExpr", "CXXTemporaryObjectExpr") and not e.get("c"):
                continue                      # explicit empty pointer
            if e["k"] == "DeclRefExpr" and f.decl(e)["n"] in nil:
                continue                      # return nil;
            st = fl.before(n)
            if st is TOP:
                continue                      # unreachable
            n_ret += 1
            ctx.ob("R-EXPAND", "%s: return %s" % (f.n, expr_str(f, e)), "OK" in st, f.loc(n),
                   "possibly non-null result is returned only after a null-checked full expansion "
                   "(or in corpus-node mode); state=%s" % sorted(map(str, st)))
    # corpus-node mode is entered only by code that holds OK
    n_set = 0
    for f in P.all_funcs():
        if f.dep or not f.relfile.endswith("abg-reader.cc"):
            continue
        calls = [n for n in f.nodes() if n["k"] == "CXXMemberCallExpr"
                 and (f.decl(n) or {}).get("n") == "set_corpus_node"]
        if not calls:
            continue
        fl = Flow(f).solve() if f.cfg() else None
        for n in calls:
            a = strip_casts(call_args(n)[0])
            if a is not None and a["k"] == "IntegerLiteral" and a.get("v") == 0:
                continue
            n_set += 1
            st = fl.before(n) if fl else TOP
            ok = st is not TOP and "OK" in st
            detail = "corpus-node mode is entered only below an expanded root"
            if not ok and a is not None and a["k"] == "DeclRefExpr" and (f.decl(a) or {}).get("k") == "ParmVar":
                # the node is the caller's: the obligation moves to every call site of f
                sites = []
                for g in P.all_funcs():
                    if g.dep or g.cfg() is None:
                        continue
                    cs = [c for c in g.nodes() if c["k"] == "CallExpr" and (g.decl(c) or {}).get("u") == f.u]
                    if cs:
                        gfl = Flow(g).solve()
                        for c in cs:
                            s2 = gfl.before(c)
                            sites.append((g, c, s2 is not TOP and "OK" in s2))
                ok = bool(sites) and all(x[2] for x in sites)
                detail = "node is a parameter; call sites of %s: %s" % (
                    f.n, ", ".join("%s %s" % (g.loc(c), "OK" if o else "NOT-EXPANDED") for g, c, o in sites))
            ctx.ob("R-EXPAND", "%s: set_corpus_node(%s)" % (f.n, expr_str(f, a)), ok, f.loc(n), detail)
    ctx.floor("R-EXPAND", "possibly non-null returns of the three entry points", n_ret, 3)
    ctx.floor("R-EXPAND", "set_corpus_node call sites", n_set, 3)
