"""C19 - symbol-only comparison: R-SIBSYM (function / variable symmetry clause).

corpus_diff::priv::ensure_lookup_tables_populated handles functions, variables, unreferenced
function symbols and unreferenced variable symbols in four sibling regions.  For the pairs
(functions, variables) and (unreferenced function symbols, unreferenced variable symbols) the
ordered sequence of symbol-lookup events must be equal after renaming function<->variable:
calls of lookup_{function,variable}_symbol on first_/second_ (with their arity), the
get_version().is_empty()/is_default() guards, the empty-version re-lookup, and the stores /
erases on the added_* / deleted_* maps.  (Engler-style contradiction: if one half re-checks the
unversioned symbol and the other does not, one of them is wrong.)
"""
import re

from engine.facts import walk, call_args, member_call_object, expr_str
from engine.cfg import strip_casts
from engine.compdb import AnalysisBroken

UNITS = ["src/abg-comparison.cc"]
PAIRS = [("fns_edit_script_", "vars_edit_script_"),
         ("unrefed_fn_syms_edit_script_", "unrefed_var_syms_edit_script_")]


def norm(s):
    s = re.sub(r"function|variable", "X", s)
    s = re.sub(r"fns|vars", "Xs", s)
    s = re.sub(r"fn|var", "X", s)
    return s


def field_of(f, n):
    n = strip_casts(n)
    if n is not None and n["k"] == "MemberExpr" and (f.decl(n) or {}).get("k") == "Field":
        return f.decl(n)["n"]
    return None


def events(f, region, P=None, depth=0, at=None, pmap=None):
    """symbol-lookup / version / bookkeeping events of a region, in source order.  With P, calls of helpers defined in this
    repository that are handed one of the two corpora are looked into (two levels): their events are reported at the call,
    with the helper's corpus parameter replaced by the field the caller passed."""
    out = []
    for n in walk(region):
        k = n["k"]
        here = at if at is not None else n
        if k == "CXXMemberCallExpr":
            d = f.decl(n)
            nm = (d or {}).get("n", "")
            if nm in ("lookup_function_symbol", "lookup_variable_symbol"):
                recv = member_call_object(n)
                r = strip_casts(recv)
                rname = None
                if r is not None and r["k"] == "CXXOperatorCallExpr" and r.get("op") == "->":
                    rname = field_of(f, r["c"][1])
                    r0 = strip_casts(r["c"][1])
                    if rname is None and pmap and r0 is not None and r0["k"] == "DeclRefExpr" and r0.get("d") in pmap:
                        rname = pmap[r0["d"]]
                args = call_args(n)
                arity = "%d" % len(args)
                if len(args) == 1:
                    t = f.type(strip_casts(args[0])) or {}
                    if "basic_string" in t.get("c", ""):
                        arity = "1-by-name"
                out.append((here, "lookup %s->%s/%s" % (rname, norm(nm), arity)))
            elif nm in ("is_empty", "is_default"):
                o = strip_casts(member_call_object(n))
                if o is not None and o["k"] == "CXXMemberCallExpr" and (f.decl(o) or {}).get("n") == "get_version":
                    out.append((here, "version." + nm))
            elif nm == "erase":
                fld = field_of(f, member_call_object(n))
                if fld and re.match(r"(added|deleted)_", fld):
                    out.append((here, "erase " + norm(fld)))
        elif k in ("CXXOperatorCallExpr", "BinaryOperator") and n.get("op") == "=":
            l = strip_casts(n["c"][1] if k == "CXXOperatorCallExpr" else n["c"][0])
            if l is not None and l["k"] == "CXXOperatorCallExpr" and l.get("op") == "[]":
                fld = field_of(f, l["c"][1])
                if fld and re.match(r"(added|deleted)_", fld):
                    out.append((here, "store " + norm(fld)))
        elif k == "VarDecl":
            t = f.unit.type((f.decl(n) or {}).get("t"))
            if t is not None and t["c"].endswith("elf_symbol::version"):
                out.append((here, "empty-version"))
        if k == "CallExpr" and P is not None and depth < 2:
            g = P.funcs.get((f.decl(n) or {}).get("u"))
            if g is not None and not g.dep and g.body is not None and g.relfile == f.relfile:
                m = {}
                for p, a in zip(g.r["params"], call_args(n)):
                    fld = None
                    for y in walk(a):
                        if y["k"] == "MemberExpr" and field_of(f, y) in ("first_", "second_"):
                            fld = field_of(f, y)
                        if pmap and y["k"] == "DeclRefExpr" and y.get("d") in pmap:
                            fld = pmap[y["d"]]
                    if fld:
                        m[p] = fld
                if m:
                    out.extend(events(g, g.body, P, depth + 1, here, m))
    return out


def check_symdiff(ctx, f, regions, P=None):
    """R-SYMDIFF: in the two unreferenced-symbol regions, a deletion of the edit script indexes the *first* corpus' symbols
    and is kept as `deleted` exactly when the symbol is not found in the second corpus; an insertion indexes the *second*
    corpus' symbols and is kept as `added` only when the symbol is not found in the first (interpreted in the worlds
    lookup = found / not found; the bookkeeping test against the deleted map is left open)."""
    from rules.world import World, ANY
    n = 0
    for reg in ("unrefed_fn_syms_edit_script_", "unrefed_var_syms_edit_script_"):
        R = regions[reg]
        name = reg.replace("_edit_script_", "")
        loops = [x for x in R.get("c", []) if x is not None and x["k"] == "ForStmt"]
        for loop in loops:
            # which list of the script does the loop walk, which corpus does it index, which does it look up in
            walks = {(f.decl(y) or {}).get("n") for y in walk(loop["c"][0]) if y["k"] == "CXXMemberCallExpr"} if loop["c"][0] is not None else set()
            kind = "deletions" if "deletions" in walks else "insertions" if "insertions" in walks else None
            if kind is None:
                continue
            subs = set()
            for x in walk(loop):
                if x["k"] == "CXXOperatorCallExpr" and x.get("op") == "[]":
                    for y in walk(call_args(x)[0]):
                        fld = field_of(f, y) if y["k"] == "MemberExpr" else None
                        if fld in ("first_", "second_"):
                            subs.add(fld)
            evs = events(f, loop, P)
            looks = {e.split()[1].split("->")[0] for _, e in evs if e.startswith("lookup ")}
            stores = [n_ for n_, e in evs if e.startswith("store ") and (("deleted" in e) == (kind == "deletions"))]
            want_sub, want_look = ("first_", "second_") if kind == "deletions" else ("second_", "first_")
            n += 1
            ok = subs == {want_sub} and looks == {want_look}
            ctx.ob("R-SYMDIFF", "%s: the %s index the %s corpus and are looked up in the other" % (name, kind, "first" if kind == "deletions" else "second"),
                   ok, f.loc(loop), "symbols of %s, lookups in %s" % (want_sub, want_look) if ok else
                   "the loop over the %s indexes %s and looks up in %s: the wrong symbols are reported" % (kind, sorted(subs), sorted(looks)))
            if not stores:
                raise AnalysisBroken("anchor vanished: no store into the %s map in the %s loop of %s" % ("deleted" if kind == "deletions" else "added", kind, name))
            if kind == "deletions":
                # a removal is always reported: the deletion half asks one question, `is this very symbol (name and
                # version) still there` - the re-export rule (empty-version re-lookup) belongs to the addition half only
                extra = sorted({e.replace("first_->", "OTHER->").replace("second_->", "OTHER->") for _, e in evs
                                if e.startswith(("lookup ", "version.", "empty-version")) and not e.endswith("/1")})
                n += 1
                ctx.ob("R-SYMDIFF", "%s: a deleted symbol is only looked up by name and version" % name, not extra, f.loc(loop),
                       "the deletion loop performs the exact lookup only" if not extra else
                       "the deletion loop also performs [%s]: a default-versioned symbol whose version changes (f@@V1 -> f@@V2), or "
                       "that loses its version, is found again under the empty version and its removal is not reported - the "
                       "incompatible-change bit is not set" % " ; ".join(extra))
            else:
                byname = sorted({e for _, e in evs if e.startswith("lookup ") and e.endswith("by-name")})
                n += 1
                ctx.ob("R-SYMDIFF", "%s: an added symbol is looked up by name and version, or by name and the empty version" % name,
                       not byname, f.loc(loop),
                       "no lookup by name alone" if not byname else
                       "the insertion loop performs [%s]: a lookup by name alone finds the symbol under *any* version, so a new "
                       "default version of a name the first binary only exports under another version is not reported as added" % " ; ".join(byname))
            for found in (True, False):
                def mk_atom(g, depth=0):
                    def atom(e):
                        if e["k"] == "CXXMemberCallExpr" and (g.decl(e) or {}).get("n") in ("lookup_function_symbol", "lookup_variable_symbol"):
                            return ["SYM" if found else None]
                        if e["k"] == "CallExpr" and depth < 2:
                            h = P.funcs.get((g.decl(e) or {}).get("u"))
                            if h is not None and not h.dep and h.cfg() is not None and h.relfile == g.relfile and \
                                    any(y["k"] == "CXXMemberCallExpr" and (h.decl(y) or {}).get("n") in ("lookup_function_symbol", "lookup_variable_symbol")
                                        for y in h.nodes()):
                                return sorted(World(h, mk_atom(h, depth + 1)).returns(), key=str)
                        return None
                    return atom
                W = World(f, mk_atom(f))
                track = {x.get("d") for x in f.nodes() if x["k"] == "VarDecl" and
                         (f.unit.type((f.unit.decl(x.get("d")) or {}).get("t")) or {}).get("s") in ("bool", "const bool")}
                W.run_env(track)
                reached = W.reached_elems
                hit = any(s_["i"] in reached for s_ in stores)
                n += 1
                ok = hit == (not found)
                what = "removed" if kind == "deletions" else "added"
                ctx.ob("R-SYMDIFF", "%s: a symbol %s in the other corpus is %sreported as %s" % (
                    name, "found" if found else "not found", "not " if found else "", what), ok, f.loc(stores[0]),
                    "decided by the lookup" if ok else
                    ("a symbol that is still there is reported as %s" % what if found else
                     "a symbol present in one corpus only is not reported as %s" % what))
    ctx.floor("R-SYMDIFF", "obligations over the unreferenced-symbol regions", n, 12)


def run(ctx):
    ctx.clause = ("function symbols and variable symbols get the same re-lookup treatment (symbol still present => "
                  "not removed; default-version re-export rule) in both the declared and the unreferenced-symbol "
                  "regions")
    ctx.rules = ["R-SIBSYM", "R-VERLOOKUP", "R-SYMDIFF"]
    P = ctx.program(UNITS)
    f = P.fn1("abigail::comparison::corpus_diff::priv::ensure_lookup_tables_populated")
    ctx.analysed(f)
    body = f.body["c"][-1]
    regions = {}
    for s in body.get("c", []):
        if s is None or s["k"] != "CompoundStmt":
            continue
        for x in walk(s):
            if x["k"] == "VarDecl" and x.get("c"):
                fld = field_of(f, x["c"][0])
                if fld and fld.endswith("_edit_script_"):
                    regions[fld] = s
                    break
            if x["k"] not in ("CompoundStmt", "DeclStmt", "VarDecl"):
                break
    ctx.floor("R-SIBSYM", "edit-script regions", len(regions), 4)
    n_ev = 0
    for a, b in PAIRS:
        if a not in regions or b not in regions:
            raise AnalysisBroken("anchor vanished: region for %s / %s" % (a, b))
        ea, eb = events(f, regions[a], P), events(f, regions[b], P)
        n_ev += len(ea) + len(eb)
        sa, sb = [e for _, e in ea], [e for _, e in eb]
        name = "%s ~ %s" % (a.replace("_edit_script_", ""), b.replace("_edit_script_", ""))
        if sa == sb:
            ctx.ob("R-SIBSYM", "%s: %d lookup events agree" % (name, len(sa)), True, f.loc(regions[a]),
                   " ; ".join(sa))
        else:
            # first point of divergence
            i = 0
            while i < min(len(sa), len(sb)) and sa[i] == sb[i]:
                i += 1
            na = ea[i][0] if i < len(ea) else regions[a]
            nb = eb[i][0] if i < len(eb) else regions[b]
            ctx.ob("R-SIBSYM", "%s: lookup events agree" % name, False, f.loc(na),
                   "the two halves diverge at event %d: function half has `%s` (%s), variable half has `%s` (%s): one "
                   "kind of symbol is re-looked-up differently from the other" % (
                       i, sa[i] if i < len(sa) else "<end>", f.loc(na), sb[i] if i < len(sb) else "<end>", f.loc(nb)))
    ctx.floor("R-SIBSYM", "symbol-lookup events", n_ev, 30)
    check_symdiff(ctx, f, regions, P)
    from rules import verlookup_rule
    verlookup_rule.check(ctx, ctx.program(verlookup_rule.UNITS))
    ctx.assume("the set arithmetic over the runtime symbol sets is not decided; the added/deleted asymmetry "
               "(only additions get the unversioned->default rule) is by design")
