"""C41 - name and path helpers behave as specified: finite-domain clauses of src/abg-tools-utils.cc.

R-AFFIXTAB  string_begins_with / string_ends_with only look at their arguments through emptiness tests, length
            comparisons and one final compare().  Abstract interpretation over the finite set of worlds
            (str empty?, affix empty?, len(str) < len(affix)?): every world in which the function answers without
            reaching compare() must agree with the definition (empty affix => true; shorter string => false), and the
            two siblings must answer alike.
R-TRIMBOTH  split_string skips white space in front of every field it pushes and strips it at the end of every
            field it pushes (a field is trimmed on both sides or the result depends on where the blanks are).
R-NAMESYM   decl_names_equal(l, r): every condition of the function is invariant under exchanging l and r
            (after canonicalising commutative operators and the two-sided compare()) - the structural part of
            "qualified-name equality is symmetric".
"""
import re

from engine.cfg import strip_casts
from engine.facts import walk, call_args, member_call_object, expr_str
from engine.compdb import AnalysisBroken

UNITS = ["src/abg-tools-utils.cc"]
NS = "abigail::tools_utils::"


def _fn(P, name):
    fs = [f for f in P.fn(NS + name) if not f.dep and f.cfg() is not None]
    if len(fs) != 1:
        raise AnalysisBroken("anchor vanished: %s%s" % (NS, name))
    return fs[0]


# --------------------------------------------------------------------------- R-AFFIXTAB

WORLDS = [  # (str empty, affix empty, len(str) < len(affix))
    (True, True, False), (True, False, True), (False, True, False), (False, False, True), (False, False, False)]


def _affix_table(f):
    """world -> True / False / '?' (reaches the content comparison)"""
    cfg = f.cfg()
    ps, pa = f.r["params"][0], f.r["params"][1]
    # locals holding a length:  x_len = x.length()
    length_of = {}

    def side(e):
        e = strip_casts(e)
        if e is None:
            return None
        if e["k"] == "DeclRefExpr":
            if e.get("d") == ps:
                return "S"
            if e.get("d") == pa:
                return "A"
            return length_of.get(e.get("d"))
        if e["k"] == "CXXMemberCallExpr" and (f.decl(e) or {}).get("n") in ("length", "size"):
            s = side(member_call_object(e))
            return ("len", s) if s in ("S", "A") else None
        return None
    for n in f.nodes():
        if n["k"] == "VarDecl" and n.get("c") and n["c"][0] is not None:
            s = side(n["c"][0])
            if isinstance(s, tuple):
                length_of[n.get("d")] = s

    def ev(cond, w):
        """truth value of a condition in world w, or None (unknown)"""
        s_empty, a_empty, s_lt_a = w
        c = strip_casts(cond)
        if c is None:
            return None
        if c["k"] == "UnaryOperator" and c.get("op") == "!":
            v = ev(c["c"][0], w)
            return None if v is None else not v
        if c["k"] == "CXXMemberCallExpr" and (f.decl(c) or {}).get("n") == "empty":
            s = side(member_call_object(c))
            return s_empty if s == "S" else a_empty if s == "A" else None
        if c["k"] == "BinaryOperator" and c.get("op") in ("<", ">", "<=", ">="):
            l, r = side(c["c"][0]), side(c["c"][1])
            if isinstance(l, tuple) and isinstance(r, tuple) and {l[1], r[1]} == {"S", "A"}:
                op = c["op"]
                if l[1] == "A":      # normalise to  len(S) op' len(A)
                    op = {"<": ">", ">": "<", "<=": ">=", ">=": "<="}[op]
                if op == "<":
                    return s_lt_a
                if op == ">=":
                    return not s_lt_a
                # > and <= need "equal lengths", known only when both are empty
                eq = s_empty and a_empty
                if op == ">":
                    return False if (s_lt_a or eq) else None
                if op == "<=":
                    return True if (s_lt_a or eq) else None
        return None
    table = {}
    for w in WORLDS:
        outcomes = set()
        stack, seen = [cfg.entry], set()
        while stack:
            b = stack.pop()
            if b in seen:
                continue
            seen.add(b)
            blk = cfg.blocks[b]
            ret = None
            for e in blk.elems:
                if e["k"] == "ReturnStmt" and e.get("c"):
                    v = strip_casts(e["c"][0])
                    if v is not None and v["k"] == "CXXBoolLiteralExpr":
                        ret = bool(v.get("v"))
                    else:
                        ret = "?"
                    break
            if ret is not None:
                outcomes.add(ret)
                continue
            br = cfg.branch(b)
            succs = [s for s in blk.succs if s is not None and s in cfg.blocks]
            if br is not None:
                v = None
                for c in cfg.branch_conds(b):
                    v = ev(c, w)
                    if v is not None:
                        break
                if v is not None:
                    succs = [blk.succs[0 if v else 1]]
            stack.extend(s for s in succs if s is not None)
        table[w] = next(iter(outcomes)) if len(outcomes) == 1 else "?"
    return table


def check_affixtab(ctx, P):
    names = ("string_begins_with", "string_ends_with")
    tabs = {}
    for nm in names:
        f = _fn(P, nm)
        ctx.analysed(f)
        tabs[nm] = (f, _affix_table(f))

    def definition(w):
        s_empty, a_empty, s_lt_a = w
        if a_empty:
            return True
        if s_lt_a:
            return False
        return "?"
    wname = lambda w: "str %s, affix %s, len(str) %s len(affix)" % (
        "empty" if w[0] else "non-empty", "empty" if w[1] else "non-empty", "<" if w[2] else ">=")
    for nm in names:
        f, t = tabs[nm]
        for w in WORLDS:
            want, got = definition(w), t[w]
            ok = got == "?" or want == "?" or got == want
            ctx.ob("R-AFFIXTAB", "%s: answer for (%s) agrees with the definition" % (nm, wname(w)), ok, f.loc(),
                   "answers %s (definition: %s)" % (got, want) if ok else
                   "the function answers %s without looking at the contents, the definition of a prefix/suffix says %s" % (got, want))
    fb, tb = tabs[names[0]]
    fe, te = tabs[names[1]]
    for w in WORLDS:
        ok = tb[w] == "?" or te[w] == "?" or tb[w] == te[w]
        ctx.ob("R-AFFIXTAB", "string_begins_with ~ string_ends_with on (%s)" % wname(w), ok, fb.loc(),
               "begins: %s, ends: %s" % (tb[w], te[w]))
    ctx.floor("R-AFFIXTAB", "abstract worlds", len(WORLDS), 5)


# --------------------------------------------------------------------------- R-TRIMBOTH

def check_trimboth(ctx, P):
    f = _fn(P, "split_string")
    ctx.analysed(f)
    pin = f.r["params"][0]
    pushes = [n for n in f.nodes() if n["k"] == "CXXMemberCallExpr" and (f.decl(n) or {}).get("n") == "push_back"]
    ctx.floor("R-TRIMBOTH", "fields pushed by split_string", len(pushes), 2)
    # leading: a loop advancing an index over input while isspace(input[idx])
    lead = False
    for lp in f.nodes():
        if lp["k"] != "WhileStmt":
            continue
        c = lp["c"][0]
        if any(x["k"] == "CallExpr" and (f.decl(x) or {}).get("n") == "isspace" for x in walk(c)) and \
                any(x["k"] == "UnaryOperator" and x.get("op") == "++" for x in walk(lp["c"][1])):
            lead = True
    ctx.ob("R-TRIMBOTH", "split_string skips white space in front of a field", lead, f.loc(),
           "a loop advances over isspace() characters before the field starts")
    seen = {}
    for n in pushes:
        a = strip_casts(call_args(n)[0])
        ok, why = False, ""
        if a is not None and a["k"] == "DeclRefExpr":
            d = a.get("d")
            # the pushed local was right-trimmed: a loop whose condition tests isspace on its last character and whose
            # body shortens it, located before the push
            for lp in f.nodes():
                if lp["k"] != "WhileStmt" or (lp["l"], lp["i"]) > (n["l"], n["i"]):
                    continue
                c, body = lp["c"][0], lp["c"][1]
                tests = any(x["k"] == "CallExpr" and (f.decl(x) or {}).get("n") == "isspace" and
                            any(y["k"] == "DeclRefExpr" and y.get("d") == d for y in walk(x)) for x in walk(c))
                shortens = any(x["k"] == "CXXMemberCallExpr" and (f.decl(x) or {}).get("n") in ("erase", "pop_back", "resize") and
                               (strip_casts(member_call_object(x)) or {}).get("d") == d for x in walk(body))
                if tests and shortens:
                    ok, why = True, "`%s` is stripped of trailing isspace() characters before it is pushed" % expr_str(f, a)
            # or it went through a trimming helper
            for v in f.nodes():
                if v["k"] == "VarDecl" and v.get("d") == d and v.get("c") and v["c"][0] is not None and any(
                        x["k"] == "CallExpr" and "trim" in (f.decl(x) or {}).get("n", "") for x in walk(v["c"][0])):
                    ok, why = True, "the field is built by a trim helper"
        elif a is not None and any(x["k"] == "CallExpr" and "trim" in (f.decl(x) or {}).get("n", "") for x in walk(a)):
            ok, why = True, "the field goes through a trim helper"
        ent = "split_string: the field pushed by `%s` is trimmed at its end too" % expr_str(f, n)[:60]
        seen[ent] = seen.get(ent, 0) + 1
        if seen[ent] > 1:
            ent += " #%d" % seen[ent]
        ctx.ob("R-TRIMBOTH", ent, ok, f.loc(n), why if ok else
               "white space is skipped in front of the field but `%s` is pushed as cut from the input: \"a , b\" yields "
               "\"a \" - the field is trimmed on one side only" % expr_str(f, a))


# --------------------------------------------------------------------------- R-NAMESYM

def _canon(f, e, swap):
    """canonical text of a boolean expression; swap = {decl id: decl id} exchanges the two sides"""
    e = strip_casts(e)
    if e is None:
        return ""
    k = e["k"]
    if k == "DeclRefExpr":
        d = e.get("d")
        dd = f.decl(e) or {}
        if dd.get("st") not in ("local", "param") and dd.get("k") != "ParmVar":
            return "g:%s" % (dd.get("q") or dd.get("n"))      # globals / static members / macros' constants by name
        return "v%s" % swap.get(d, d)
    if k in ("IntegerLiteral", "CXXBoolLiteralExpr", "CharacterLiteral"):
        return "#%s" % e.get("v")
    if k == "StringLiteral":
        return "s%r" % e.get("s")
    if k == "UnaryOperator":
        return "(%s%s)" % (e.get("op"), _canon(f, e["c"][0], swap))
    if k == "BinaryOperator":
        a, b = _canon(f, e["c"][0], swap), _canon(f, e["c"][1], swap)
        if e.get("op") in ("||", "&&", "==", "!=", "+", "*"):
            a, b = sorted((a, b))
        return "(%s %s %s)" % (a, e.get("op"), b)
    if k == "CXXMemberCallExpr":
        nm = (f.decl(e) or {}).get("n")
        obj = _canon(f, member_call_object(e), swap)
        args = [_canon(f, a, swap) for a in call_args(e)]
        if nm == "compare" and len(args) == 5:
            # l.compare(p, n, r, q, m) used as a boolean: symmetric in (l,p,n) / (r,q,m)
            x, y = sorted(((obj, args[0], args[1]), (args[2], args[3], args[4])))
            return "cmp5(%s|%s)" % (",".join(x), ",".join(y))
        return "%s.%s(%s)" % (obj, nm, ",".join(args))
    if k == "CallExpr":
        return "%s(%s)" % ((f.decl(e) or {}).get("n"), ",".join(_canon(f, a, swap) for a in call_args(e)))
    if k == "ConditionalOperator":
        return "(%s?%s:%s)" % tuple(_canon(f, c, swap) for c in e["c"])
    return k + "(" + ",".join(_canon(f, c, swap) for c in e.get("c", []) if c is not None) + ")"


def check_namesym(ctx, P):
    f = _fn(P, "decl_names_equal")
    ctx.analysed(f)
    l, r = f.r["params"][0], f.r["params"][1]
    # pair the locals by name:  l_xxx <-> r_xxx
    loc = {}
    for n in f.nodes():
        if n["k"] == "VarDecl":
            loc[(f.unit.decl(n.get("d")) or {}).get("n")] = n.get("d")
    swap = {l: r, r: l}
    for nm, d in loc.items():
        if nm and nm.startswith("l_") and ("r_" + nm[2:]) in loc:
            swap[d] = loc["r_" + nm[2:]]
            swap[loc["r_" + nm[2:]]] = d
    conds = []
    for n in f.nodes():
        if n["k"] in ("IfStmt", "WhileStmt"):
            conds.append((n, n["c"][0]))
        if n["k"] == "ReturnStmt" and n.get("c") and strip_casts(n["c"][0])["k"] not in ("CXXBoolLiteralExpr",):
            conds.append((n, n["c"][0]))
    ctx.floor("R-NAMESYM", "conditions / computed returns of decl_names_equal", len(conds), 3)
    from collections import Counter
    plain = Counter(_canon(f, c, {}) for _, c in conds)
    seen = {}
    for n, c in conds:
        a, b = _canon(f, c, {}), _canon(f, c, swap)
        # invariant on its own, or its mirror image is another condition of the function (`if (l_pos2 == npos) ..`
        # next to `if (r_pos2 == npos) ..`)
        ok = a == b or plain[b] == plain[a]
        ent = "decl_names_equal: `%s` is invariant under exchanging l and r (or has its mirror)" % expr_str(f, c)[:60]
        seen[ent] = seen.get(ent, 0) + 1
        if seen[ent] > 1:
            ent += " #%d" % seen[ent]
        ctx.ob("R-NAMESYM", ent, ok, f.loc(n),
               "canonical form unchanged by the exchange" if a == b else "its mirror image is tested as well" if ok else
               "the condition treats its two arguments differently and has no mirror: decl_names_equal(a, b) and "
               "decl_names_equal(b, a) can disagree")
    # the paired assignments inside the loop: every statement on an l_ local has its twin on the r_ local
    assigns = {}
    for n in f.nodes():
        if n["k"] == "BinaryOperator" and n.get("op") == "=":
            t = strip_casts(n["c"][0])
            if t is not None and t["k"] == "DeclRefExpr":
                assigns.setdefault(t.get("d"), []).append(_canon(f, n["c"][1], {}))
    for d, rhss in sorted(assigns.items()):
        if d not in swap:
            continue
        twin = swap[d]
        want = sorted(_canon_swapped(f, x, n2, swap) for x, n2 in _assign_nodes(f, twin))
        ok = sorted(rhss) == want
        nm = (f.unit.decl(d) or {}).get("n")
        ctx.ob("R-NAMESYM", "decl_names_equal: assignments to `%s` mirror those to `%s`" % (nm, (f.unit.decl(twin) or {}).get("n")),
               ok, f.loc(), "%d assignment(s) each" % len(rhss) if ok else "the two cursors are advanced differently")


def _rename(s, m):
    return s


def _assign_nodes(f, d):
    out = []
    for n in f.nodes():
        if n["k"] == "BinaryOperator" and n.get("op") == "=":
            t = strip_casts(n["c"][0])
            if t is not None and t["k"] == "DeclRefExpr" and t.get("d") == d:
                out.append((n["c"][1], n))
    return out


def _canon_swapped(f, rhs, n, swap):
    return _canon(f, rhs, swap)


def run(ctx):
    ctx.clause = ("string_begins_with / string_ends_with answer according to the definition in every world they decide "
                  "without comparing contents and agree with each other; split_string trims the fields it returns on both "
                  "sides; every condition of decl_names_equal is invariant under exchanging its arguments")
    ctx.rules = ["R-AFFIXTAB", "R-TRIMBOTH", "R-NAMESYM", "R-ALIASARG"]
    P = ctx.program(UNITS)
    check_affixtab(ctx, P)
    check_trimboth(ctx, P)
    check_namesym(ctx, P)
    # the path / string helpers are called in place (string_suffix(str, p, str), base_name(p, p), real_path(p, p) ...):
    # at those call sites "behaves as specified" needs the helper not to read its input after touching its output
    from rules import alias_rule
    PW = ctx.program(None)
    na = alias_rule.check(ctx, PW, PW.all_funcs())
    ctx.floor("R-ALIASARG", "helpers called with one string as input and output", na, 4)
    ctx.assume("the content comparisons themselves (std::string::compare) and the `::` scanning arithmetic of "
               "decl_names_equal are value-level behaviour and are not decided")
