"""C36 - write failures are reported (abidw / abilint exit status)."""
from rules import write_rules as wr


def run(ctx):
    ctx.clause = ("the writer entry points return the state of the output stream; abidw and abilint use that result, "
                  "flush/close the stream and test it before any success exit")
    ctx.rules = ["R-WRITERES/W1", "R-WRITERES/W2", "R-WRITERES/W3", "R-WRITERES/RAWBUF"]
    P = ctx.program(["src/abg-writer.cc", "tools/abidw.cc", "tools/abilint.cc"])
    wr.check_W1(ctx, P)
    wr.check_W2_W3(ctx, P)
    check_rawbuf(ctx, P)
    ctx.assume("the C++ stream reports a failed write(2) through its state after flush()/close() (libstdc++ behaviour)")



RAW = ("sputn", "sputc", "xsputn", "overflow", "pubsync", "sync", "sputbackc")


def check_rawbuf(ctx, P):
    """R-WRITERES/RAWBUF: W1-W3 decide the exit status from the *state* of the output stream.  The state records a failed
    write only for output that goes through the ostream interface (operator<<, put, write, flush set badbit); a direct
    call of the stream buffer (rdbuf()->sputn / sputc / pubsync ...) reports failure through its return value alone.  In the
    writer and in the two tools every such call has its result used; today there is none (all output is formatted
    insertion), which the instance count of insertions documents."""
    from engine.facts import walk, call_args, member_call_object, expr_str
    from rules.null_rules import short
    n_ins = n_raw = 0
    for f in sorted(P.all_funcs(), key=lambda x: (x.file, x.l0)):
        if f.dep or not (f.relfile.startswith("src/abg-writer") or f.relfile in ("tools/abidw.cc", "tools/abilint.cc")):
            continue
        for x in f.nodes():
            if x["k"] == "CXXOperatorCallExpr" and x.get("op") == "<<":
                n_ins += 1
            if x["k"] == "CXXMemberCallExpr" and (f.decl(x) or {}).get("n") in RAW and \
                    "streambuf" in ((f.decl(x) or {}).get("q") or (f.decl(x) or {}).get("cls") or ""):
                n_raw += 1
                ctx.analysed(f)
                p = f.parent(x)
                while p is not None and p["k"] in ("ImplicitCastExpr", "ParenExpr", "ExprWithCleanups"):
                    p = f.parent(p)
                used = p is not None and p["k"] not in ("CompoundStmt", "WhileStmt", "ForStmt", "DoStmt", "IfStmt", "FunctionBody",
                                                        "CaseStmt", "DefaultStmt", "LabelStmt") or \
                    (p is not None and p["k"] in ("IfStmt", "WhileStmt") and p["c"][0] is not None and any(y is x for y in walk(p["c"][0])))
                k = sum(1 for o in ctx.obligations if o["rule"] == "R-WRITERES/RAWBUF" and o["entity"].startswith(short(f) + ":"))
                ctx.ob("R-WRITERES/RAWBUF", "%s: the result of %s() #%d is looked at" % (short(f), (f.decl(x) or {}).get("n"), k + 1), used, f.loc(x),
                       "used" if used else
                       "`%s` writes into the stream buffer behind the stream's back and drops the only indication of failure: a "
                       "failed write(2) leaves good() true and the tool exits 0 on truncated output" % expr_str(f, x)[:70])
    ctx.ob("R-WRITERES/RAWBUF", "output of the writer and the tools goes through the ostream interface", True, "",
           "%d formatted insertions, %d direct stream-buffer calls" % (n_ins, n_raw))
    ctx.floor("R-WRITERES/RAWBUF", "formatted insertions in the writer and the tools", n_ins, 400)
