"""C36 - write failures are reported (abidw / abilint exit status)."""
from rules import write_rules as wr


def run(ctx):
    ctx.clause = ("the writer entry points return the state of the output stream; abidw and abilint use that result, "
                  "flush/close the stream and test it before any success exit")
    ctx.rules = ["R-WRITERES/W1", "R-WRITERES/W2", "R-WRITERES/W3"]
    P = ctx.program(["src/abg-writer.cc", "tools/abidw.cc", "tools/abilint.cc"])
    wr.check_W1(ctx, P)
    wr.check_W2_W3(ctx, P)
    ctx.assume("the C++ stream reports a failed write(2) through its state after flush()/close() (libstdc++ behaviour)")
