"""R-VFNCLASS: the ABIXML reader marks a member function as virtual (set_member_function_is_virtual /
set_member_function_vtable_offset) only when that function was built as a member of a *class*.

ir::fixup_virtual_member_function - reached from both setters - takes the method's containing type for a
class_decl (`is_class_type(...)` result used unchecked): a method of a union makes it dereference null.
The static type of the scope a method is built in is visible in the reader: build_class_decl works on a
class_decl_sptr, build_union_decl on a union_decl_sptr.  Provenance rule (typed def-use, through helper
parameters and all their call sites): the first argument of each setter call derives from
build_function_decl*(.., scope, ..) whose scope argument has static type class_decl_sptr.
"""
from engine.cfg import strip_casts
from engine.facts import walk, call_args, member_call_object, expr_str
from engine.compdb import AnalysisBroken
from rules.null_rules import short, _callsites

SETTERS = ("set_member_function_is_virtual", "set_member_function_vtable_offset")
PASS_THROUGH = ("is_method_decl", "is_function_decl", "dynamic_pointer_cast", "static_pointer_cast", "get")


def _var_init(f, decl_id):
    for n in f.nodes():
        if n["k"] == "VarDecl" and n.get("d") == decl_id and n.get("c") and n["c"][0] is not None:
            return n["c"][0]
    # condition variables:  if (T x = init)
    for n in f.nodes():
        v = n.get("var")
        if v is not None and v.get("d") == decl_id and v.get("c") and v["c"][0] is not None:
            return v["c"][0]
    return None


def classify(P, f, e, depth=0, trail=None):
    """'class' | 'union' | 'unknown: why'"""
    trail = trail if trail is not None else []
    e = strip_casts(e)
    while e is not None and e["k"] in ("ExprWithCleanups", "CXXBindTemporaryExpr", "MaterializeTemporaryExpr",
                                       "ImplicitCastExpr", "CXXConstructExpr") and e.get("c") and len(call_args(e) or e["c"]) == 1:
        e = strip_casts((call_args(e) or e["c"])[0])
    if e is None or depth > 6:
        return "unknown: expression too deep"
    if e["k"] in ("CallExpr", "CXXMemberCallExpr"):
        d = f.decl(e) or {}
        if d.get("n") in PASS_THROUGH and call_args(e):
            return classify(P, f, call_args(e)[0], depth + 1, trail)
        if d.get("n", "").startswith("build_function_decl"):
            for a in call_args(e):
                a0 = strip_casts(a)
                while a0 is not None and a0["k"] in ("CXXConstructExpr", "ImplicitCastExpr", "MaterializeTemporaryExpr",
                                                    "CXXBindTemporaryExpr") and a0.get("c"):
                    a0 = strip_casts((call_args(a0) or a0["c"])[0]) if (call_args(a0) or a0["c"]) else None
                t = (f.type(a0) or {}).get("c", "") if a0 is not None else ""
                if "class_or_union" in t:
                    if a0["k"] == "DeclRefExpr":
                        return classify(P, f, a0, depth + 1, trail)
                    return "unknown: scope of static type class_or_union"
                if "union_decl" in t:
                    trail.append("%s builds it in a scope of static type %s" % (short(f), (f.type(a0) or {}).get("s")))
                    return "union"
                if "class_decl" in t:
                    return "class"
            return "unknown: no scope argument"
        return "unknown: result of %s()" % d.get("n")
    if e["k"] == "DeclRefExpr":
        d = f.decl(e) or {}
        if d.get("k") == "ParmVar":
            idx = f.r["params"].index(e["d"]) if e.get("d") in f.r["params"] else None
            sites = _callsites(P).get(f.u, [])
            if idx is None or not sites:
                return "unknown: parameter `%s` of %s without visible callers" % (d.get("n"), short(f))
            res = set()
            for g, call in sites:
                a = call_args(call)
                r = classify(P, g, a[idx], depth + 1, trail) if idx < len(a) else "unknown: defaulted argument"
                if r != "class":
                    trail.append("%s passes `%s` to %s" % (short(g), expr_str(g, a[idx]) if idx < len(a) else "?", short(f)))
                res.add(r)
            if res == {"class"}:
                return "class"
            if "union" in res:
                return "union"
            return sorted(res - {"class"})[0]
        init = _var_init(f, e.get("d"))
        if init is None:
            t = (f.type(e) or {}).get("c", "")
            if "union_decl" in t:
                return "union"
            if "class_decl" in t and "class_or_union" not in t:
                return "class"
            return "unknown: `%s` has no visible initialiser" % d.get("n")
        return classify(P, f, init, depth + 1, trail)
    return "unknown: %s" % e["k"]


def check(ctx, P, files=("src/abg-reader.cc",), rule="R-VFNCLASS"):
    n = 0
    seen = {}
    for f in sorted(P.all_funcs(), key=lambda x: (x.file, x.l0)):
        if f.dep or not f.relfile.endswith(files):
            continue
        for c, d in f.calls():
            if d["n"] not in SETTERS or c["k"] != "CallExpr":
                continue
            n += 1
            ctx.analysed(f)
            trail = []
            r = classify(P, f, call_args(c)[0], 0, trail)
            ent = "%s: %s(%s, ..) only for methods built in a class" % (short(f), d["n"], expr_str(f, call_args(c)[0]))
            seen[ent] = seen.get(ent, 0) + 1
            if seen[ent] > 1:
                ent += " #%d" % seen[ent]
            ctx.ob(rule, ent, r == "class", f.loc(c),
                   "the method derives from build_function_decl*(.., scope of static type class_decl_sptr, ..)" if r == "class" else
                   "the method can be one built in a union (%s): ir::fixup_virtual_member_function then dereferences the "
                   "null result of is_class_type() - a <member-function vtable-offset=..> inside a <union-decl> crashes "
                   "the reader" % ("; ".join(trail) or r))
    ctx.floor(rule, "virtual-ness setter calls in the ABIXML reader", n, 2)
