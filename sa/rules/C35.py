"""C35 - analysing compiler output triggers no undefined behaviour (two classes of UB that are visible in the code).

Memory errors in general (bounds, lifetimes) depend on runtime values and are not decided.  Two kinds of undefined
behaviour do not: they are properties of the program text, hold or fail for *every* input, and a sanitizer only sees
them on the inputs that happen to reach the construct:

R-MEMBERINIT every scalar (arithmetic, enumeration, pointer) data member is initialised by every user-provided constructor
             reachable from a tool's main (initialiser list, default member initialiser, assignment through `this` in the
             body or in a member function the body calls): reading an indeterminate value is undefined behaviour.
R-RETFALL    no value-returning function of the library or the tools has a reachable path that flows off its end
             (undefined behaviour in C++; typically a switch over an enumeration without a final return or abort).
"""
from engine.compdb import AnalysisBroken


def run(ctx):
    ctx.clause = ("no constructor that the tools reach leaves a scalar data member uninitialised, and no value-returning "
                  "function can flow off its end - two kinds of undefined behaviour that do not depend on the input")
    ctx.rules = ["R-MEMBERINIT", "R-RETFALL"]
    P = ctx.program(None)
    from rules import C14
    C14.check_memberinit(ctx, P)
    check_retfall(ctx, P)
    ctx.assume("invalid memory accesses, use-after-free and every other undefined behaviour that depends on values (indexes, "
               "lifetimes, arithmetic) are not decided; the structural rules this framework has for malformed *inputs* are "
               "attached to C25, C33 and C34")


def check_retfall(ctx, P):
    n = 0
    for f in sorted(P.all_funcs(), key=lambda x: (x.file, x.l0, x.sig)):
        if f.dep or f.cfg() is None or f.q == "main":
            continue
        if not (f.q.startswith("abigail::") or f.relfile.startswith("tools/")):
            continue
        t = f.unit.type(f.r.get("ret")) if f.r.get("ret") else None
        ts = (t or {}).get("c") or (t or {}).get("s") or ""
        if not t or ts == "void" or f.n.startswith("~") or (f.cls and f.n == f.cls.split("::")[-1]):
            continue
        cfg = f.cfg()
        reach = cfg.reachable()
        ex = cfg.blocks.get(cfg.exit)
        if ex is None:
            continue
        n += 1
        for p in ex.preds:
            if p not in reach:
                continue
            b = cfg.blocks[p]
            if b.noret or any(e["k"] in ("ReturnStmt", "CXXThrowExpr") for e in b.elems):
                continue
            ctx.analysed(f)
            last = b.elems[-1] if b.elems else None
            ctx.ob("R-RETFALL", "%s returns a value on every path" % f.sig.replace("abigail::", "")[:110], False,
                   f.loc(last) if last is not None else f.loc(),
                   "a reachable path reaches the end of the function without a return statement (return type %s): the caller reads "
                   "an indeterminate value" % ts)
            break
    ctx.ob("R-RETFALL", "no value-returning function flows off its end", True, "", "%d value-returning functions inspected" % n)
    ctx.floor("R-RETFALL", "value-returning functions", n, 2500)
