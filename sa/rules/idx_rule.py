"""R-IDX: constant subscripts / front() / back() on vectors and strings need a dominating size fact.

Must-facts ('ge', container key, n): the container is known to hold at least n elements.
Learned from branch conditions over `X.size()` / `X.empty()`, killed by anything that can
modify X.  For std::string `s[k]` is defined for k <= size(), so `s[0]` is always fine and
s[k] needs size >= k; vectors need size >= k+1.
"""
from engine.cfg import forward, state_before, strip_casts, TOP, assigned_key, ptr_key
from engine.facts import walk, call_args, member_call_object, expr_str, CALL_KINDS
from rules.null_rules import short, occurrence_tag


def _is_vec(t):
    return t is not None and "std::vector<" in t["c"]


def _is_str(t):
    return t is not None and "basic_string<char" in t["c"] and "vector" not in t["c"]


def _size_call(f, n):
    """key of X if n is X.size() / X.length()"""
    n = strip_casts(n)
    if n is not None and n["k"] == "CXXMemberCallExpr" and (f.decl(n) or {}).get("n") in ("size", "length"):
        return expr_str(f, strip_casts(member_call_object(n)))
    return None


def _const(n):
    n = strip_casts(n)
    if n is None:
        return None
    if n["k"] == "IntegerLiteral":
        return n.get("v")
    if "v" in n and n["k"] in ("UnaryOperator", "BinaryOperator", "DeclRefExpr"):
        return n["v"]
    return None


def size_facts(f, cond, truth):
    n = strip_casts(cond)
    out = set()
    if n is None:
        return out
    k, c = n["k"], n.get("c", [])
    if k == "UnaryOperator" and n.get("op") == "!":
        return size_facts(f, c[0], not truth)
    if k == "BinaryOperator" and n.get("op") == "&&":
        return (size_facts(f, c[0], True) | size_facts(f, c[1], True)) if truth else out
    if k == "BinaryOperator" and n.get("op") == "||":
        return (size_facts(f, c[0], False) | size_facts(f, c[1], False)) if not truth else out
    if k == "CXXMemberCallExpr" and (f.decl(n) or {}).get("n") == "empty":
        if not truth:
            out.add(("ge", expr_str(f, strip_casts(member_call_object(n))), 1))
        return out
    key = _size_call(f, n)
    if key and truth:
        out.add(("ge", key, 1))
        return out
    if k == "BinaryOperator" and n.get("op") in ("==", "!=", "<", ">", "<=", ">="):
        op = n["op"]
        a, b = c
        ka, kb = _size_call(f, a), _size_call(f, b)
        va, vb = _const(a), _const(b)
        if kb and va is not None and not ka:       # N op X.size()  ->  X.size() op' N
            op = {"<": ">", ">": "<", "<=": ">=", ">=": "<=", "==": "==", "!=": "!="}[op]
            ka, vb = kb, va
        if ka and vb is not None:
            if not truth:
                op = {"==": "!=", "!=": "==", "<": ">=", ">": "<=", "<=": ">", ">=": "<"}[op]
            if op == "==":
                out.add(("ge", ka, vb))
            elif op == ">":
                out.add(("ge", ka, vb + 1))
            elif op == ">=":
                out.add(("ge", ka, vb))
            elif op == "!=" and vb == 0:
                out.add(("ge", ka, 1))
    return out


class SizeFlow(object):
    def __init__(self, f):
        self.f, self.cfg = f, f.cfg()

    def _kill(self, st, key):
        return frozenset(x for x in st if x[1] != key and not x[1].startswith(key + ".") and
                         not x[1].startswith(key + "->"))

    def transfer(self, st, n, blk):
        f = self.f
        key = assigned_key(f, n)
        if key is not None:
            rhs = None
            if n["k"] == "VarDecl" and n.get("c"):
                rhs = n["c"][0]
            elif n["k"] == "CXXOperatorCallExpr" and n.get("op") == "=" and len(n["c"]) == 3:
                rhs = n["c"][2]
            elif n["k"] == "BinaryOperator" and n.get("op") == "=":
                rhs = n["c"][1]
            rk = ptr_key(f, rhs) if rhs is not None else None
            st = self._kill(st, key)
            if rk and rk != key:
                # x = E with E a pure expression: facts about E->... / E. ... carry over to x
                extra = set()
                for (t, k2, m) in st:
                    for sep in ("->", "."):
                        if k2.startswith(rk + sep):
                            extra.add((t, key + k2[len(rk):], m))
                    if k2 == rk:
                        extra.add((t, key, m))
                st = st | frozenset(extra)
        if n["k"] == "CXXMemberCallExpr":
            d = f.decl(n)
            if d is not None and d["n"] in ("clear", "pop_back", "erase", "resize", "assign", "swap", "pop_front"):
                st = self._kill(st, expr_str(f, strip_casts(member_call_object(n))))
            if d is not None and d["n"] in ("push_back", "emplace_back"):
                k2 = expr_str(f, strip_casts(member_call_object(n)))
                cur = max([x[2] for x in st if x[1] == k2] or [0])
                st = self._kill(st, k2) | frozenset([("ge", k2, cur + 1)])
        if n["k"] in CALL_KINDS:
            d = f.decl(n)
            pts = (d or {}).get("pt", [])
            args = call_args(n)
            off = 1 if (n["k"] == "CXXOperatorCallExpr" and d and d["k"] == "CXXMethod") else 0
            for i, a in enumerate(args):
                j = i - off
                pt = f.unit.type(pts[j]) if 0 <= j < len(pts) else None
                if pt is not None and pt.get("ref") and not pt.get("const"):
                    a0 = strip_casts(a)
                    if a0 is not None and a0["k"] in ("DeclRefExpr", "MemberExpr"):
                        st = self._kill(st, expr_str(f, a0))
        return st

    def edge(self, st, blk, idx):
        if self.cfg.branch(blk.id) is None:
            return st
        facts = set()
        for c in self.cfg.branch_conds(blk.id):
            facts |= size_facts(self.f, c, idx == 0)
        return st | frozenset(facts) if facts else st

    def solve(self):
        self.ins, _ = forward(self.cfg, frozenset(), self.transfer, self.edge)
        return self

    def before(self, node):
        return state_before(self.cfg, self.ins, self.transfer, node)


def back_wrappers(P):
    """{usr: (parameter index, parameter name, container text)} for helpers whose whole body is
    `return <expression over one parameter>.back()` / .front() with no size test - get_last_data_member(klass) and the like:
    their call sites inherit the obligation"""
    import re
    out = {}
    for g in P.all_funcs():
        if g.dep or g.cfg() is None or not g.r["params"]:
            continue
        rets = [x for x in g.nodes() if x["k"] == "ReturnStmt" and x.get("c") and x["c"][0] is not None]
        if len(rets) != 1 or any(x["k"] in ("IfStmt", "ConditionalOperator", "ForStmt", "WhileStmt") for x in g.nodes()):
            continue
        e = strip_casts(rets[0]["c"][0])
        while e is not None and e["k"] in ("CXXConstructExpr", "ExprWithCleanups", "MaterializeTemporaryExpr", "CXXBindTemporaryExpr",
                                           "ImplicitCastExpr") and len([c for c in e.get("c", []) if c is not None]) == 1:
            e = strip_casts([c for c in e["c"] if c is not None][0])
        if e is None or e["k"] != "CXXMemberCallExpr" or (g.decl(e) or {}).get("n") not in ("front", "back") or call_args(e):
            continue
        obj = strip_casts(member_call_object(e))
        if not _is_vec(g.type(obj)):
            continue
        used = {y.get("d") for y in walk(obj) if y["k"] == "DeclRefExpr" and y.get("d") in g.r["params"]}
        if len(used) != 1:
            continue
        p = next(iter(used))
        out[g.u] = (g.r["params"].index(p), (g.unit.decl(p) or {}).get("n"), expr_str(g, obj), g.n)
    return out


def sites(f, wrappers=None):
    """[(node, container expr or key text, k, kind)]"""
    import re
    out = []
    for n in f.nodes():
        if wrappers and n["k"] == "CallExpr" and (f.decl(n) or {}).get("u") in wrappers:
            pi, pn, text, gname = wrappers[f.decl(n)["u"]]
            args = call_args(n)
            if pi < len(args) and args[pi] is not None:
                a = strip_casts(args[pi])
                while a is not None and a["k"] in ("CXXConstructExpr", "MaterializeTemporaryExpr", "ImplicitCastExpr", "CXXBindTemporaryExpr") and \
                        len([c for c in a.get("c", []) if c is not None]) == 1:
                    a = strip_casts([c for c in a["c"] if c is not None][0])
                atxt = expr_str(f, a)
                key = re.sub(r"\b%s\b" % re.escape(pn), atxt, text)
                out.append((n, key, 0, "vec"))
            continue
        if n["k"] == "CXXOperatorCallExpr" and n.get("op") == "[]" and len(n["c"]) == 3:
            obj, idx = strip_casts(n["c"][1]), n["c"][2]
            t = f.type(obj)
            k = _const(idx)
            if k is None or not (_is_vec(t) or _is_str(t)):
                continue
            out.append((n, obj, k, "vec" if _is_vec(t) else "str"))
        elif n["k"] == "CXXMemberCallExpr" and (f.decl(n) or {}).get("n") in ("front", "back") and not call_args(n):
            obj = strip_casts(member_call_object(n))
            t = f.type(obj)
            if _is_vec(t) or _is_str(t):
                out.append((n, obj, 0, "vec"))
    return out


def run(ctx, P, funcs, prop, benign=None):
    n_sites = 0
    wrappers = back_wrappers(P)
    for f in sorted(funcs, key=lambda x: (x.file, x.l0)):
        if f.dep or f.cfg() is None:
            continue
        ss = sites(f, wrappers)
        if not ss:
            continue
        ctx.analysed(f)
        sf = SizeFlow(f).solve()
        seen = {}
        for n, obj, k, kind in ss:
            st = sf.before(n)
            if st is TOP:
                continue
            need = k + 1 if kind == "vec" else k
            if need <= 0:
                continue           # s[0] on a std::string is defined even when empty
            n_sites += 1
            key = obj if isinstance(obj, str) else expr_str(f, obj)
            have = max([x[2] for x in st if x[1] == key] or [0])
            ent = "%s: %s needs size >= %d" % (short(f), expr_str(f, n), need)
            ent += occurrence_tag(seen, ent)
            ctx.ob("R-IDX", ent, have >= need, f.loc(n),
                   "size of `%s` is known to be >= %d here" % (key, have) if have >= need else
                   "`%s` is evaluated while `%s` is only known to hold >= %d element(s): an input with fewer "
                   "elements reads out of bounds" % (expr_str(f, n), key, have))
    return n_sites
