"""R-CATPART and R-OPTWIRE: the category masks partition the category space and are wired to the
options (C05, C07)."""
from engine.facts import walk, call_args, member_call_object, expr_str
from engine.cfg import strip_casts
from engine.compdb import AnalysisBroken

UNITS = ["src/abg-comparison.cc", "src/abg-comp-filter.cc", "tools/abidiff.cc", "tools/abipkgdiff.cc"]
CAT = "abigail::comparison::diff_category"


def eval_cat(f, n):
    """evaluate an expression built from diff_category enumerators with | & ~"""
    n = strip_casts(n)
    if n is None:
        return None
    if "v" in n and n["k"] in ("DeclRefExpr", "IntegerLiteral"):
        return n["v"]
    if n["k"] == "DeclRefExpr":
        d = f.decl(n)
        return d.get("v") if d and d["k"] == "EnumConstant" else None
    if n["k"] in ("CXXOperatorCallExpr", "BinaryOperator") and n.get("op") in ("|", "&"):
        a = call_args(n) if n["k"] == "CXXOperatorCallExpr" else n["c"]
        x, y = eval_cat(f, a[0]), eval_cat(f, a[1])
        if x is None or y is None:
            return None
        return x | y if n["op"] == "|" else x & y
    if n["k"] in ("CXXOperatorCallExpr", "UnaryOperator") and n.get("op") == "~":
        a = call_args(n) if n["k"] == "CXXOperatorCallExpr" else n["c"]
        x = eval_cat(f, a[0])
        return None if x is None else ~x
    return None


def bitmap_of(P, q):
    f = P.fn1(q)
    rets = [n for n in f.nodes() if n["k"] == "ReturnStmt" and n.get("c")]
    if len(rets) != 1:
        raise AnalysisBroken("%s is no longer a single return of a category mask" % q)
    v = eval_cat(f, rets[0]["c"][0])
    if v is None:
        raise AnalysisBroken("cannot constant-evaluate %s" % q)
    return f, v


def cats_set_by(f):
    """diff_category enumerators a function ORs into a category / passes to add_to_category"""
    out = {}
    for n in f.nodes():
        if n["k"] == "DeclRefExpr":
            d = f.decl(n)
            if d and d["k"] == "EnumConstant" and d.get("enum") == CAT and d["v"] != 0:
                # must be in a |= / add_to_category / assignment context, not in a test
                p = f.parent(n)
                ctxk = None
                while p is not None:
                    if p["k"] in ("CompoundAssignOperator",) and p.get("op") == "|=":
                        ctxk = "|="
                        break
                    if p["k"] == "CXXOperatorCallExpr" and p.get("op") in ("|=", "="):
                        ctxk = p["op"]
                        break
                    if p["k"] == "CXXMemberCallExpr" and (f.decl(p) or {}).get("n") in ("add_to_category",
                                                                                      "add_to_local_category",
                                                                                      "add_to_local_and_inherited_categories"):
                        ctxk = "add"
                        break
                    if p["k"] in ("IfStmt", "WhileStmt", "ForStmt", "ReturnStmt", "CompoundStmt"):
                        break
                    p = f.parent(p)
                if ctxk:
                    out[d["n"]] = d["v"]
    return out


def check_catpart(ctx, P):
    consts = P.enum_consts(CAT)
    hl_f, harmless = bitmap_of(P, "abigail::comparison::get_default_harmless_categories_bitmap")
    hf_f, harmful = bitmap_of(P, "abigail::comparison::get_default_harmful_categories_bitmap")
    ctx.analysed(hl_f)
    ctx.analysed(hf_f)
    everything = consts.get("EVERYTHING_CATEGORY")
    if everything is None:
        raise AnalysisBroken("anchor vanished: EVERYTHING_CATEGORY")
    singles = {n: v for n, v in consts.items() if n not in ("EVERYTHING_CATEGORY", "NO_CHANGE_CATEGORY")}
    ctx.floor("R-CATPART", "category enumerators", len(singles), 20)
    seen_bits = {}
    for n, v in sorted(singles.items(), key=lambda kv: kv[1]):
        single = v > 0 and (v & (v - 1)) == 0
        dup = seen_bits.get(v)
        seen_bits.setdefault(v, n)
        ctx.ob("R-CATPART", "%s is a distinct single bit" % n, single and dup is None, "",
               "value %#x" % v + ("" if dup is None else " (same bit as %s)" % dup))
    ctx.ob("R-CATPART", "harmless and harmful masks are disjoint", harmless & harmful == 0, hl_f.loc(),
           "harmless=%#x harmful=%#x overlap=%#x" % (harmless, harmful, harmless & harmful))
    special = 0
    for n in ("SUPPRESSED_CATEGORY", "PRIVATE_TYPE_CATEGORY", "REDUNDANT_CATEGORY"):
        special |= consts[n]
    union = harmless | harmful | special
    allbits = 0
    for v in singles.values():
        allbits |= v
    missing = [n for n, v in singles.items() if not (v & union)]
    ctx.ob("R-CATPART", "harmless | harmful | {SUPPRESSED, PRIVATE_TYPE, REDUNDANT} covers every category",
           not missing and union == allbits, hl_f.loc(),
           "categories in neither mask: %s" % (missing or "none"))
    ctx.ob("R-CATPART", "EVERYTHING_CATEGORY is the union of all categories", everything == allbits, "",
           "EVERYTHING=%#x union=%#x" % (everything, allbits))
    # categorisers
    hl = P.fn1("abigail::comparison::filtering::categorize_harmless_diff_node")
    hf = P.fn1("abigail::comparison::filtering::categorize_harmful_diff_node")
    ctx.analysed(hl)
    ctx.analysed(hf)
    sl, sh = cats_set_by(hl), cats_set_by(hf)
    ctx.floor("R-CATPART", "categories set by categorize_harmless_diff_node", len(sl), 12)
    ctx.floor("R-CATPART", "categories set by categorize_harmful_diff_node", len(sh), 3)
    for n, v in sorted(sl.items()):
        ctx.ob("R-CATPART", "harmless categoriser sets %s => in harmless mask" % n, bool(v & harmless) and not (v & harmful),
               hl.loc(), "a category the harmless categoriser assigns must be hidden by default and shown by --harmless")
    for n, v in sorted(sh.items()):
        ctx.ob("R-CATPART", "harmful categoriser sets %s => in harmful mask" % n, bool(v & harmful) and not (v & harmless),
               hf.loc(), "a category the harmful categoriser assigns must never be switched off by default")
    for n, v in sorted(singles.items()):
        if v & harmless:
            ctx.ob("R-CATPART", "harmless mask member %s is set by the harmless categoriser" % n, n in sl, hl_f.loc(),
                   "every default-hidden category has a producer in categorize_harmless_diff_node")
        if v & harmful:
            ctx.ob("R-CATPART", "harmful mask member %s is set by the harmful categoriser" % n, n in sh, hf_f.loc(),
                   "every harmful category has a producer in categorize_harmful_diff_node")
    # is_filtered_out consults only the allowed mask and the three special categories
    fo = [f for f in P.all_funcs() if f.n == "is_filtered_out" and f.cls == "abigail::comparison::diff::priv"]
    if len(fo) != 1:
        raise AnalysisBroken("anchor vanished: diff::priv::is_filtered_out")
    fo = fo[0]
    ctx.analysed(fo)
    used = set()
    for n in fo.nodes():
        if n["k"] == "DeclRefExpr":
            d = fo.decl(n)
            if d and d["k"] == "EnumConstant" and d.get("enum") == CAT:
                used.add(d["n"])
    allowed = {"SUPPRESSED_CATEGORY", "PRIVATE_TYPE_CATEGORY", "REDUNDANT_CATEGORY", "EVERYTHING_CATEGORY",
               "NO_CHANGE_CATEGORY"}
    ctx.ob("R-CATPART", "is_filtered_out tests only the allowed mask and the special categories", used <= allowed,
           fo.loc(), "category enumerators referenced: %s" % sorted(used))
    calls = {(fo.decl(n) or {}).get("n") for n in fo.nodes() if n["k"] == "CXXMemberCallExpr"}
    ctx.ob("R-CATPART", "is_filtered_out consults get_allowed_category()", "get_allowed_category" in calls, fo.loc(),
           "member calls: %s" % sorted(c for c in calls if c))
    return harmless, harmful


def check_optwire(ctx, P, tools=("tools/abidiff.cc", "tools/abipkgdiff.cc")):
    n = 0
    for f in sorted(P.all_funcs(), key=lambda x: (x.file, x.l0)):
        if f.dep or not f.relfile.endswith(tools):
            continue
        for c in f.nodes():
            if c["k"] != "CXXMemberCallExpr" or (f.decl(c) or {}).get("n") != "switch_categories_off":
                continue
            arg = call_args(c)[0]
            which = None
            for x in walk(arg):
                if x["k"] == "CallExpr":
                    nm = (f.decl(x) or {}).get("n", "")
                    if nm == "get_default_harmless_categories_bitmap":
                        which = "harmless"
                    if nm == "get_default_harmful_categories_bitmap":
                        which = "harmful"
            if which is None:
                continue
            n += 1
            ctx.analysed(f)
            guard = None
            for anc in f.ancestors(c):
                if anc["k"] == "IfStmt":
                    guard = anc["c"][0]
                    break
                if anc["k"] == "FunctionBody":
                    break
            gtxt = expr_str(f, guard) if guard is not None else "<unconditional>"
            want = "!opts.show_%s_changes" % which
            ok = gtxt.replace(" ", "") == want
            ctx.ob("R-OPTWIRE", "%s %s: switch_categories_off(%s) guarded by %s" % (
                f.relfile.split("/")[-1], f.n, which, want), ok, f.loc(c),
                "guard is `%s`" % gtxt)
    ctx.floor("R-OPTWIRE", "switch_categories_off(default masks) sites in abidiff/abipkgdiff", n, 3)
    # writers of the two option fields
    for fld, flag, val in (("show_harmless_changes", "--harmless", 1), ("show_harmful_changes", "--no-harmful", 0)):
        for f in P.all_funcs():
            if f.dep or not f.relfile.endswith("tools/abidiff.cc"):
                continue
            for a in f.nodes():
                if a["k"] == "BinaryOperator" and a.get("op") == "=":
                    l = strip_casts(a["c"][0])
                    if l is not None and l["k"] == "MemberExpr" and (f.decl(l) or {}).get("n") == fld:
                        r = strip_casts(a["c"][1])
                        # the enclosing if compares argv[i] with the flag literal
                        lits = []
                        for anc in f.ancestors(a):
                            if anc["k"] == "IfStmt":
                                lits = [x["s"] for x in walk(anc["c"][0]) if x["k"] == "StringLiteral"]
                                break
                        ok = flag in lits and r is not None and r.get("v") == val
                        ctx.ob("R-OPTWIRE", "abidiff: opts.%s is written only by %s" % (fld, flag), ok, f.loc(a),
                               "assignment `%s` under option literal(s) %s" % (expr_str(f, a), lits))
