"""C21 - R-HASCHG: a diff node "has changes" exactly when its two subjects are unequal.

Every override of diff::has_changes() for an *artifact* diff must be a single
`return a != b` / `return !(a == b)` whose operator resolves to one of the IR's
deep-equality operators (namespace abigail::ir) and whose operands are the
node's own first/second subject accessors.  Container diffs (scope,
translation unit, corpus) are a separate, listed kind.
"""
import re

from engine.facts import walk, call_args, member_call_object, expr_str
from engine.compdb import AnalysisBroken
from engine.cfg import strip_casts

UNITS = ["src/abg-comparison.cc"]

CONTAINER_DIFFS = {
    "abigail::comparison::scope_diff": "container of member diffs: changed/added/removed member sets",
    "abigail::comparison::translation_unit_diff": "delegates to scope_diff",
    "abigail::comparison::corpus_diff": "container: soname/arch/functions/variables/symbols/unreachable types",
}


def _unwrap_return(f):
    """body must be: { [decls of locals bound to subject accessors;] return E; }"""
    body = f.body["c"][-1]
    stmts = [s for s in body.get("c", []) if s is not None]
    if not stmts or stmts[-1]["k"] != "ReturnStmt":
        return None, None
    locals_ = {}
    for s in stmts[:-1]:
        if s["k"] != "DeclStmt":
            return None, None
        for v in s["c"]:
            d = f.decl(v)
            locals_[d["n"]] = v["c"][0] if v.get("c") else None
    return stmts[-1]["c"][0], locals_


def _subject_accessor(f, n, locals_, depth=0):
    """name of the accessor method of this diff class the operand comes from"""
    if n is None or depth > 6:
        return None
    k = n["k"]
    if k == "CXXOperatorCallExpr" and n.get("op") == "*":
        return _subject_accessor(f, n["c"][1], locals_, depth + 1)
    if k == "UnaryOperator" and n.get("op") == "*":
        return _subject_accessor(f, n["c"][0], locals_, depth + 1)
    if k in ("CXXConstructExpr", "CXXTemporaryObjectExpr") and len(n.get("c", [])) == 1:
        return _subject_accessor(f, n["c"][0], locals_, depth + 1)
    if k == "DeclRefExpr":
        d = f.decl(n)
        if d and d["n"] in locals_:
            return _subject_accessor(f, locals_[d["n"]], locals_, depth + 1)
        return None
    if k == "CXXMemberCallExpr":
        obj = member_call_object(n)
        d = f.decl(n)
        if obj is not None and obj["k"] == "CXXThisExpr" and d is not None and not call_args(n):
            return d["n"]
    return None


def eqsym(ctx, P):
    """R-EQSYM: in every ir::equals(l, r, k) overload each (in)equality whose operands derive from the two
    parameters pairs an l-derived value with an r-derived value reached through the *same* accessor path
    (or compares two values of the same side: iteration bounds).  A comparison of different accessors
    of l and r, or a one-sided test against something else, makes equality order-dependent."""
    eqs = [f for f in P.all_funcs() if f.q == "abigail::ir::equals" and len(f.r["params"]) == 3 and not f.dep]
    ctx.floor("R-EQSYM", "ir::equals overloads", len(eqs), 15)
    n_cmp = 0
    for f in sorted(eqs, key=lambda x: x.l0):
        ctx.analysed(f)
        pa, pb = f.r["params"][0], f.r["params"][1]
        side = {pa: ("L", "#"), pb: ("R", "#")}

        def path(e):
            sides = set()
            txt = expr_str(f, e)
            for x in walk(e):
                if x["k"] == "DeclRefExpr" and x.get("d") in side:
                    sd, pth = side[x["d"]]
                    sides.add(sd)
                    nm = (f.decl(x) or {}).get("n")
                    txt = re.sub(r"\b%s\b" % re.escape(nm), "#" if pth == "#" else "(" + pth + ")", txt)
            return sides, txt
        changed = True
        while changed:
            changed = False
            for n in f.nodes():
                tgt = rhs = None
                if n["k"] == "VarDecl" and n.get("c") and n["c"][0] is not None:
                    tgt, rhs = n.get("d"), n["c"][0]
                elif n["k"] == "BinaryOperator" and n.get("op") == "=":
                    l0 = n["c"][0]
                    if l0 is not None and l0["k"] == "DeclRefExpr":
                        tgt, rhs = l0.get("d"), n["c"][1]
                elif n["k"] == "CXXOperatorCallExpr" and n.get("op") == "=" and len(n["c"]) == 3:
                    l0 = n["c"][1]
                    if l0 is not None and l0["k"] == "DeclRefExpr":
                        tgt, rhs = l0.get("d"), n["c"][2]
                elif n["k"] == "CXXForRangeStmt" and n.get("d") and n.get("c") and n["c"][0] is not None:
                    tgt, rhs = n.get("d"), n["c"][0]        # the loop variable ranges over one side's container
                if tgt is None or tgt in side or rhs is None:
                    continue
                sd, txt = path(rhs)
                if len(sd) == 1:
                    side[tgt] = (next(iter(sd)), txt)
                    changed = True
        short_sig = f.sig.replace("abigail::ir::", "").split(",")[0] + ", ...)"
        seen = {}
        cmps = []
        for n in f.nodes():
            if n["k"] in ("BinaryOperator", "CXXOperatorCallExpr") and n.get("op") in ("==", "!="):
                ops = call_args(n) if n["k"] == "CXXOperatorCallExpr" else n["c"]
                if len(ops) == 2:
                    cmps.append((n, ops, path(ops[0]), path(ops[1])))
        # a test of one side against a constant is symmetric when the other side gets the same test
        one_sided = {}
        for n, ops, (s1, t1), (s2, t2) in cmps:
            if len(s1) == 1 and not s2:
                one_sided.setdefault((n.get("op"), t1, t2), set()).update(s1)
            elif len(s2) == 1 and not s1:
                one_sided.setdefault((n.get("op"), t2, t1), set()).update(s2)
        for n, ops, (s1, t1), (s2, t2) in cmps:
            if True:
                if not s1 and not s2:
                    continue
                # `it == c.end()` is an iteration bound / membership sentinel, not a comparison of two values
                # of the subjects (equals(class_decl) looks l's vtable offsets up in r's map this way, and the
                # existential match that follows is symmetric); out of the rule's scope
                if any(x is not None and x["k"] == "CXXMemberCallExpr" and (f.decl(x) or {}).get("n") in ("end", "cend")
                       for x in (strip_casts(ops[0]), strip_casts(ops[1]))):
                    continue
                n_cmp += 1
                cross = (s1 == {"L"} and s2 == {"R"}) or (s1 == {"R"} and s2 == {"L"})
                same = s1 == s2 and len(s1) == 1
                mirrored = (one_sided.get((n.get("op"), t1, t2)) == {"L", "R"} or
                            one_sided.get((n.get("op"), t2, t1)) == {"L", "R"})
                ok = same or (cross and t1 == t2) or mirrored
                if ok:
                    continue
                ent = "%s: `%s` is symmetric in its two operands" % (short_sig, expr_str(f, n)[:80])
                ent += ("" if ent not in seen else " #%d" % (seen[ent] + 1))
                seen[ent] = seen.get(ent, 0) + 1
                ctx.ob("R-EQSYM", ent, False, f.loc(n),
                       "left operand derives from %s through `%s`, right operand from %s through `%s`: swapping the "
                       "arguments of equals() changes what is compared" % (sorted(s1) or "neither", t1[:60],
                                                                            sorted(s2) or "neither", t2[:60]))
        ctx.ob("R-EQSYM", "%s: every parameter-derived comparison is symmetric" % short_sig, True, f.loc(), "")
        # ---- predicates: a boolean atom (call / member call used as a truth value) that looks at one side only must
        # have its mirror - the same call on the other side - somewhere in the function
        atoms = {}

        def leaves(e):
            e = strip_casts(e)
            if e is None:
                return []
            if e["k"] == "UnaryOperator" and e.get("op") == "!":
                return leaves(e["c"][0])
            if e["k"] == "CXXOperatorCallExpr" and e.get("op") == "!":
                return leaves(e["c"][-1])
            if e["k"] == "BinaryOperator" and e.get("op") in ("&&", "||"):
                return leaves(e["c"][0]) + leaves(e["c"][1])
            if e["k"] == "ParenExpr" and e.get("c"):
                return leaves(e["c"][0])
            return [e]
        conds = []
        for n in f.nodes():
            if n["k"] == "IfStmt":
                conds.append(n["c"][0])
            elif n["k"] == "ConditionalOperator":
                conds.append(n["c"][0])
        # `!!a != !!b` (or ==) between mirrored values: afterwards a null test of one of them speaks for both
        samenull = set()
        for n, ops, (s1, t1), (s2, t2) in cmps:
            if {frozenset(s1), frozenset(s2)} == {frozenset({"L"}), frozenset({"R"})} and t1 == t2 and t1.startswith("!!"):
                samenull.add(t1[2:].strip("()"))
        for c in conds:
            for a in leaves(c):
                if a["k"] not in ("CallExpr", "CXXMemberCallExpr"):
                    continue
                sd, txt = path(a)
                if len(sd) != 1:
                    continue
                # the environment is shared by the two operands: a question put to it is not about one side
                if "#.get_environment()" in txt and txt.count("#") == 1:
                    continue
                # a local the analysis could not attribute to one side (built from both operands) takes part
                if any(x["k"] == "DeclRefExpr" and (f.decl(x) or {}).get("st") == "local" and x.get("d") not in side
                       for x in walk(a)):
                    continue
                # null test of a value whose nullness was compared with its mirror's
                if a["k"] == "CXXMemberCallExpr" and (f.decl(a) or {}).get("n", "").startswith("operator bool"):
                    inner = txt.replace(".operator bool()", "").strip("()")
                    if inner in samenull or any(inner in s_ or s_ in inner for s_ in samenull):
                        continue
                atoms.setdefault(txt, {}).setdefault(next(iter(sd)), a)
        for txt, by_side in sorted(atoms.items()):
            n_cmp += 1
            if set(by_side) == {"L", "R"}:
                continue
            only = next(iter(by_side))
            a = by_side[only]
            ent = "%s: predicate `%s` is applied to both operands" % (short_sig, expr_str(f, a)[:80])
            ctx.ob("R-EQSYM", ent, False, f.loc(a),
                   "`%s` is tested on the %s operand only (normal form `%s`): equals(a, b) and equals(b, a) can disagree" % (
                       expr_str(f, a)[:80], "left" if only == "L" else "right", txt[:80]))
    ctx.floor("R-EQSYM", "parameter-derived comparisons in ir::equals overloads", n_cmp, 60)


def run(ctx):
    ctx.clause = ("every artifact diff's has_changes() is, by construction, the negation of the IR's "
                  "deep equality on the node's own two subjects (so diffing and equality cannot disagree); and every "
                  "comparison inside the ir::equals overloads pairs the same accessor of its two arguments (the "
                  "syntactic part of symmetry)")
    ctx.rules = ["R-HASCHG", "R-HASCHG/ARRAY", "R-EQSYM"]
    P = ctx.program(UNITS + ["src/abg-ir.cc"])
    base = P.fn1("abigail::comparison::corpus_diff::has_changes")  # anchor
    diff_classes = P.subclasses("abigail::comparison::diff")
    overr = [f for f in P.all_funcs()
             if f.n == "has_changes" and f.cls and (f.cls in diff_classes or f.cls in CONTAINER_DIFFS)
             and not f.r["params"]]
    n_art = 0
    for f in sorted(overr, key=lambda x: x.q):
        ctx.analysed(f)
        cls = f.cls
        short = cls.split("::")[-1]
        if cls in CONTAINER_DIFFS:
            ctx.note("container diff %s: %s (not an artifact diff)" % (short, CONTAINER_DIFFS[cls]))
            continue
        if cls == "abigail::comparison::diff":
            continue
        n_art += 1
        ent = "%s::has_changes" % short
        expr, locals_ = _unwrap_return(f)
        if expr is None:
            ctx.ob("R-HASCHG", ent, False, f.loc(),
                   "body is not a single `return a != b`: it re-implements a comparison instead of "
                   "negating the IR equality of its subjects")
            continue
        neg = False
        e = expr
        if e["k"] == "UnaryOperator" and e.get("op") == "!":
            neg, e = True, e["c"][0]
        op = e.get("op")
        callee = f.decl(e) if e["k"] == "CXXOperatorCallExpr" else None
        ok_shape = (e["k"] == "CXXOperatorCallExpr" and ((op == "!=" and not neg) or (op == "==" and neg)))
        if not ok_shape or callee is None:
            ctx.ob("R-HASCHG", ent, False, f.loc(e),
                   "returned expression `%s` is not an (in)equality of the two subjects" % expr_str(f, expr))
            continue
        deep = bool(re.match(r"abigail::ir::(\w+::)*operator(==|!=)$", callee["q"]))
        a, b = call_args(e)[-2:]
        acc = (_subject_accessor(f, a, locals_), _subject_accessor(f, b, locals_))
        own = (acc[0] is not None and acc[1] is not None and acc[0].startswith("first")
               and acc[1].startswith("second") and acc[0][5:] == acc[1][6:])
        detail = "return %s  [operator: %s; operands: %s / %s]" % (
            expr_str(f, expr), callee["sig"], acc[0], acc[1])
        if not deep:
            detail += " - operator is not an IR deep-equality operator (pointer identity?)"
        if not own:
            detail += " - operands are not this node's own first/second subject accessors"
        ctx.ob("R-HASCHG", ent, deep and own, f.loc(e), detail)
    ctx.floor("R-HASCHG", "artifact diff classes overriding has_changes", n_art, 15)
    # the recorded deviant sibling re-implements the comparison; as long as it does, it must at least look at everything
    # equals(array_type_def) distinguishes: the element type (through its diff) and the *dimensions* - which only the name
    # (element type name + every bound) or the subranges carry; total size and dimension count do not (int[2][6] / int[3][4])
    arr = [f for f in overr if f.cls and f.cls.endswith("array_diff")]
    if arr:
        f = arr[0]
        reads = {(f.decl(x) or {}).get("n") for x in f.nodes() if x["k"] == "CXXMemberCallExpr"}
        own = not f.nodes() or True
        expr, _ = _unwrap_return(f)
        if expr is None:                                 # still the hand-written comparison
            dims = reads & {"get_name", "get_qualified_name", "get_pretty_representation", "get_subranges"}
            ctx.ob("R-HASCHG/ARRAY", "array_diff::has_changes looks at the dimensions of the two arrays", bool(dims), f.loc(),
                   "through %s()" % "/".join(sorted(dims)) if dims else
                   "it reads %s: two arrays with the same element type, total size and number of dimensions but different bounds "
                   "(int[2][6] / int[3][4]) are unequal for the IR and `unchanged` for the diff" % sorted(r for r in reads if r and r.startswith("get_")))
    eqsym(ctx, P)
