"""C21 - R-HASCHG: a diff node "has changes" exactly when its two subjects are unequal.

Every override of diff::has_changes() for an *artifact* diff must be a single
`return a != b` / `return !(a == b)` whose operator resolves to one of the IR's
deep-equality operators (namespace abigail::ir) and whose operands are the
node's own first/second subject accessors.  Container diffs (scope,
translation unit, corpus) are a separate, listed kind.
"""
import re

from engine.facts import walk, call_args, member_call_object, expr_str
from engine.compdb import AnalysisBroken

UNITS = ["src/abg-comparison.cc"]

CONTAINER_DIFFS = {
    "abigail::comparison::scope_diff": "container of member diffs: changed/added/removed member sets",
    "abigail::comparison::translation_unit_diff": "delegates to scope_diff",
    "abigail::comparison::corpus_diff": "container: soname/arch/functions/variables/symbols/unreachable types",
}


def _unwrap_return(f):
    """body must be: { [decls of locals bound to subject accessors;] return E; }"""
    body = f.body["c"][-1]
    stmts = [s for s in body.get("c", []) if s is not None]
    if not stmts or stmts[-1]["k"] != "ReturnStmt":
        return None, None
    locals_ = {}
    for s in stmts[:-1]:
        if s["k"] != "DeclStmt":
            return None, None
        for v in s["c"]:
            d = f.decl(v)
            locals_[d["n"]] = v["c"][0] if v.get("c") else None
    return stmts[-1]["c"][0], locals_


def _subject_accessor(f, n, locals_, depth=0):
    """name of the accessor method of this diff class the operand comes from"""
    if n is None or depth > 6:
        return None
    k = n["k"]
    if k == "CXXOperatorCallExpr" and n.get("op") == "*":
        return _subject_accessor(f, n["c"][1], locals_, depth + 1)
    if k == "UnaryOperator" and n.get("op") == "*":
        return _subject_accessor(f, n["c"][0], locals_, depth + 1)
    if k in ("CXXConstructExpr", "CXXTemporaryObjectExpr") and len(n.get("c", [])) == 1:
        return _subject_accessor(f, n["c"][0], locals_, depth + 1)
    if k == "DeclRefExpr":
        d = f.decl(n)
        if d and d["n"] in locals_:
            return _subject_accessor(f, locals_[d["n"]], locals_, depth + 1)
        return None
    if k == "CXXMemberCallExpr":
        obj = member_call_object(n)
        d = f.decl(n)
        if obj is not None and obj["k"] == "CXXThisExpr" and d is not None and not call_args(n):
            return d["n"]
    return None


def run(ctx):
    ctx.clause = ("every artifact diff's has_changes() is, by construction, the negation of the IR's "
                  "deep equality on the node's own two subjects (so diffing and equality cannot disagree)")
    ctx.rules = ["R-HASCHG"]
    P = ctx.program(UNITS)
    base = P.fn1("abigail::comparison::corpus_diff::has_changes")  # anchor
    diff_classes = P.subclasses("abigail::comparison::diff")
    overr = [f for f in P.all_funcs()
             if f.n == "has_changes" and f.cls and (f.cls in diff_classes or f.cls in CONTAINER_DIFFS)
             and not f.r["params"]]
    n_art = 0
    for f in sorted(overr, key=lambda x: x.q):
        ctx.analysed(f)
        cls = f.cls
        short = cls.split("::")[-1]
        if cls in CONTAINER_DIFFS:
            ctx.note("container diff %s: %s (not an artifact diff)" % (short, CONTAINER_DIFFS[cls]))
            continue
        if cls == "abigail::comparison::diff":
            continue
        n_art += 1
        ent = "%s::has_changes" % short
        expr, locals_ = _unwrap_return(f)
        if expr is None:
            ctx.ob("R-HASCHG", ent, False, f.loc(),
                   "body is not a single `return a != b`: it re-implements a comparison instead of "
                   "negating the IR equality of its subjects")
            continue
        neg = False
        e = expr
        if e["k"] == "UnaryOperator" and e.get("op") == "!":
            neg, e = True, e["c"][0]
        op = e.get("op")
        callee = f.decl(e) if e["k"] == "CXXOperatorCallExpr" else None
        ok_shape = (e["k"] == "CXXOperatorCallExpr" and ((op == "!=" and not neg) or (op == "==" and neg)))
        if not ok_shape or callee is None:
            ctx.ob("R-HASCHG", ent, False, f.loc(e),
                   "returned expression `%s` is not an (in)equality of the two subjects" % expr_str(f, expr))
            continue
        deep = bool(re.match(r"abigail::ir::(\w+::)*operator(==|!=)$", callee["q"]))
        a, b = call_args(e)[-2:]
        acc = (_subject_accessor(f, a, locals_), _subject_accessor(f, b, locals_))
        own = (acc[0] is not None and acc[1] is not None and acc[0].startswith("first")
               and acc[1].startswith("second") and acc[0][5:] == acc[1][6:])
        detail = "return %s  [operator: %s; operands: %s / %s]" % (
            expr_str(f, expr), callee["sig"], acc[0], acc[1])
        if not deep:
            detail += " - operator is not an IR deep-equality operator (pointer identity?)"
        if not own:
            detail += " - operands are not this node's own first/second subject accessors"
        ctx.ob("R-HASCHG", ent, deep and own, f.loc(e), detail)
    ctx.floor("R-HASCHG", "artifact diff classes overriding has_changes", n_art, 15)
