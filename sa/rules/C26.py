"""C26 - public-header filtering hides only private types (location predicate, gates, generator, option wiring).

Which file a type is defined in is a runtime value.  What decides the fate of a type *given* that value is a short
chain of predicates, each decided here over its whole finite domain with the world interpreter (rules/world.py):

R-HDRLOC   suppression_matches_type_location(s, location): over {location known} x {path matches the keep-regexp} x
           {base name in the keep-set} x {path in the keep-set} x {the section has keep properties}: a type located in
           a file to keep is never matched (-> its changes are reported); one located elsewhere is matched; without a
           location a section that carries keep properties does not match.
R-HDRGATE  every function of abg-suppression.cc that consults suppression_matches_type_location answers false in the
           world where that call answers false (the location test can only narrow a match, never be overridden) -
           this covers the diff-time path (suppresses_type) and the load-time path of --drop-private-types
           (suppression_matches_type_name_or_location), so dropping uses the same verdict about public types.
R-HDRGEN   tools_utils::handle_file_entry: the suppression it creates carries the private-types label
           (the label is_private_type_suppr_spec tests), is artificial, and on every path the file is inserted into
           get_source_locations_to_keep(); handle_fts_entry reaches it for regular files / symlinks named *.h, *.hpp,
           *.hxx and for nothing else.
R-REDUNDSKIP the redundancy pass (redundancy_marking_visitor::visit_begin) does not look below a node that is not to be
           reported (filtered out - private or suppressed - or without change): in both such worlds the
           SKIP_CHILDREN visiting kind is set on every path.  Otherwise a public type first met under a private one is
           registered as visited and its next, public, occurrence is filtered as redundant: a public change vanishes.
R-HDRWIRE  abidiff: inside each block guarded by the headers options of one binary, every `opts.<member><N>` carries the
           same index N (headers of the first binary are never applied to the second, and vice versa).
"""
import itertools
import re

from engine.cfg import strip_casts
from engine.facts import walk, call_args, member_call_object, expr_str
from engine.compdb import AnalysisBroken
from rules.world import World, ANY, truth
from rules.null_rules import short

UNITS = ["src/abg-suppression.cc", "src/abg-tools-utils.cc", "tools/abidiff.cc"]
KEEPSET = "get_source_locations_to_keep"
KEEPRX = "get_source_location_to_keep_regex"


def run(ctx):
    ctx.clause = ("given where a type is defined, the private-type suppression generated from the public headers never "
                  "matches a type located in a header to keep, always matches one located elsewhere, is consulted by every "
                  "matcher (diff time and load time alike), lists every header found, and is wired to the right binary")
    ctx.rules = ["R-HDRLOC", "R-HDRGATE", "R-HDRGEN", "R-HDRWIRE", "R-REDUNDSKIP"]
    check_redundskip(ctx)
    P = ctx.program(UNITS)
    check_loc(ctx, P)
    check_gate(ctx, P)
    check_gen(ctx, P)
    check_wire(ctx, P)
    ctx.assume("the source location recorded for a type (DWARF decl_file, ABIXML filepath), the walk of the header "
               "directories by fts(3) and the propagation of the private category through the diff tree (decided for C22) "
               "are runtime / other properties' clauses")


def _matchers(P):
    fs = [f for f in P.fn("abigail::suppr::suppression_matches_type_location") if not f.dep and f.cfg() is not None]
    by_loc = [f for f in fs if "location &" in f.sig]
    by_type = [f for f in fs if "type_base" in f.sig]
    if len(by_loc) != 1 or len(by_type) != 1:
        raise AnalysisBroken("anchor vanished: the two overloads of suppr::suppression_matches_type_location")
    return by_loc[0], by_type[0]


def _is_keepset(f, e, depth=0):
    """e denotes the set of files to keep: the accessor call, or a local initialised from it"""
    if e is None:
        return False
    for x in walk(e):
        if x["k"] == "CXXMemberCallExpr" and (f.decl(x) or {}).get("n") == KEEPSET:
            return True
        if x["k"] == "DeclRefExpr" and depth < 3:
            for v in f.nodes():
                if v["k"] == "VarDecl" and v.get("d") == x.get("d") and v.get("c") and v["c"][0] is not None and \
                        _is_keepset(f, v["c"][0], depth + 1):
                    return True
    return False


# ------------------------------------------------------------------------------------------------ R-HDRLOC
def check_loc(ctx, P):
    f, ft = _matchers(P)
    ctx.analysed(f)
    lp = f.r["params"][1]
    # the variable that receives the base name of the path
    base_vars = set()
    for x in f.nodes():
        if x["k"] == "CallExpr" and (f.decl(x) or {}).get("n") == "base_name" and len(call_args(x)) >= 2:
            a = strip_casts(call_args(x)[1])
            if a is not None and a["k"] == "DeclRefExpr":
                base_vars.add(a.get("d"))
    rx_vars = {x.get("d") for x in f.nodes() if x["k"] == "VarDecl" and x.get("c") and x["c"][0] is not None and
               any(y["k"] == "CXXMemberCallExpr" and (f.decl(y) or {}).get("n") == KEEPRX for y in walk(x["c"][0]))}
    rx_vars |= {x["var"].get("d") for x in f.nodes() if x["k"] == "IfStmt" and x.get("var") and
                any(y["k"] == "CXXMemberCallExpr" and (f.decl(y) or {}).get("n") == KEEPRX for y in walk(x["var"]))}
    n = 0
    for has_loc, rx, base_in, path_in, set_nonempty, has_regex in itertools.product((True, False), repeat=6):
        if not has_loc and (rx or base_in or path_in):
            continue
        if (rx and not has_regex) or ((base_in or path_in) and not set_nonempty):
            continue
        has_props = set_nonempty or has_regex

        def atom(e):
            k = e["k"]
            if k == "CXXMemberCallExpr":
                nm = (f.decl(e) or {}).get("n") or ""
                o = strip_casts(member_call_object(e))
                if nm.startswith("operator bool") and o is not None:
                    if o["k"] == "DeclRefExpr" and o.get("d") == lp:
                        return [has_loc]
                    if (o["k"] == "DeclRefExpr" and o.get("d") in rx_vars) or \
                            (o["k"] == "CXXMemberCallExpr" and (f.decl(o) or {}).get("n") == KEEPRX):
                        return [has_regex]
                if nm == "empty" and _is_keepset(f, o):
                    return [not set_nonempty]
                if nm == "count" and _is_keepset(f, o) and call_args(e):
                    return [1 if (base_in if _is_base(call_args(e)[0]) else path_in) else 0]
            if k == "DeclRefExpr" and e.get("d") == lp:
                return [has_loc]
            if k == "CallExpr" and (f.decl(e) or {}).get("n") == "match":
                return [rx]
            if k in ("CXXOperatorCallExpr", "BinaryOperator") and e.get("op") in ("==", "!="):
                a = call_args(e) if k == "CXXOperatorCallExpr" else e["c"]
                finds = [strip_casts(x) for x in a if strip_casts(x) is not None and strip_casts(x)["k"] == "CXXMemberCallExpr" and
                         (f.decl(strip_casts(x)) or {}).get("n") == "find" and _is_keepset(f, member_call_object(strip_casts(x)))]
                ends = [x for x in a if strip_casts(x) is not None and strip_casts(x)["k"] == "CXXMemberCallExpr" and
                        (f.decl(strip_casts(x)) or {}).get("n") in ("end", "cend")]
                if finds and ends and call_args(finds[0]):
                    found = base_in if _is_base(call_args(finds[0])[0]) else path_in
                    return [found if e["op"] == "!=" else not found]
            return None

        def _is_base(arg):
            return any(y["k"] == "DeclRefExpr" and y.get("d") in base_vars for y in walk(arg))
        got = truth(World(f, atom).returns())
        if has_loc:
            want = not (rx or base_in or path_in)
        else:
            if has_props:
                want = False
            else:
                want = True
        n += 1
        ok = got == frozenset([want])
        props = "+".join(t for t, v in (("keep-set", set_nonempty), ("keep-regexp", has_regex)) if v) or "no keep property"
        desc = ("located in a file %s [%s]" % ("to keep (%s)" % ", ".join(t for t, v in (("regexp", rx), ("base name", base_in), ("path", path_in)) if v)
                                              if (rx or base_in or path_in) else "that no keep property names", props)) if has_loc else \
            "without location [%s]" % props
        ctx.ob("R-HDRLOC", "suppression_matches_type_location: a type %s is %s" % (desc, "matched" if want else "not matched"),
               ok, f.loc(), "decided" if ok else "the predicate answers %s: %s" % (
                   "/".join(str(x).lower() for x in sorted(got)),
                   "changes of a type defined in a public header are filtered out" if not want else
                   "changes of a type defined outside the public headers are reported"))
    ctx.floor("R-HDRLOC", "worlds of the location predicate", n, 19)
    # the overload over a type delegates when the type has a location
    ctx.analysed(ft)
    locv = {x.get("d") for x in ft.nodes() if x["k"] == "VarDecl" and x.get("c") and x["c"][0] is not None and
            any(y["k"] == "CallExpr" and (ft.decl(y) or {}).get("n") == "get_location" for y in walk(x["c"][0]))}
    for verdict in (True, False):
        def atom2(e):
            if e["k"] == "CXXMemberCallExpr" and ((ft.decl(e) or {}).get("n") or "").startswith("operator bool"):
                o = strip_casts(member_call_object(e))
                if o is not None and o["k"] == "DeclRefExpr" and o.get("d") in locv:
                    return [True]
            if e["k"] == "CallExpr" and (ft.decl(e) or {}).get("u") == f.u:
                return [verdict]
            return None
        got = truth(World(ft, atom2).returns())
        ok = got == frozenset([verdict])
        ctx.ob("R-HDRLOC", "suppression_matches_type_location(type): a located type gets the verdict of its location (%s)" % str(verdict).lower(),
               ok, ft.loc(), "delegates" if ok else "answers %s whatever the location says" % sorted(got))


# ------------------------------------------------------------------------------------------------ R-HDRGATE
def check_gate(ctx, P):
    f, ft = _matchers(P)
    targets = {f.u, ft.u}
    n = 0
    for g in sorted(P.all_funcs(), key=lambda x: (x.file, x.l0)):
        if g.dep or g.cfg() is None or not g.q.startswith("abigail::suppr::") or g.u in targets:
            continue
        calls = [x for x in g.nodes() if x["k"] == "CallExpr" and (g.decl(x) or {}).get("u") in targets]
        if not calls:
            continue
        ctx.analysed(g)
        n += 1

        def atom(e):
            if e["k"] == "CallExpr" and (g.decl(e) or {}).get("u") in targets:
                return [False]
            return None
        W = World(g, atom)
        seen, _ = W.blocks()
        reached = {e["i"] for b in seen for e in g.cfg().blocks[b].elems}
        consulted = any(c["i"] in reached for c in calls)
        track = {x.get("d") for x in g.nodes() if x["k"] == "VarDecl" and
                 (g.unit.type((g.unit.decl(x.get("d")) or {}).get("t")) or {}).get("s") in ("bool", "_Bool", "const bool")}
        got = truth(W.run_env(track))
        ok = got == frozenset([False]) and consulted
        ctx.ob("R-HDRGATE", "%s: no match when the location test fails" % short(g), ok, g.loc(calls[0]),
               "returns false in that world" if ok else
               "answers %s although suppression_matches_type_location() said no: a type defined in a public header can be "
               "suppressed (or dropped at load time)" % "/".join(str(x).lower() for x in sorted(got)))
    ctx.floor("R-HDRGATE", "matchers that consult the location test", n, 2)


# ------------------------------------------------------------------------------------------------ R-HDRGEN
def check_gen(ctx, P):
    hs = [f for f in P.fn("abigail::tools_utils::handle_file_entry") if not f.dep and f.cfg() is not None]
    if len(hs) != 1:
        raise AnalysisBroken("anchor vanished: tools_utils::handle_file_entry")
    h = hs[0]
    ctx.analysed(h)
    fp = h.r["params"][0]
    # (1) every path inserts the file
    def is_insert(e):
        return e["k"] == "CXXMemberCallExpr" and (h.decl(e) or {}).get("n") in ("insert", "emplace") and \
            _is_keepset(h, member_call_object(e)) and any(y["k"] == "DeclRefExpr" and y.get("d") == fp for a in call_args(e) for y in walk(a))
    from rules.idref_rule import _on_all_paths_before
    rets = [x for x in h.nodes() if x["k"] == "ReturnStmt"]
    cfg = h.cfg()
    from engine.cfg import forward, TOP
    tr = lambda st, e, b: (st | {"ins"}) if is_insert(e) else st
    ins, outs = forward(cfg, frozenset(), tr)
    exit_ok = True
    for b in cfg.blocks.values():
        if cfg.exit in [s for s in b.succs if s is not None] and outs.get(b.id) is not TOP and "ins" not in (outs.get(b.id) or frozenset()):
            exit_ok = False
    ctx.ob("R-HDRGEN", "handle_file_entry: the header is added to the files to keep on every path", exit_ok, h.loc(),
           "get_source_locations_to_keep().insert(file_path) dominates the exit" if exit_ok else
           "a path returns without inserting the header: the types it defines are treated as private")
    # (2) label + artificial on the created suppression
    news = [x for x in h.nodes() if x["k"] == "CXXNewExpr"]
    label_ok = any(any(y["k"] == "CallExpr" and (h.decl(y) or {}).get("n") == "get_private_types_suppr_spec_label" for y in walk(x)) for x in news)
    art = [x for x in h.nodes() if x["k"] == "CXXMemberCallExpr" and (h.decl(x) or {}).get("n") == "set_is_artificial" and call_args(x) and
           (strip_casts(call_args(x)[0]) or {}).get("v") == 1]
    rec = [g for g in P.fn("abigail::suppr::is_private_type_suppr_spec") if not g.dep]
    rec_ok = rec and all(any(y["k"] == "CallExpr" and (g.decl(y) or {}).get("n") == "get_private_types_suppr_spec_label" for y in g.nodes()) for g in rec)
    ctx.ob("R-HDRGEN", "handle_file_entry labels the suppression with the label is_private_type_suppr_spec tests", bool(label_ok and rec_ok), h.loc(),
           "get_private_types_suppr_spec_label() on both sides" if label_ok and rec_ok else
           "generator and recogniser do not use the same label: private-type changes are categorised as plain suppressions")
    ctx.ob("R-HDRGEN", "handle_file_entry marks the suppression artificial", bool(art), h.loc(),
           "set_is_artificial(true)" if art else "opaque (declaration-only) types are no longer recognised as private")
    # (3) which directory entries reach it
    es = [f for f in P.fn("abigail::tools_utils::handle_fts_entry") if not f.dep and f.cfg() is not None]
    if len(es) != 1:
        raise AnalysisBroken("anchor vanished: tools_utils::handle_fts_entry")
    e_ = es[0]
    ctx.analysed(e_)
    FTS = {}
    for x in e_.nodes():
        if x["k"] == "IntegerLiteral" and (x.get("m") or "").startswith("FTS_"):
            FTS[x["m"]] = x["v"]
    for need in ("FTS_F", "FTS_SL"):
        if need not in FTS:
            raise AnalysisBroken("anchor vanished: handle_fts_entry no longer names %s" % need)
    # reference table: the suffixes confirmed on the tree this checker was written for; more are welcome, fewer are not
    REF = (".h", ".hpp", ".hxx")
    sufs = sorted({x["s"] for x in e_.nodes() if x["k"] == "StringLiteral" and (x.get("s") or "").startswith(".")} | set(REF))
    n = 0
    for kind, kv in sorted(FTS.items()) + [("another entry kind", 9999)]:
        for suf in sufs + [".c"]:
            def atom(x):
                k = x["k"]
                if k == "MemberExpr" and (e_.decl(x) or {}).get("n") == "fts_info":
                    return [kv]
                if k == "CallExpr" and (e_.decl(x) or {}).get("n") == "string_ends_with" and len(call_args(x)) >= 2:
                    lit = [y["s"] for y in walk(call_args(x)[1]) if y["k"] == "StringLiteral"]
                    return [bool(lit) and lit[0] == suf]
                if k == "CXXMemberCallExpr" and (e_.decl(x) or {}).get("n") == "empty":
                    return [False]
                if k == "DeclRefExpr" and x.get("d") == e_.r["params"][0]:
                    return [True]                       # a non-null entry
                if k in ("BinaryOperator",) and x.get("op") in ("==", "!=") and any(
                        (strip_casts(c) or {}).get("k") in ("GNUNullExpr", "CXXNullPtrLiteralExpr") or
                        ((strip_casts(c) or {}).get("k") == "IntegerLiteral" and (strip_casts(c) or {}).get("v") == 0 and (strip_casts(c) or {}).get("m") == "NULL")
                        for c in x["c"]):
                    return [x["op"] == "!="]
                return None
            W = World(e_, atom)
            seen, _ = W.blocks()
            reached = {y["i"] for b in seen for y in e_.cfg().blocks[b].elems}
            calls = [y for y in e_.nodes() if y["k"] == "CallExpr" and (e_.decl(y) or {}).get("n") == "handle_file_entry"]
            hit = any(c["i"] in reached for c in calls)
            want = kind in ("FTS_F", "FTS_SL") and suf != ".c"
            if want and suf not in REF and hit:
                continue                                # an additional header suffix
            n += 1
            if hit != want or (want and suf in REF) or (not want and suf == ".c" and kind == "FTS_F") or (kind not in ("FTS_F", "FTS_SL") and suf == ".h"):
                ctx.ob("R-HDRGEN", "handle_fts_entry: a %s entry named *%s is %s" % (kind, suf, "a public header" if want else "ignored"),
                       hit == want, e_.loc(), "decided" if hit == want else
                       ("the header is not recorded: its types are treated as private" if want else
                        "the entry is recorded as a public header"))
    ctx.floor("R-HDRGEN", "worlds of handle_fts_entry", n, 12)


# ------------------------------------------------------------------------------------------------ R-HDRWIRE
def check_wire(ctx, P):
    unit = P.units["tools/abidiff.cc"]
    n = 0
    pat = re.compile(r"^(headers_dirs|header_files|file)([12])$")
    for f in unit.functions:
        if f.dep or f.cfg() is None:
            continue
        for s in f.nodes():
            if s["k"] != "IfStmt" or s["c"][0] is None:
                continue
            mem_c = [(m.group(1), m.group(2)) for x in walk(s["c"][0]) if x["k"] == "MemberExpr"
                     for m in [pat.match((f.decl(x) or {}).get("n") or "")] if m]
            if not any(a in ("headers_dirs", "header_files") for a, _ in mem_c):
                continue
            body = [x for c in s["c"][1:] if c is not None for x in walk(c)]
            mem_b = [(m.group(1), m.group(2)) for x in body if x["k"] == "MemberExpr"
                     for m in [pat.match((f.decl(x) or {}).get("n") or "")] if m]
            if not mem_b:
                continue
            ctx.analysed(f)
            n += 1
            idx = {i for _, i in mem_c + mem_b}
            ok = len(idx) == 1
            k = sum(1 for o in ctx.obligations if o["rule"] == "R-HDRWIRE" and o["entity"].startswith(short(f) + ":"))
            ctx.ob("R-HDRWIRE", "%s: block #%d uses the header options of one binary only" % (short(f), k + 1), ok, f.loc(s),
                   "index %s throughout" % "".join(idx) if ok else
                   "the block mixes %s: the public headers of one binary decide which types of the other are private" % sorted(
                       "%s%s" % p for p in set(mem_c + mem_b)))
    ctx.floor("R-HDRWIRE", "blocks guarded by the headers options", n, 4)



# ------------------------------------------------------------------------------------------------ R-REDUNDSKIP
def check_redundskip(ctx, rule="R-REDUNDSKIP"):
    P = ctx.program(["src/abg-comparison.cc"])
    fs = [f for f in P.all_funcs() if f.n == "visit_begin" and "redundancy_marking_visitor" in f.q and not f.dep and f.cfg() is not None and
          f.r["params"] and (f.unit.type((f.unit.decl(f.r["params"][0]) or {}).get("t")) or {}).get("s", "").replace("abigail::comparison::", "") in ("diff *", "class diff *")]
    if len(fs) != 1:
        fs = [f for f in P.all_funcs() if f.n == "visit_begin" and "redundancy_marking_visitor" in f.q and not f.dep and f.cfg() is not None and
              any(x["k"] == "CXXMemberCallExpr" and (f.decl(x) or {}).get("n") in ("to_be_reported", "is_filtered_out") for x in f.nodes())]
    if len(fs) != 1:
        raise AnalysisBroken("anchor vanished: redundancy_marking_visitor::visit_begin(diff*)")
    f = fs[0]
    ctx.analysed(f)

    def is_skip(e):
        return e["k"] == "CXXMemberCallExpr" and (f.decl(e) or {}).get("n") == "set_visiting_kind" and \
            any(y["k"] == "DeclRefExpr" and (f.decl(y) or {}).get("n") == "SKIP_CHILDREN_VISITING_KIND" for y in walk(e))
    if not any(is_skip(x) for x in f.nodes()):
        raise AnalysisBroken("anchor vanished: redundancy_marking_visitor no longer sets SKIP_CHILDREN_VISITING_KIND")
    d = f.r["params"][0]
    for what, has_changes, filtered in (("a node without change", False, ANY), ("a filtered-out node (private, suppressed, harmless ...)", True, True)):
        def atom(e):
            if e["k"] == "CXXMemberCallExpr":
                o = strip_casts(member_call_object(e))
                if o is not None and o["k"] == "DeclRefExpr" and o.get("d") == d:
                    nm = (f.decl(e) or {}).get("n")
                    if nm == "to_be_reported":
                        return [False]
                    if nm == "has_changes":
                        return [has_changes]
                    if nm == "is_filtered_out":
                        return [filtered]
            return None
        ok = World(f, atom).must_pass(is_skip)
        ctx.ob(rule, "the redundancy pass does not look below %s" % what, ok, f.loc(),
               "SKIP_CHILDREN is set on every path" if ok else
               "a path leaves visit_begin without SKIP_CHILDREN: the children of a node that is never reported are registered as "
               "visited, and the next - reportable - occurrence of such a child is filtered out as redundant")
