"""C43 - the debug-info format does not change the verdict (type-unit clause: per-source bookkeeping of the DIEs).

What the DWARF of a binary says is runtime.  One of the layouts the statement names - type units - is handled by a
small piece of bookkeeping: a DIE is designated by an offset *into one of three sections* (the main .debug_info, the
alternate .debug_info, .debug_types), and every table of the reader is kept per source.  The bookkeeping is structural:

R-DIESRC    every accessor of the DWARF reader that switches over `die_source` answers with three different
            containers for the three real sources (interpreted over PRIMARY / ALT / TYPE_UNIT): DIE offsets of
            different sections can never meet in one table.
R-UNITSRC   read_context::build_die_parent_maps walks each section with its own tag: each loop that calls
            build_die_parent_relations_under(cu, source, ..) iterates units of the debug info its `source` stands for
            (dwarf() / alt_dwarf(); type-signature out-parameters and dwarf_offdie_types() for TYPE_UNIT only), and all
            three sources are walked.
R-MEMBERTAG a data member of a class or union is a child DIE tagged DW_TAG_member - or, for a static member since DWARF 5,
            DW_TAG_variable (DWARF <= 4 says DW_TAG_member + DW_AT_external).  In add_or_update_class_type and
            add_or_update_union_type every boolean expression over the child's tag has the same value for the two tags:
            what is recorded for a member cannot depend on the DWARF generation's choice of tag.
R-TUSECTION wherever a unit is classified as TYPE_UNIT_DIE_SOURCE - the source whose offsets are resolved with
            dwarf_offdie_types(), i.e. in .debug_types - the DWARF version of the unit is consulted: since DWARF 5 a
            DW_TAG_type_unit lives in .debug_info.  (Today it is not: recorded finding, replayed.)
"""
from engine.cfg import strip_casts, EnumConsts
from engine.facts import walk, call_args, member_call_object, expr_str
from engine.compdb import AnalysisBroken
from rules.world import World, ANY
from rules.null_rules import short

UNITS = ["src/abg-dwarf-reader.cc"]
ENUM = "abigail::dwarf_reader::die_source"
REAL = ("PRIMARY_DEBUG_INFO_DIE_SOURCE", "ALT_DEBUG_INFO_DIE_SOURCE", "TYPE_UNIT_DIE_SOURCE")


def run(ctx):
    ctx.clause = ("DIEs of the three debug-info sources (main .debug_info, alternate .debug_info, .debug_types) are kept in "
                  "separate tables, each section is walked under its own source tag, and a unit is only taken for a "
                  ".debug_types unit after its DWARF version was looked at")
    ctx.rules = ["R-DIESRC", "R-UNITSRC", "R-TUSECTION", "R-MEMBERTAG", "R-VALPDEREF"]
    P = ctx.program(UNITS)
    consts = P.enum_consts(ENUM)
    if not all(c in consts for c in REAL):
        raise AnalysisBroken("anchor vanished: enumerators of %s" % ENUM)
    check_diesrc(ctx, P, consts)
    check_unitsrc(ctx, P)
    check_tusection(ctx, P)
    check_membertag(ctx, P)
    from rules import C15
    C15.check_valpderef(ctx, P)
    ctx.assume("the contents of the DWARF (forms, attribute encodings of DWARF 4 vs 5, column information) are decoded by "
               "elfutils and interpreted at run time; only the per-source bookkeeping is decided")


# ------------------------------------------------------------------------------------------------ R-DIESRC
def check_diesrc(ctx, P, consts):
    n = 0
    for f in sorted(P.all_funcs(), key=lambda x: (x.file, x.l0, x.sig)):
        if f.dep or f.cfg() is None or not f.q.startswith("abigail::dwarf_reader::"):
            continue
        sp = [p for p in f.r["params"] if ((f.unit.type((f.unit.decl(p) or {}).get("t")) or {}).get("c") or "").endswith("die_source")]
        if not sp:
            continue
        sw = [x for x in f.nodes() if x["k"] == "SwitchStmt" and x.get("c") and x["c"][0] is not None and
              any(y["k"] == "DeclRefExpr" and y.get("d") == sp[0] for y in walk(x["c"][0]))]
        if not sw:
            continue
        # only accessors: functions that return (a reference / pointer to) a data member
        if not any(x["k"] == "MemberExpr" and (f.decl(x) or {}).get("k") == "Field" for x in f.nodes()):
            continue
        track = {x.get("d") for x in f.nodes() if x["k"] == "VarDecl"}
        answers = {}
        for name in REAL:
            def atom(e, name=name):
                if e["k"] == "DeclRefExpr" and e.get("d") == sp[0]:
                    return [consts[name]]
                if e["k"] == "MemberExpr" and (f.decl(e) or {}).get("k") == "Field" and e.get("c") and e["c"][0] is not None and \
                        e["c"][0]["k"] == "CXXThisExpr":
                    return ["member:" + f.decl(e)["n"]]
                return None
            rets = World(f, atom).run_env(track)
            answers[name] = rets
        members = [a for a in answers.values() if len(a) == 1 and isinstance(next(iter(a)), str) and next(iter(a)).startswith("member:")]
        if len(members) < 3:
            continue                                        # not a per-source table accessor
        n += 1
        ctx.analysed(f)
        distinct = len({next(iter(a)) for a in answers.values()}) == 3
        ctx.ob("R-DIESRC", "%s%s: one container per DIE source" % (short(f), " const" if f.sig.rstrip().endswith("const") else ""), distinct, f.loc(),
               ", ".join("%s -> %s" % (k.split("_")[0], next(iter(v))[7:]) for k, v in sorted(answers.items())) if distinct else
               "two sources share a container (%s): DIE offsets of two different sections collide in one table" % (
                   ", ".join("%s -> %s" % (k.split("_DEBUG")[0].split("_DIE")[0], sorted(str(x) for x in v)) for k, v in sorted(answers.items()))))
    ctx.floor("R-DIESRC", "per-source table accessors", n, 6)


# ------------------------------------------------------------------------------------------------ R-UNITSRC
def check_unitsrc(ctx, P):
    fs = [f for f in P.all_funcs() if f.n == "build_die_parent_maps" and not f.dep and f.cfg() is not None]
    if len(fs) != 1:
        raise AnalysisBroken("anchor vanished: read_context::build_die_parent_maps")
    f = fs[0]
    ctx.analysed(f)
    ec = EnumConsts(f).solve()
    seen = set()
    n = 0
    for loop in f.nodes():
        if loop["k"] != "ForStmt":
            continue
        rel = [x for x in walk(loop) if x["k"] in ("CallExpr", "CXXMemberCallExpr") and (f.decl(x) or {}).get("n") == "build_die_parent_relations_under"]
        if not rel:
            continue
        src_arg = [a for a in call_args(rel[0]) if strip_casts(a) is not None and strip_casts(a)["k"] == "DeclRefExpr" and
                   ((f.unit.type((f.decl(strip_casts(a)) or {}).get("t")) or {}).get("c") or "").endswith("die_source")]
        if not src_arg:
            vals = {"?"}
            for a in call_args(rel[0]):
                a0 = strip_casts(a)
                if a0 is not None and a0["k"] == "DeclRefExpr" and (f.decl(a0) or {}).get("k") == "EnumConstant":
                    vals = {f.decl(a0)["n"]}
        else:
            vals = ec.values(strip_casts(src_arg[0]))
        nu = [x for x in walk(loop["c"][1]) if x["k"] == "CallExpr" and (f.decl(x) or {}).get("n") == "dwarf_next_unit"] if loop["c"][1] is not None else []
        if not nu:
            continue
        a = call_args(nu[0])
        handle = [(f.decl(y) or {}).get("n") for y in walk(a[0]) if y["k"] == "CXXMemberCallExpr"]
        handle = handle[0] if handle else "?"
        sig = any((strip_casts(x) or {}).get("k") == "UnaryOperator" and (strip_casts(x) or {}).get("op") == "&" for x in a[8:10]) if len(a) >= 10 else False
        off = [x for x in walk(loop) if x["k"] == "CallExpr" and (f.decl(x) or {}).get("n") in ("dwarf_offdie", "dwarf_offdie_types")]
        offn = (f.decl(off[0]) or {}).get("n") if off else "?"
        offh = [(f.decl(y) or {}).get("n") for y in walk(call_args(off[0])[0]) if y["k"] == "CXXMemberCallExpr"] if off else []
        offh = offh[0] if offh else "?"
        n += 1
        legal = {"PRIMARY_DEBUG_INFO_DIE_SOURCE": ("dwarf", False, "dwarf_offdie", "dwarf"),
                 "ALT_DEBUG_INFO_DIE_SOURCE": ("alt_dwarf", False, "dwarf_offdie", "alt_dwarf"),
                 "TYPE_UNIT_DIE_SOURCE": ("dwarf", True, "dwarf_offdie_types", "dwarf")}
        ok = len(vals) == 1 and next(iter(vals)) in legal and legal[next(iter(vals))] == (handle, sig, offn, offh)
        seen |= vals
        tag = "/".join(sorted(v.split("_DEBUG")[0].split("_DIE")[0] for v in vals))
        ctx.ob("R-UNITSRC", "build_die_parent_maps: the loop tagged %s walks the units of that source" % tag, ok, f.loc(loop),
               "%s() units%s, %s(%s())" % (handle, " with type signatures" if sig else "", offn, offh) if ok else
               "tag %s with dwarf_next_unit(%s()%s) and %s(%s()): the parents of the DIEs of one section are recorded under the "
               "source of another" % (sorted(vals), handle, ", &type_signature" if sig else "", offn, offh))
    ok = set(REAL) <= seen
    ctx.ob("R-UNITSRC", "build_die_parent_maps walks the three sources", ok, f.loc(),
           "PRIMARY, ALT, TYPE_UNIT" if ok else "walked: %s" % sorted(seen))
    ctx.floor("R-UNITSRC", "unit walks", n, 3)


# ------------------------------------------------------------------------------------------------ R-TUSECTION
def check_tusection(ctx, P):
    n = 0
    for f in sorted(P.all_funcs(), key=lambda x: (x.file, x.l0, x.sig)):
        if f.dep or f.cfg() is None or not f.q.startswith("abigail::dwarf_reader::"):
            continue
        # classification sites: TYPE_UNIT_DIE_SOURCE stored under a test of the unit's tag
        stores = []
        for x in f.nodes():
            if x["k"] == "BinaryOperator" and x.get("op") == "=":
                r = strip_casts(x["c"][1])
                if r is not None and r["k"] == "DeclRefExpr" and (f.decl(r) or {}).get("n") == "TYPE_UNIT_DIE_SOURCE":
                    guards = [a for a in f.ancestors(x) if a["k"] == "IfStmt" and a["c"][0] is not None]
                    if any(y["k"] == "IntegerLiteral" and y.get("m") == "DW_TAG_type_unit" for g in guards for y in walk(g["c"][0])) or \
                            any(y["k"] == "DeclRefExpr" and (f.decl(y) or {}).get("n") == "DW_TAG_type_unit" for g in guards for y in walk(g["c"][0])):
                        stores.append((x, guards))
        for x, guards in stores:
            n += 1
            ctx.analysed(f)
            # version-awareness: a guard that reads a variable filled by dwarf_cu_die's / dwarf_next_unit's version out-parameter,
            # or a unit-type test
            vers = set()
            for c in f.nodes():
                if c["k"] == "CallExpr" and (f.decl(c) or {}).get("n") in ("dwarf_cu_die", "dwarf_cu_info", "dwarf_next_unit", "dwarf_get_units"):
                    a = call_args(c)
                    idx = {"dwarf_cu_die": 2, "dwarf_cu_info": 1, "dwarf_next_unit": 4, "dwarf_get_units": 3}[(f.decl(c) or {}).get("n")]
                    if len(a) > idx:
                        for y in walk(a[idx]):
                            if y["k"] == "DeclRefExpr":
                                vers.add(y.get("d"))
            aware = any(y["k"] == "DeclRefExpr" and y.get("d") in vers for g in guards for y in walk(g["c"][0]))
            ctx.ob("R-TUSECTION", "%s: a unit is filed under TYPE_UNIT_DIE_SOURCE only after its DWARF version was looked at" % short(f),
                   aware, f.loc(x), "the guard reads the unit's version" if aware else
                   "every DW_TAG_type_unit is taken for a .debug_types unit (its DIEs are then resolved with dwarf_offdie_types), but "
                   "since DWARF 5 type units live in .debug_info: with -gdwarf-5 -fdebug-types-section the types defined in type units "
                   "are not found and the interfaces lose their parameters")
    ctx.floor("R-TUSECTION", "classification sites of type units", n, 1)



# ------------------------------------------------------------------------------------------------ R-MEMBERTAG
def check_membertag(ctx, P):
    n = 0
    for name in ("add_or_update_class_type", "add_or_update_union_type"):
        fs = [f for f in P.all_funcs() if f.n == name and not f.dep and f.cfg() is not None and f.q.startswith("abigail::dwarf_reader")]
        if len(fs) != 1:
            raise AnalysisBroken("anchor vanished: dwarf_reader %s" % name)
        f = fs[0]
        ctx.analysed(f)
        tagvars = {x.get("d") for x in f.nodes() if x["k"] == "VarDecl" and x.get("c") and x["c"][0] is not None and
                   any(y["k"] == "CallExpr" and (f.decl(y) or {}).get("n") == "dwarf_tag" for y in walk(x["c"][0]))}
        TAG = {}
        for x in f.nodes():
            if x["k"] == "DeclRefExpr" and (f.decl(x) or {}).get("n") in ("DW_TAG_member", "DW_TAG_variable") and x.get("v") is not None:
                TAG[f.decl(x)["n"]] = x["v"]
        if len(TAG) != 2 or not tagvars:
            raise AnalysisBroken("anchor vanished: %s no longer tests the child's tag against DW_TAG_member and DW_TAG_variable" % name)
        cmps = [x for x in f.nodes() if x["k"] == "BinaryOperator" and x.get("op") in ("==", "!=") and
                any(y["k"] == "DeclRefExpr" and y.get("d") in tagvars for y in walk(x)) and
                any(y["k"] == "DeclRefExpr" and (f.decl(y) or {}).get("n") in TAG for y in walk(x))]
        # switch statements over the tag are covered through their case labels
        roots = {}
        for c in cmps:
            r = c
            p = f.parent(r)
            while p is not None and (p["k"] in ("ParenExpr", "ImplicitCastExpr") or (p["k"] == "UnaryOperator" and p.get("op") == "!") or
                                     (p["k"] == "BinaryOperator" and p.get("op") in ("&&", "||"))):
                r = p
                p = f.parent(r)
            roots[r["i"]] = r
        for rid, r in sorted(roots.items()):
            vals = []
            for t in ("DW_TAG_member", "DW_TAG_variable"):
                def atom(e, t=t):
                    if e["k"] == "DeclRefExpr" and e.get("d") in tagvars:
                        return [TAG[t]]
                    return None
                vals.append(World(f, atom).ev(r))
            n += 1
            ok = vals[0] == vals[1]
            k = sum(1 for o in ctx.obligations if o["rule"] == "R-MEMBERTAG" and o["entity"].startswith(name))
            ctx.ob("R-MEMBERTAG", "%s: test #%d of the child's tag treats DW_TAG_member and DW_TAG_variable alike" % (name, k + 1), ok, f.loc(r),
                   "`%s`" % expr_str(f, r)[:70] if ok else
                   "`%s` differs between the two tags: a static data member is recorded differently for a DWARF 5 binary (DW_TAG_variable) "
                   "and a DWARF 4 one (DW_TAG_member), and the two builds of one source no longer compare equal" % expr_str(f, r)[:70])
        for sw in f.nodes():
            if sw["k"] == "SwitchStmt" and sw.get("c") and sw["c"][0] is not None and any(
                    y["k"] == "DeclRefExpr" and y.get("d") in tagvars for y in walk(sw["c"][0])):
                labs = {}
                for x in walk(sw):
                    if x["k"] == "CaseStmt" and x.get("v") in TAG.values():
                        labs[x["v"]] = x
                if labs:
                    n += 1
                    same = len(labs) == 2 and any(a is labs[TAG["DW_TAG_variable"]] or a is labs[TAG["DW_TAG_member"]] for a in
                                                  [labs[TAG["DW_TAG_member"]]["c"][-1], labs[TAG["DW_TAG_variable"]]["c"][-1]])
                    ctx.ob("R-MEMBERTAG", "%s: the switch over the child's tag has one arm for both member tags" % name, same, f.loc(sw),
                           "stacked case labels" if same else "DW_TAG_member and DW_TAG_variable are handled by different arms")
    ctx.floor("R-MEMBERTAG", "tests of a member's tag in the class / union builders", n, 2)
