"""Null / index discipline rules shared by C24, C25, C33, C34.

R-RXNULL    a possibly-null compiled regex is never handed to regex::match
R-NULLABLE  results of producers that can return null by construction are checked before use
R-IDX       constant subscripts on input-filled vectors need a dominating size fact
"""
from engine.cfg import NullFlow, TOP, strip_casts, ptr_key, cond_facts, forward, state_before, assigned_key
from engine.facts import walk, call_args, member_call_object, expr_str, CALL_KINDS
from engine.compdb import AnalysisBroken


def short(f):
    if f.cls:
        return "%s::%s" % (f.cls.split("::")[-1], f.n)
    return f.n


def occurrence_tag(seen, key):
    """stable disambiguator for repeated identical entities inside one function (#2, #3 ...)"""
    seen[key] = seen.get(key, 0) + 1
    return "" if seen[key] == 1 else " #%d" % seen[key]


def rxnull(ctx, P, file_filter=None):
    """every regex::match(r, s): r is known non-null at the call"""
    n_sites = 0
    for f in sorted(P.all_funcs(), key=lambda x: (x.file, x.l0)):
        if f.dep or f.cfg() is None:
            continue
        if file_filter and not file_filter(f):
            continue
        sites = [n for n, d in f.calls() if d["q"] == "abigail::regex::match"]
        if not sites:
            continue
        ctx.analysed(f)
        nf = NullFlow(f).solve()
        seen = {}
        for n in sites:
            n_sites += 1
            r = call_args(n)[0]
            key = ptr_key(f, r)
            st = nf.before(n)
            if st is TOP:
                continue
            ok = key is not None and ("nn", key) in st
            why = "the regex operand is known non-null here (facts: %s)" % sorted(k for t, k in st if t == "nn")
            if not ok:
                fq = element_container_field(P, f, r)
                if fq:
                    good, stores = container_holds_nonnull(P, fq)
                    if good:
                        ok = True
                        why = ("element of %s, a container that only ever receives non-null regexes (%d guarded "
                               "stores: %s)" % (fq.split("::")[-1], len(stores),
                                                ", ".join(sorted({g.loc(x) for g, x, _ in stores}))))
            ent = "%s: regex::match(%s, %s)" % (short(f), expr_str(f, strip_casts(r)), expr_str(f, call_args(n)[1]))
            ent += occurrence_tag(seen, ent)
            ctx.ob("R-RXNULL", ent, ok, f.loc(n),
                   why
                   if ok else
                   "regex::match dereferences `%s`, which may be null here (regex::compile returns null for an "
                   "invalid pattern; the non-null facts at this call are %s)" % (
                       expr_str(f, strip_casts(r)), sorted(k for t, k in st if t == "nn")))
    return n_sites


# ---------------------------------------------------------------- container invariants

def _returned_field(P, g):
    """field name q if method g is `return <field>;` on all returns (possibly after filling it)"""
    qs = set()
    for n in g.nodes():
        if n["k"] == "ReturnStmt" and n.get("c"):
            e = strip_casts(n["c"][0])
            if e is not None and e["k"] == "MemberExpr" and (g.decl(e) or {}).get("k") == "Field":
                qs.add(g.decl(e)["q"])
            else:
                return None
    return qs.pop() if len(qs) == 1 else None


def element_container_field(P, f, n):
    """If n denotes an element of a container that is a data member (`*it` with `it` iterating
    `X.begin()`, where X is a field or a getter returning a field), return the field's qname."""
    n = strip_casts(n)
    if n is None or n["k"] != "CXXOperatorCallExpr" or n.get("op") != "*":
        return None
    it = strip_casts(n["c"][1])
    if it is None or it["k"] != "DeclRefExpr":
        return None
    did = it.get("d")
    for x in f.nodes():
        if x["k"] == "VarDecl" and x.get("d") == did and x.get("c"):
            e = strip_casts(x["c"][0])
            while e is not None and e["k"] == "CXXConstructExpr" and len(e.get("c", [])) == 1:
                e = strip_casts(e["c"][0])
            if e is not None and e["k"] == "CXXMemberCallExpr" and (f.decl(e) or {}).get("n") in ("begin", "cbegin"):
                cont = strip_casts(member_call_object(e))
                if cont is None:
                    return None
                if cont["k"] == "MemberExpr" and (f.decl(cont) or {}).get("k") == "Field":
                    return f.decl(cont)["q"]
                if cont["k"] in ("CXXMemberCallExpr", "CallExpr"):
                    d = f.decl(cont)
                    g = P.funcs.get((d or {}).get("u"))
                    if g is not None:
                        return _returned_field(P, g)
    return None


_container_cache = {}


def container_holds_nonnull(P, fieldq):
    """every element ever stored into the member container `fieldq` is known non-null at the store"""
    key = (id(P), fieldq)
    if key in _container_cache:
        return _container_cache[key]
    stores = []
    ok = True
    for g in P.all_funcs():
        if g.dep or g.cfg() is None:
            continue
        hits = []
        for n in g.nodes():
            if n["k"] == "CXXMemberCallExpr" and (g.decl(n) or {}).get("n") in ("push_back", "insert", "emplace_back"):
                o = strip_casts(member_call_object(n))
                if o is not None and o["k"] == "MemberExpr" and (g.decl(o) or {}).get("q") == fieldq:
                    hits.append(n)
        if not hits:
            continue
        nf = NullFlow(g).solve()
        for n in hits:
            a = call_args(n)[-1]
            k = ptr_key(g, a)
            st = nf.before(n)
            good = st is TOP or (k is not None and ("nn", k) in st)
            stores.append((g, n, good))
            ok &= good
    res = (ok and bool(stores), stores)
    _container_cache[key] = res
    return res


# ---------------------------------------------------------------- R-NULLABLE

def _producer_in(f, e, producers, depth=0):
    """name of the nullable producer whose result expression e denotes (looking through
    copies / conversions / dynamic_pointer_cast and producer-wrapping-producer), else None"""
    e = strip_casts(e)
    if e is None or depth > 6:
        return None
    k = e["k"]
    if k in ("CXXConstructExpr", "CXXBindTemporaryExpr") and len(e.get("c", [])) == 1:
        return _producer_in(f, e["c"][0], producers, depth + 1)
    if k in ("CallExpr", "CXXMemberCallExpr"):
        d = f.decl(e)
        if d is None:
            return None
        if producers(d):
            return d["n"]
        if d["n"] in ("dynamic_pointer_cast", "static_pointer_cast", "const_pointer_cast"):
            return "dynamic_pointer_cast" if d["n"] == "dynamic_pointer_cast" and False else \
                _producer_in(f, call_args(e)[0], producers, depth + 1)
        if k == "CXXMemberCallExpr" and d["n"] == "get" and not call_args(e):
            return _producer_in(f, member_call_object(e), producers, depth + 1)
    if k == "CXXDynamicCastExpr":
        return None
    return None


def deref_sites(f):
    """[(deref node, pointer operand)] for `p->x`, `*p` on raw pointers and smart pointers"""
    out = []
    for n in f.nodes():
        k = n["k"]
        if k == "MemberExpr" and n.get("arrow") and n.get("c"):
            base = strip_casts(n["c"][0])
            if base is not None and base["k"] != "CXXThisExpr":
                # smart pointer: operator-> call is the base
                if base["k"] == "CXXOperatorCallExpr" and base.get("op") == "->":
                    out.append((n, strip_casts(call_args(base)[0])))
                else:
                    out.append((n, base))
        elif k == "CXXOperatorCallExpr" and n.get("op") == "*" and len(n["c"]) == 2:
            t = f.type(n["c"][1])
            if t is not None and ("shared_ptr" in t["c"] or "unique_ptr" in t["c"]):
                out.append((n, strip_casts(n["c"][1])))
        elif k == "UnaryOperator" and n.get("op") == "*":
            out.append((n, strip_casts(n["c"][0])))
        elif k == "CXXConstructExpr" and n.get("c"):
            # std::string(const char*) reads through its argument: a null pointer throws std::logic_error
            args = [c for c in n["c"] if c is not None and c["k"] != "CXXDefaultArgExpr"]
            t = f.type(n)
            if len(args) == 1 and t is not None and "basic_string<char" in t.get("c", "") and "vector" not in t.get("c", ""):
                at = f.type(args[0])
                if at is not None and at.get("c", "").replace("const ", "").strip() in ("char *", "char*"):
                    out.append((n, strip_casts(args[0])))
    return out


def nullable_derefs(ctx, P, funcs, producers, rule="R-NULLABLE", nonnull_fields=(), extra_gen=None,
                    describe=None, per_var=False):
    """Every dereference of (a variable holding) the result of a nullable producer needs a
    dominating non-null fact.  producers: predicate over callee decl dicts."""
    n_sites = 0
    for f in funcs:
        if f.dep or f.cfg() is None:
            continue
        # locals (by decl index) with a definition that is a producer call
        prod_vars = {}
        for n in f.nodes():
            rhs, did = None, None
            if n["k"] == "VarDecl" and n.get("c"):
                rhs, did = n["c"][0], n.get("d")
            elif n["k"] == "CXXOperatorCallExpr" and n.get("op") == "=" and len(n["c"]) == 3:
                l = strip_casts(n["c"][1])
                if l is not None and l["k"] == "DeclRefExpr":
                    rhs, did = n["c"][2], l.get("d")
            elif n["k"] == "BinaryOperator" and n.get("op") == "=":
                l = strip_casts(n["c"][0])
                if l is not None and l["k"] == "DeclRefExpr":
                    rhs, did = n["c"][1], l.get("d")
            if rhs is not None and did:
                pn = _producer_in(f, rhs, producers)
                if pn:
                    prod_vars[did] = pn
        derefs = deref_sites(f)
        cands = []
        for n, p in derefs:
            if p is None:
                continue
            if p["k"] == "DeclRefExpr" and p.get("d") in prod_vars:
                cands.append((n, p, prod_vars[p["d"]]))
            else:
                pn = _producer_in(f, p, producers)
                if pn:
                    cands.append((n, p, pn))
        if not cands:
            continue
        ctx.analysed(f)
        nf = NullFlow(f, gen=extra_gen).solve()
        seen = {}
        for n, p, pn in cands:
            st = nf.before(n)
            if st is TOP:
                continue
            n_sites += 1
            key = ptr_key(f, p)
            ok = key is not None and ("nn", key) in st
            ent = "%s: deref of %s (from %s)" % (short(f), expr_str(f, p), pn)
            if per_var and ent in seen and not ok:
                seen[ent] += 1
                continue                      # same unchecked variable: one obligation per root cause
            ent += occurrence_tag(seen, ent) if not per_var else ""
            if per_var:
                seen.setdefault(ent, 1)
            ctx.ob(rule, ent, ok, f.loc(n),
                   "result of %s is dereferenced under a non-null fact" % pn if ok else
                   "`%s` holds the result of %s(), which can be null, and is dereferenced without a dominating "
                   "null check (non-null facts here: %s)" % (expr_str(f, p), pn, sorted(k for t, k in st if t == "nn")))
    return n_sites


# ---------------------------------------------------------------- class invariants

def _callsites(P):
    cs = getattr(P, "_callsites_cache", None)
    if cs is None:
        cs = {}
        for f in P.all_funcs():
            if f.dep:
                continue
            for n, d in f.calls():
                if d.get("u"):
                    cs.setdefault(d["u"], []).append((f, n))
        P._callsites_cache = cs
    return cs


def expr_nonnull(ctx, P, f, e, at, depth=0):
    """(ok, why): is pointer-like expression e known non-null when evaluated at node `at` of f?"""
    e0 = strip_casts(e)
    while e0 is not None and e0["k"] in ("CXXConstructExpr", "CXXBindTemporaryExpr") and len(e0.get("c", [])) == 1:
        e0 = strip_casts(e0["c"][0])
    if e0 is None or depth > 5:
        return False, "unknown value"
    k = e0["k"]
    if k == "CXXNewExpr":
        return True, "new-expression"
    if k in ("CallExpr",) and (f.decl(e0) or {}).get("n") in ("make_shared", "build_sptr"):
        return True, "make_shared"
    if k in ("CXXConstructExpr", "CXXTemporaryObjectExpr") and not e0.get("c"):
        return False, "default-constructed (null) smart pointer"
    if k == "DeclRefExpr":
        d = f.decl(e0)
        if d is not None and d["k"] == "ParmVar":
            if f.cfg() is not None and at is not None:
                st = NullFlow(f).solve().before(at)
                key = ptr_key(f, e0)
                if st is not TOP and key and ("nn", key) in st:
                    return True, "`%s` is tested non-null in %s before the use" % (key, f.n)
            idx = [i for i, p in enumerate(f.params()) if p["n"] == d["n"]]
            sites = _callsites(P).get(f.u, [])
            if not sites:
                ctx.note("%s has no caller in the analysed program: its parameter `%s` is API input and is not "
                         "considered" % (f.sig, d["n"]))
                return True, "no caller in the analysed program"
            for g, call in sites:
                args = call_args(call)
                if not idx or idx[0] >= len(args) or args[idx[0]]["k"] == "CXXDefaultArgExpr":
                    continue
                ok, why = expr_nonnull(ctx, P, g, args[idx[0]], call, depth + 1)
                if not ok:
                    return False, "%s passes %s (%s) at %s" % (g.n, expr_str(g, args[idx[0]]), why, g.loc(call))
            return True, "every caller passes a non-null value"
        if f.cfg() is not None and at is not None:
            st = NullFlow(f).solve().before(at)
            key = ptr_key(f, e0)
            if st is not TOP and key and ("nn", key) in st:
                return True, "`%s` is known non-null at the use" % key
            return False, "`%s` may be null here" % expr_str(f, e0)
    return False, "value of %s" % expr_str(f, e0)


def field_invariant_nonnull(ctx, P, owner_cls, field, rule):
    """Every constructor of owner_cls and every store to owner_cls::field leaves the field non-null."""
    fq = "%s::%s" % (owner_cls, field)
    ctors = [f for f in P.all_funcs() if f.cls == owner_cls and f.n == owner_cls.split("::")[-1]]
    if not ctors:
        raise AnalysisBroken("anchor vanished: constructors of %s" % owner_cls)
    n = 0
    for c in sorted(ctors, key=lambda x: x.l0):
        ctx.analysed(c)
        init = None
        for x in c.nodes():
            if x["k"] == "CtorInit" and (c.decl(x) or {}).get("q") == fq and x.get("written"):
                init = x
        n += 1
        ent = "%s(%s) initialises %s" % (owner_cls.split("::", 2)[-1], ", ".join(p["n"] for p in c.params()), field)
        if init is None:
            live = P.live()
            used = any(g.u in live for g, _ in _callsites(P).get(c.u, []))
            ctx.ob(rule, ent, not used, c.loc(),
                   "this constructor leaves %s null%s" % (field, " and is reachable from a tool's main through: " + ", ".join(
                       sorted({g.sig for g, s in _callsites(P).get(c.u, []) if g.u in live})) if used else
                       " but no use of it is reachable from any tool's main"))
            continue
        ok, why = expr_nonnull(ctx, P, c, init["c"][0] if init.get("c") else None, init)
        ctx.ob(rule, ent, ok, c.loc(init), why)
    for g in P.all_funcs():
        if g.dep:
            continue
        for x in g.nodes():
            if x["k"] in ("BinaryOperator", "CXXOperatorCallExpr") and x.get("op") == "=":
                cc = x["c"]
                lhs, rhs = (cc[1], cc[2]) if x["k"] == "CXXOperatorCallExpr" and len(cc) == 3 else (cc[0], cc[1])
                l = strip_casts(lhs)
                if l is not None and l["k"] == "MemberExpr" and (g.decl(l) or {}).get("q") == fq:
                    n += 1
                    ok, why = expr_nonnull(ctx, P, g, rhs, x)
                    ctx.ob(rule, "%s stores into %s" % (short(g), field), ok, g.loc(x), why)
    return n
