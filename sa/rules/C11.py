"""C11 - removal in one direction is addition in the other: R-MIRROR.

corpus_diff::priv::ensure_lookup_tables_populated decides, per region (functions, variables, function symbols and
variable symbols not referenced by debug info), which interfaces are really deleted (their symbol is looked up in
the *second* corpus) and which are really added (looked up in the *first* corpus).  Swapping the two inputs swaps
the roles of the two halves, so `removed(A,B) == added(B,A)` needs the two halves to perform the same sequence of
symbol-lookup events after exchanging first_ <-> second_: the lookup calls with their arity, the
get_version().is_empty() / is_default() guards and the empty-version re-lookup.  A rule applied to one half only
(Engler: one-sided treatment) makes the verdict depend on the order of the arguments.
"""
from engine.facts import walk, call_args, member_call_object, expr_str
from engine.cfg import strip_casts
from engine.compdb import AnalysisBroken
from rules import C19

UNITS = C19.UNITS
REGIONS = ["fns_edit_script_", "vars_edit_script_", "unrefed_fn_syms_edit_script_", "unrefed_var_syms_edit_script_"]


def _bookkeeping(f, cond):
    """a test of the region's own added_* / deleted_* maps: the cancellation of an id that the edit script lists both as
    deleted and as inserted is written in the second pass only, but cancels in both directions"""
    import re
    return any(x["k"] == "MemberExpr" and re.match(r"(added|deleted)_", (f.decl(x) or {}).get("n") or "") for x in walk(cond))


def guards_of(f, node):
    """conditions the execution of `node` depends on inside its innermost loop: enclosing if-conditions (with polarity)
    and the conditions of earlier `continue` / `break` statements of the loop body"""
    out = []
    loop = None
    prev = node
    chain = []
    for a in f.ancestors(node):
        if a["k"] in ("ForStmt", "CXXForRangeStmt", "WhileStmt", "DoStmt"):
            loop = a
            break
        chain.append((a, prev))
        prev = a
    for a, child in chain:
        if a["k"] == "IfStmt" and a["c"][0] is not None:
            if any(y is node for y in walk(a["c"][0])):
                continue                                    # the call is (part of) the condition itself
            if _bookkeeping(f, a["c"][0]):
                continue
            then, els = a["c"][1], a["c"][2] if len(a["c"]) > 2 else None
            in_then = then is not None and any(y is node for y in walk(then))
            out.append(("" if in_then else "!") + "(" + expr_str(f, a["c"][0]).replace(" ", "") + ")")
    if loop is not None:
        body = loop["c"][-1]
        w0 = f.loc(node)
        for x in walk(body):
            if x["k"] in ("ContinueStmt", "BreakStmt"):
                # an early exit that precedes the node in the body
                if any(y is node for a in f.ancestors(x) for y in ([a] if False else [])):
                    continue
                conds = [a for a in f.ancestors(x) if a["k"] == "IfStmt" and any(z is a for z in walk(body))]
                if not conds:
                    continue
                inner = conds[0]
                if any(y is node for y in walk(inner)):
                    continue                                # the exit is inside the statement that holds the node
                if _bookkeeping(f, inner["c"][0]):
                    continue
                if (inner.get("l"), inner.get("i")) < (node.get("l"), node.get("i")):
                    out.append("!(" + expr_str(f, inner["c"][0]).replace(" ", "") + ")")
    return out


def run(ctx):
    ctx.clause = ("in every region of ensure_lookup_tables_populated the deletion half (lookups in the second corpus) and "
                  "the addition half (lookups in the first corpus) perform mirrored symbol-lookup / version events")
    ctx.rules = ["R-MIRROR", "R-MIRROR/GUARD"]
    P = ctx.program(UNITS)
    f = P.fn1("abigail::comparison::corpus_diff::priv::ensure_lookup_tables_populated")
    ctx.analysed(f)
    body = f.body["c"][-1]
    regions = {}
    for s in body.get("c", []):
        if s is None or s["k"] != "CompoundStmt":
            continue
        for x in walk(s):
            if x["k"] == "VarDecl" and x.get("c"):
                fld = C19.field_of(f, x["c"][0])
                if fld and fld.endswith("_edit_script_"):
                    regions[fld] = s
                    break
            if x["k"] not in ("CompoundStmt", "DeclStmt", "VarDecl"):
                break
    n_ev = 0
    n_guard = [0]
    for r in REGIONS:
        if r not in regions:
            raise AnalysisBroken("anchor vanished: region of %s in ensure_lookup_tables_populated" % r)
        # top-level loops of the region, each classified by the corpus its lookups go to
        halves = {"first_": [], "second_": []}
        for loop in regions[r].get("c", []):
            if loop is None or loop["k"] not in ("ForStmt", "CXXForRangeStmt", "WhileStmt"):
                continue
            ev = [(n, e) for n, e in C19.events(f, loop, P)
                  if e.startswith("lookup ") or e.startswith("version.") or e == "empty-version"]
            side = {e.split()[1].split("->")[0] for _, e in ev if e.startswith("lookup ")}
            if len(side) != 1:
                continue
            halves[next(iter(side))].extend(ev)
        dele = [e.replace("second_->", "OTHER->") for _, e in halves["second_"]]
        add = [e.replace("first_->", "OTHER->") for _, e in halves["first_"]]
        n_ev += len(dele) + len(add)
        name = r.replace("_edit_script_", "")
        from collections import Counter
        cd, ca = Counter(dele), Counter(add)
        common = list((cd & ca).elements())
        ctx.ob("R-MIRROR", "%s: both halves perform the symbol lookup in the other corpus" % name, bool(common),
               f.loc(regions[r]), "mirrored events: %s" % (" ; ".join(common) or "none"))
        # R-MIRROR/GUARD: a mirrored lookup must run under the same conditions in both halves
        for evname in sorted(set(common)):
            gd = [guards_of(f, n) for n, e in halves["second_"] if e.replace("second_->", "OTHER->") == evname]
            ga = [guards_of(f, n) for n, e in halves["first_"] if e.replace("first_->", "OTHER->") == evname]
            if not gd or not ga:
                continue
            n_guard[0] += 1
            import re
            d0 = [re.sub(r"\bfirst_\b", "SELF", re.sub(r"\bsecond_\b", "OTHER", g)) for g in gd[0]]
            a0 = [re.sub(r"\bsecond_\b", "SELF", re.sub(r"\bfirst_\b", "OTHER", g)) for g in ga[0]]
            ok = sorted(C19.norm(x) for x in d0) == sorted(C19.norm(x) for x in a0)
            wn = [n for n, e in halves["second_"] if e.replace("second_->", "OTHER->") == evname][0]
            ctx.ob("R-MIRROR/GUARD", "%s: `%s` runs under the same conditions in both halves" % (name, evname), ok, f.loc(wn),
                   "conditions: %s" % (d0 or "none") if ok else
                   "the deletion half performs it under %s, the addition half under %s: an interface can be reported removed in "
                   "one direction without being reported added in the other" % (d0 or "no condition", a0 or "no condition"))
        for side, extra, nodes in (("addition", ca - cd, halves["first_"]), ("deletion", cd - ca, halves["second_"])):
            other = "deletion" if side == "addition" else "addition"
            if not extra:
                continue
            evs = " ; ".join(sorted(set(extra.elements())))
            where = regions[r]
            for n, ev in nodes:
                if ev.replace("first_->", "OTHER->").replace("second_->", "OTHER->") in extra:
                    where = n
                    break
            ctx.ob("R-MIRROR", "%s: events [%s] of the %s half have mirrors in the %s half" % (name, evs, side, other), False,
                   f.loc(where),
                   "deletion half: [%s]; addition half: [%s]: a treatment applied to one direction only makes "
                   "removed(A,B) differ from added(B,A)" % (" ; ".join(dele), " ; ".join(add)))
    ctx.floor("R-MIRROR", "regions", len(REGIONS), 4)
    ctx.floor("R-MIRROR/GUARD", "mirrored lookups whose guards were compared", n_guard[0], 4)
    ctx.floor("R-MIRROR", "symbol-lookup events in the two halves", n_ev, 16)
    ctx.assume("the edit scripts themselves (diff_utils) and the matching of changed interfaces are runtime; "
               "find_symbol_by_version's own one-sided fallback (default version for unversioned requests only) is "
               "part of the recorded finding")
