"""C01 - self-comparison reports nothing: R-TWINLOAD (same-configuration clause).

In every function that loads two operands of a comparison (names that differ only in a 1/2
suffix), the multiset of *configuration events* applied to operand 1 equals that applied to
operand 2 after renaming 1<->2.  Configuration events are the calls that create / configure a
read context, load a corpus, or adjust the loaded corpus (callee name matches CONFIG).  Order is
ignored; messages and diagnostics are not events.
"""
import collections
import re

from engine.facts import walk, call_args, expr_str, CALL_KINDS
from engine.compdb import AnalysisBroken

SITES = [("tools/abidiff.cc", "main"), ("tools/abipkgdiff.cc", "compare"),
         ("tools/abicompat.cc", "main"), ("tools/kmidiff.cc", "main")]
CONFIG = re.compile(r"^(create_\w*read_context|set_\w+|read_\w+|add_\w*suppr\w*|load_\w+|build_corpus_group\w*|"
                    r"adjust_\w+)$")
ONE = re.compile(r"(?<=[A-Za-z_])1(?=_|\b)")
TWO = re.compile(r"(?<=[A-Za-z_])2(?=_|\b)")


def norm(s):
    return re.sub(r"(?<=[A-Za-z_])[12](?=_|\b)", "#", s)


def side(s):
    a, b = bool(ONE.search(s)), bool(TWO.search(s))
    return 1 if a and not b else 2 if b and not a else 0


def run(ctx):
    ctx.clause = ("both operands of a comparison are read under the same configuration: every context option, "
                  "suppression, loader call and post-load adjustment applied to operand 1 is applied to operand 2")
    ctx.rules = ["R-TWINLOAD", "R-QNREFRESH", "R-ATTRWIDTH"]
    n_funcs = n_events = 0
    for unit, fname in SITES:
        P = ctx.program([unit])
        for f in P.fn(fname):
            if f.dep or not f.relfile.endswith(unit):
                continue
            ev = {1: collections.Counter(), 2: collections.Counter()}
            where = {}
            calls = []
            for n in f.nodes():
                if n["k"] not in CALL_KINDS:
                    continue
                d = f.decl(n)
                if d is None or not CONFIG.match(d["n"]):
                    continue
                txt = expr_str(f, n)
                calls.append((n, txt, side(txt)))
            marked = {n["i"]: s for n, _, s in calls if s}

            def region_side(n):
                """side of the smallest enclosing compound statement whose marked events all belong to one side"""
                for anc in f.ancestors(n):
                    if anc["k"] != "CompoundStmt":
                        continue
                    sides = {marked[x["i"]] for x in walk(anc) if x["i"] in marked}
                    if len(sides) == 1:
                        return sides.pop()
                    if len(sides) > 1:
                        return 0
                return 0
            for n, txt, s in calls:
                if not s:
                    s = region_side(n)
                if not s:
                    continue
                key = norm(txt)
                ev[s][key] += 1
                where.setdefault((s, key), n)
            total = sum(ev[1].values()) + sum(ev[2].values())
            if total == 0:
                continue
            n_funcs += 1
            n_events += total
            ctx.analysed(f)
            tool = unit.split("/")[-1]
            for key in sorted(set(ev[1]) | set(ev[2])):
                a, b = ev[1][key], ev[2][key]
                node = where.get((1, key)) or where.get((2, key))
                ctx.ob("R-TWINLOAD", "%s %s: %s" % (tool, f.n, key), a == b, f.loc(node),
                       "applied %d time(s) to operand 1 and %d time(s) to operand 2" % (a, b) if a == b else
                       "configuration event `%s` is applied %d time(s) to operand 1 but %d time(s) to operand 2: the "
                       "two sides of a self-comparison are not read the same way" % (key, a, b))
    ctx.floor("R-TWINLOAD", "functions loading two operands", n_funcs, 4)
    ctx.floor("R-TWINLOAD", "configuration events", n_events, 40)
    ctx.assume("that identical loads give identical IR, and that identical IR compares clean (reflexivity of equals / "
               "canonicalisation over cyclic type graphs), is runtime behaviour and is not decided")
    from rules import qnrefresh_rule
    qnrefresh_rule.check(ctx, ctx.program(qnrefresh_rule.UNITS))
    # comparing a binary with the ABIXML abidw wrote for it: numbers come back with the width they were written with
    from rules import attrwidth_rule
    attrwidth_rule.check(ctx, ctx.program(["src/abg-reader.cc"]))
