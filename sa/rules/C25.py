"""C25 - any suppression file never crashes the tools (null / index clauses)."""
from rules import null_rules as nr
from rules import idx_rule, inassert_rule, parseprog_rule, streammodel

UNITS = None    # whole program: regex::match is called from the corpus and tools code too

INI_PRODUCERS = {"find_property", "is_simple_property", "is_list_property", "is_tuple_property",
                 "is_string_property_value", "is_list_property_value", "is_tuple_property_value",
                 "read_function_call_expr", "read_property_value", "read_property", "read_section",
                 "read_string_property_value", "read_list_property_value", "read_tuple_property_value"}
PROPERTY_CLASSES = ["abigail::ini::simple_property", "abigail::ini::list_property", "abigail::ini::tuple_property"]


def run(ctx):
    ctx.clause = ("no null regex reaches regex::match; results of the INI / suppression parsers' nullable producers are "
                  "checked before use; every property object always holds a value; constant subscripts on "
                  "input-filled vectors are size-guarded; no assertion on input-derived data in the INI/suppression "
                  "parsers")
    ctx.rules = ["R-RXNULL", "R-NULLABLE", "INV-PROPVALUE", "R-IDX", "R-INASSERT", "R-SYMOWN", "INV-FNCALLEXPR", "R-PARSEPROG", "R-READCONTRACT", "R-READPRE"]
    P = ctx.program(UNITS)
    n = nr.rxnull(ctx, P)
    ctx.floor("R-RXNULL", "regex::match call sites", n, 40)
    funcs = [f for f in P.all_funcs() if f.relfile.endswith(("src/abg-suppression.cc", "src/abg-ini.cc"))]
    n = nr.nullable_derefs(ctx, P, funcs, lambda d: d["n"] in INI_PRODUCERS and d["q"].startswith("abigail::ini"))
    ctx.floor("R-NULLABLE", "dereferences of INI producer results", n, 60)
    k = 0
    for cls in PROPERTY_CLASSES:
        k += nr.field_invariant_nonnull(ctx, P, cls + "::priv", "value_", "INV-PROPVALUE")
    ctx.floor("INV-PROPVALUE", "constructors/stores of property values", k, 6)
    k = nr.field_invariant_nonnull(ctx, P, "abigail::suppr::type_suppression::insertion_range::fn_call_expr_boundary::priv",
                                   "expr_", "INV-FNCALLEXPR")
    ctx.floor("INV-FNCALLEXPR", "constructors/stores of the function-call expression of an insertion-range boundary", k, 1)
    k = idx_rule.run(ctx, P, funcs, "C25")
    ctx.floor("R-IDX", "constant subscripts / front / back in the INI and suppression parsers", k, 10)
    prod = lambda d: d["n"] in INI_PRODUCERS and d["q"].startswith("abigail::ini")
    ns, ni = inassert_rule.run(ctx, P, funcs, "C25", producers=prod)
    ctx.floor("R-INASSERT", "assertion sites in the INI and suppression parsers", ns, 25)
    check_symown(ctx)
    k = parseprog_rule.check(ctx, P)
    ctx.floor("R-PARSEPROG", "parse loops of the INI reader that call a sub-parser", k, 4)
    k = streammodel.check_contract(ctx, P)
    ctx.floor("R-READCONTRACT", "abstract reader states in which good() holds after peek()", k, 3)
    k = streammodel.check_sites(ctx, P, parseprog_rule.consumers(P)[1])
    ctx.floor("R-READPRE", "asserted read_next_char() calls of the INI reader", k, 12)
    ctx.note("R-INASSERT: the INI reader's ABG_ASSERT(read_next_char(c)) / ABG_ASSERT(c == X) follow a peek() of the "
             "same character and are internal consistency checks: the stream primitives are not in the input-accessor "
             "table (no input reaches them with the asserted fact false)")



def check_symown(ctx):
    """R-SYMOWN: suppression specifications with `drop = yes` (and kernel whitelists) reach symtab::load_ as its
    `is_suppressed` predicate.  The alias ring of elf_symbol is made of weak pointers, so whatever is linked into it has to
    be owned by the symtab: in both worlds of the predicate, every path from elf_symbol::create() to the calls that link
    the symbol (setup_symbol_lookup_tables -> add_alias, add_common_instance) passes a push of that symbol into an owning
    member container.  A suppressed symbol that nothing owns is destroyed at the end of the iteration and leaves an
    expired link in the ring, which the next walk dereferences."""
    from engine.facts import walk, call_args, member_call_object, expr_str
    from engine.cfg import strip_casts
    from engine.compdb import AnalysisBroken
    from rules.world import World
    P = ctx.program(["src/abg-symtab-reader.cc"])
    fs = [f for f in P.fn("abigail::symtab_reader::symtab::load_") if not f.dep and f.cfg() is not None and
          any((f.decl(x) or {}).get("n") == "gelf_getsym" for x in f.nodes() if x["k"] == "CallExpr")]
    if len(fs) != 1:
        raise AnalysisBroken("anchor vanished: symtab::load_(Elf*, ...)")
    f = fs[0]
    ctx.analysed(f)
    symv = [x.get("d") for x in f.nodes() if x["k"] == "VarDecl" and x.get("c") and x["c"][0] is not None and
            any(y["k"] == "CallExpr" and (f.decl(y) or {}).get("n") == "create" for y in walk(x["c"][0]))]
    if len(symv) != 1:
        raise AnalysisBroken("anchor vanished: the elf_symbol::create() of symtab::load_")
    sv = symv[0]
    pred_p = [p for p in f.r["params"] if (f.unit.decl(p) or {}).get("n") == "is_suppressed"]
    if not pred_p:
        raise AnalysisBroken("anchor vanished: parameter is_suppressed of symtab::load_")
    LINK = ("setup_symbol_lookup_tables", "add_common_instance", "add_alias")
    for suppressed in (True, False):
        seen_at_link = []

        def atom(e):
            if e["k"] in ("CallExpr", "CXXOperatorCallExpr", "CXXMemberCallExpr") and e.get("op", "()") == "()":
                callee = strip_casts(e["c"][0]) if e.get("c") else None
                if e["k"] == "CXXOperatorCallExpr" and any(y["k"] == "DeclRefExpr" and y.get("d") == pred_p[0] for y in walk(call_args(e)[0])):
                    return [suppressed]
            if e["k"] == "CXXMemberCallExpr" and ((f.decl(e) or {}).get("n") or "").startswith("operator bool"):
                o = strip_casts(member_call_object(e))
                if o is not None and o["k"] == "DeclRefExpr" and o.get("d") == pred_p[0]:
                    return [True]
            if e["k"] == "DeclRefExpr" and e.get("d") == pred_p[0]:
                return [True]
            return None

        def effect(e, env):
            if e["k"] == "VarDecl" and e.get("d") == sv:
                env[-1] = frozenset([False])
            if e["k"] == "CXXMemberCallExpr" and (f.decl(e) or {}).get("n") in ("push_back", "emplace_back", "insert", "emplace") and \
                    any(y["k"] == "MemberExpr" and (f.decl(y) or {}).get("k") == "Field" for y in walk(member_call_object(e))) and \
                    any(y["k"] == "DeclRefExpr" and y.get("d") == sv for a in call_args(e) for y in walk(a)):
                env[-1] = frozenset([True])
            if e["k"] in ("CallExpr", "CXXMemberCallExpr") and (f.decl(e) or {}).get("n") in LINK and \
                    any(y["k"] == "DeclRefExpr" and y.get("d") == sv for a in call_args(e) for y in walk(a)):
                seen_at_link.append((e, env.get(-1) == frozenset([True])))
        W = World(f, atom, effect)
        W.run_env(set())
        if not seen_at_link:
            raise AnalysisBroken("anchor vanished: symtab::load_ no longer links the symbols it creates")
        bad = [e for e, ok in seen_at_link if not ok]
        ctx.ob("R-SYMOWN", "symtab::load_: a %s symbol is owned by the symtab before it is linked into an alias ring" % (
            "suppressed" if suppressed else "kept"), not bad, f.loc(bad[0]) if bad else f.loc(),
            "pushed into a member container on every path to %s" % "/".join(sorted({(f.decl(e) or {}).get("n") for e, _ in seen_at_link})) if not bad else
            "`%s` is reached with the symbol held by the loop variable only: the alias ring (weak pointers) keeps an expired link "
            "when the iteration ends, and the next walk of the ring dereferences it" % expr_str(f, bad[0])[:60])
