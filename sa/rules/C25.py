"""C25 - any suppression file never crashes the tools (null / index clauses)."""
from rules import null_rules as nr
from rules import idx_rule, inassert_rule

UNITS = None    # whole program: regex::match is called from the corpus and tools code too

INI_PRODUCERS = {"find_property", "is_simple_property", "is_list_property", "is_tuple_property",
                 "is_string_property_value", "is_list_property_value", "is_tuple_property_value",
                 "read_function_call_expr", "read_property_value", "read_property", "read_section",
                 "read_string_property_value", "read_list_property_value", "read_tuple_property_value"}
PROPERTY_CLASSES = ["abigail::ini::simple_property", "abigail::ini::list_property", "abigail::ini::tuple_property"]


def run(ctx):
    ctx.clause = ("no null regex reaches regex::match; results of the INI / suppression parsers' nullable producers are "
                  "checked before use; every property object always holds a value; constant subscripts on "
                  "input-filled vectors are size-guarded; no assertion on input-derived data in the INI/suppression "
                  "parsers")
    ctx.rules = ["R-RXNULL", "R-NULLABLE", "INV-PROPVALUE", "R-IDX", "R-INASSERT"]
    P = ctx.program(UNITS)
    n = nr.rxnull(ctx, P)
    ctx.floor("R-RXNULL", "regex::match call sites", n, 40)
    funcs = [f for f in P.all_funcs() if f.relfile.endswith(("src/abg-suppression.cc", "src/abg-ini.cc"))]
    n = nr.nullable_derefs(ctx, P, funcs, lambda d: d["n"] in INI_PRODUCERS and d["q"].startswith("abigail::ini"))
    ctx.floor("R-NULLABLE", "dereferences of INI producer results", n, 60)
    k = 0
    for cls in PROPERTY_CLASSES:
        k += nr.field_invariant_nonnull(ctx, P, cls + "::priv", "value_", "INV-PROPVALUE")
    ctx.floor("INV-PROPVALUE", "constructors/stores of property values", k, 6)
    k = idx_rule.run(ctx, P, funcs, "C25")
    ctx.floor("R-IDX", "constant subscripts / front / back in the INI and suppression parsers", k, 10)
    prod = lambda d: d["n"] in INI_PRODUCERS and d["q"].startswith("abigail::ini")
    ns, ni = inassert_rule.run(ctx, P, funcs, "C25", producers=prod)
    ctx.floor("R-INASSERT", "assertion sites in the INI and suppression parsers", ns, 25)
    ctx.note("R-INASSERT: the INI reader's ABG_ASSERT(read_next_char(c)) / ABG_ASSERT(c == X) follow a peek() of the "
             "same character and are internal consistency checks: the stream primitives are not in the input-accessor "
             "table (no input reaches them with the asserted fact false)")
