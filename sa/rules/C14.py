"""C14 - outputs are deterministic: R-UNORD / R-PTRCMP (iteration-order clause).

R-UNORD   Address-dependent containers: unordered_{map,set} keyed by a raw / smart pointer or by
          interned_string (its hasher hashes the pointer), and ordered map/set keyed by a pointer
          with the default std::less.  In a loop over such a container nothing may be inserted
          into an ostream, no emitting helper (write_*/report*/emit_*/dump*) may be called, and a
          vector that lives outside the loop may only be appended to if it is sorted afterwards in
          the same function (std::sort / stable_sort / a sort_* helper it is handed to).
          String-keyed unordered containers are out of scope: std::hash<std::string> is a function
          of the bytes, so their order depends on contents and insertion order only.
R-PTRCMP  Comparators handed to std::sort / std::stable_sort (functor classes, functions,
          lambdas) never apply < > <= >= to pointer-typed operands or to smart pointers.
"""
import re

from engine.facts import walk, call_args, member_call_object, expr_str
from engine.cfg import strip_casts
from engine.compdb import AnalysisBroken
from rules.null_rules import short, occurrence_tag


def split_targs(args):
    depth, cur, parts = 0, "", []
    for ch in args:
        if ch == "<":
            depth += 1
        if ch == ">":
            depth -= 1
        if ch == "," and depth == 0:
            parts.append(cur.strip())
            cur = ""
        else:
            cur += ch
    parts.append(cur.strip())
    return parts


def addr_dependent(c):
    m = re.match(r"(?:const )?std::(unordered_map|unordered_set|unordered_multimap|unordered_multiset|map|set|multimap|"
                 r"multiset)<(.*)>\s*&?$", c)
    if not m:
        return None
    kind, parts = m.group(1), split_targs(m.group(2))
    key = parts[0]
    ptrkey = key.endswith("*") or key.startswith("std::shared_ptr<") or key.startswith("std::weak_ptr<")
    if kind.startswith("unordered"):
        if ptrkey:
            return "%s keyed by pointer (%s)" % (kind, key)
        if "interned_string" in key:
            return "%s keyed by interned_string, whose hasher hashes the string's address" % kind
        return None
    cmp_ = parts[2] if kind in ("map", "multimap") and len(parts) > 2 else \
        parts[1] if kind in ("set", "multiset") and len(parts) > 1 else ""
    if ptrkey and (not cmp_ or cmp_.startswith("std::less")):
        return "%s ordered by pointer value (%s)" % (kind, key)
    return None


def loops_over_addr_containers(P):
    out = []
    for f in P.all_funcs():
        if f.dep:
            continue
        for n in f.nodes():
            cont = None
            if n["k"] == "ForStmt" and n["c"][0] is not None:
                for x in walk(n["c"][0]):
                    if x["k"] == "CXXMemberCallExpr" and (f.decl(x) or {}).get("n") in ("begin", "cbegin"):
                        cont = member_call_object(x)
            elif n["k"] == "CXXForRangeStmt":
                cont = n["c"][0]
            if cont is None:
                continue
            t = f.type(strip_casts(cont))
            why = addr_dependent(t["c"]) if t else None
            if why:
                out.append((f, n, cont, why))
    return out


def check_unord(ctx, P):
    loops = loops_over_addr_containers(P)
    ctx.floor("R-UNORD", "loops over address-dependent containers", len(loops), 12)
    seen = {}
    for f, loop, cont, why in sorted(loops, key=lambda t: (t[0].file, t[1]["l"])):
        ctx.analysed(f)
        body = loop["c"][-1]
        inner_decls = {x.get("d") for x in walk(body) if x["k"] == "VarDecl"}
        problems = []
        pushes = []
        for x in walk(body):
            if x["k"] == "CXXOperatorCallExpr" and x.get("op") == "<<":
                tt = f.type(call_args(x)[0])
                if tt and "basic_ostream" in tt["c"]:
                    root = x
                    problems.append("inserts into an ostream (%s)" % f.loc(x))
                    break
        for x in walk(body):
            if x["k"] in ("CallExpr", "CXXMemberCallExpr"):
                nm = (f.decl(x) or {}).get("n", "")
                if re.match(r"(write_|report|emit_|dump)", nm) and (f.decl(x) or {}).get("q", "").startswith("abigail"):
                    problems.append("calls the emitting helper %s()" % nm)
            if x["k"] == "CXXMemberCallExpr" and (f.decl(x) or {}).get("n") in ("push_back", "emplace_back", "push_front"):
                o = strip_casts(member_call_object(x))
                if o is None:
                    continue
                ot = f.type(o)
                if ot is None or "std::vector<" not in ot["c"]:
                    continue
                if o["k"] == "DeclRefExpr" and o.get("d") in inner_decls:
                    continue        # a per-iteration local
                # vector reached through the loop variable / an element looked up inside the body is per-key
                if o["k"] != "DeclRefExpr" and o["k"] != "MemberExpr":
                    continue
                pushes.append((x, expr_str(f, o)))
        for x, vname in pushes:
            sorted_after = False
            for y in f.nodes():
                if (y["l"], y["i"]) <= (loop["l"], loop["i"]):
                    continue
                if y["k"] == "CallExpr":
                    d = f.decl(y)
                    q = (d or {}).get("q", "")
                    if q in ("std::sort", "std::stable_sort") or (d or {}).get("n", "").startswith("sort_"):
                        if any(vname in expr_str(f, a) for a in call_args(y)):
                            sorted_after = True
            if not sorted_after:
                problems.append("appends to `%s`, which is not sorted afterwards in this function" % vname)
        ent = "%s: loop over %s" % (short(f), expr_str(f, strip_casts(cont)))
        ent += occurrence_tag(seen, ent)
        ctx.ob("R-UNORD", ent, not problems, f.loc(loop),
               "%s; body only fills associative containers / sorted vectors" % why if not problems else
               "%s: iteration order depends on addresses, and the loop body %s" % (why, "; ".join(problems)))


def comparators(P):
    """{function usr: where it is used} for comparators handed to std::sort / stable_sort"""
    out = {}
    for f in P.all_funcs():
        if f.dep:
            continue
        for n, d in f.calls():
            if d["q"] not in ("std::sort", "std::stable_sort") or len(call_args(n)) < 3:
                continue
            a = strip_casts(call_args(n)[2])
            while a is not None and a["k"] == "CXXConstructExpr" and len(a.get("c", [])) == 1:
                a = strip_casts(a["c"][0])
            if a is None:
                continue
            t = f.type(a)
            if a["k"] == "LambdaExpr" and f.decl(a):
                out.setdefault(f.decl(a)["u"], f.loc(n))
            elif a["k"] == "DeclRefExpr" and (f.decl(a) or {}).get("k") == "Function":
                out.setdefault(f.decl(a)["u"], f.loc(n))
            elif t and t.get("rec"):
                for g in P.all_funcs():
                    if g.cls == t["rec"] and g.n == "operator()" and not g.dep:
                        out.setdefault(g.u, f.loc(n))
    return out


def check_ptrcmp(ctx, P):
    comps = comparators(P)
    ctx.floor("R-PTRCMP", "comparator bodies handed to std::sort / std::stable_sort", len(comps), 25)
    cg = P.callgraph()

    def ptr_relops(g):
        bad = []
        for n in g.nodes():
            if n["k"] == "BinaryOperator" and n.get("op") in ("<", ">", "<=", ">="):
                for o in n["c"]:
                    t = g.type(strip_casts(o))
                    if t is not None and t.get("ptr") and "char" not in t["c"]:
                        bad.append((n, "raw pointers"))
                        break
            if n["k"] == "CXXOperatorCallExpr" and n.get("op") in ("<", ">", "<=", ">="):
                d = g.decl(n)
                if d is not None and d["q"].startswith("std::operator") and any(
                        "shared_ptr" in (g.type(strip_casts(o)) or {}).get("c", "") for o in call_args(n)):
                    bad.append((n, "smart pointers"))
        return bad
    for u, where in sorted(comps.items(), key=lambda kv: kv[1]):
        g = P.funcs.get(u)
        if g is None:
            continue
        ctx.analysed(g)
        # the comparator and the repo helpers it delegates to (three levels: *_is_less_than, compare helpers)
        todo, closure = [(u, 0)], {u}
        while todo:
            cu, dpt = todo.pop()
            if dpt >= 3:
                continue
            for v in cg.get(cu, {}):
                h = P.funcs.get(v)
                if h is None or v in closure or not h.q.startswith("abigail::"):
                    continue
                if not re.search(r"less|comp|sort|order|before", h.n):
                    continue
                closure.add(v)
                todo.append((v, dpt + 1))
        bad = []
        for cu in closure:
            h = P.funcs[cu]
            for n, what in ptr_relops(h):
                bad.append((h, n, what))
        name = (g.cls + "::" + g.n) if g.cls else g.n
        ctx.ob("R-PTRCMP", "%s orders by value" % name.replace("abigail::", ""), not bad, g.loc(),
               "no relational operator is applied to a pointer in the comparator or the %d ordering helper(s) it "
               "delegates to (used at %s)" % (len(closure) - 1, where) if not bad else
               "`%s` in %s orders %s: the sort order, hence the output, depends on addresses" % (
                   expr_str(bad[0][0], bad[0][1]), bad[0][0].q, bad[0][2]))


NAME_KEYS = ("get_qualified_name", "get_name", "get_linkage_name", "get_qualified_parent_name")


def check_tiebreak(ctx, P):
    """R-TIEBREAK: the vectors the writer emits are stable-sorted from pointer-hashed sets, so a comparator that ties on
    two distinct elements lets the hash order through.  For comparators over the heterogeneous hierarchies
    (decl_base / type_base operands) the last-resort key must distinguish the *kind* of the artifact: a name alone does
    not (`typedef struct foo {..} foo;` gives a struct and a typedef one qualified name and one location).  Decided for
    the name getters (violation); other keys are not judged."""
    comps = comparators(P)
    n = 0
    for u, where in sorted(comps.items(), key=lambda kv: kv[1]):
        g = P.funcs.get(u)
        if g is None or g.cfg() is None:
            continue
        ps = g.params()
        if len(ps) != 2:
            continue
        tys = [(g.unit.type(p["t"]) or {}).get("c", "") for p in ps]
        if not all(re.search(r"\b(decl_base|type_base|type_or_decl_base)\b", t) for t in tys):
            continue
        # the textually last return of the functor = the last resort
        rets = [x for x in g.nodes() if x["k"] == "ReturnStmt" and x.get("c")]
        if not rets:
            continue
        last = max(rets, key=lambda x: (x["l"], x["i"]))
        e = strip_casts(last["c"][0])
        while e is not None and e["k"] in ("ExprWithCleanups", "ImplicitCastExpr", "MaterializeTemporaryExpr", "ParenExpr") and e.get("c"):
            e = strip_casts(e["c"][0])
        if e is None or e["k"] not in ("BinaryOperator", "CXXOperatorCallExpr") or e.get("op") not in ("<", ">"):
            continue
        ops = call_args(e) if e["k"] == "CXXOperatorCallExpr" else e["c"]
        keys = set()
        for o in ops:
            for x in walk(o):
                if x["k"] in ("CallExpr", "CXXMemberCallExpr"):
                    nm = (g.decl(x) or {}).get("n")
                    if nm and (nm.startswith("get_") or nm.endswith("representation")):
                        keys.add(nm)
        if not keys:
            continue
        n += 1
        bad = keys & set(NAME_KEYS)
        name = (g.cls + "::" + g.n) if g.cls else g.n
        ent = "%s(%s): the last-resort key distinguishes artifacts of different kinds" % (
            name.replace("abigail::", ""), ", ".join(t.replace("abigail::ir::", "") for t in tys))
        ctx.ob("R-TIEBREAK", ent, not bad, g.loc(last),
               "last resort compares %s" % sorted(keys) if not bad else
               "the last resort compares %s: a type and the typedef (or variable) that bears its name tie, and std::stable_sort "
               "then keeps the enumeration order of the pointer-hashed set the sequence was built from - the emitted order "
               "depends on heap layout (sorted at %s)" % (sorted(bad), where))
    ctx.floor("R-TIEBREAK", "comparators over decl_base / type_base with a keyed last resort", n, 1)


def run(ctx):
    ctx.clause = ("no address-dependent iteration order reaches the output: loops over pointer-keyed / "
                  "interned_string-keyed unordered containers and pointer-ordered sets only fill associative "
                  "containers or vectors that are sorted afterwards, and sort comparators never order by address")
    ctx.rules = ["R-UNORD", "R-PTRCMP", "R-TIEBREAK", "R-MEMBERINIT"]
    P = ctx.program(None)
    check_unord(ctx, P)
    check_ptrcmp(ctx, P)
    check_tiebreak(ctx, P)
    check_memberinit(ctx, P)
    ctx.assume("loop bodies that call arbitrary functions with side effects (e.g. add_alias) are not classified; "
               "nondeterminism from elfutils, and from uninitialised memory other than scalar data members (locals, heap "
               "buffers), is not decided")


SCALARS = ("bool", "char", "signed char", "unsigned char", "short", "unsigned short", "int", "unsigned int", "long", "unsigned long",
           "long long", "unsigned long long", "float", "double", "size_t", "uint64_t", "uint32_t", "int64_t", "int32_t", "uint8_t",
           "uint16_t", "unsigned", "GElf_Addr", "Dwarf_Off", "Dwarf_Addr")


def _scalar(t):
    if not t or t.get("ref") or t.get("rec"):
        return False
    if t.get("ptr") or t.get("enum"):
        return True
    c = (t.get("c") or t.get("s") or "").replace("const ", "").replace("volatile ", "").strip()
    return c in SCALARS


def check_memberinit(ctx, P):
    """R-MEMBERINIT: a scalar (arithmetic, enumeration or pointer) data member that a constructor leaves uninitialised
    holds whatever the allocator left there; every flag the tools branch on lives in such members (the readers' options, the
    diff context's switches).  For every user-provided constructor of a class of the project *that is reachable from a tool's main*: each scalar member is covered by a member initialiser (written, or implied by a default member initialiser),
    or assigned through `this` in the constructor body or in a member function the body calls on `this` (two levels, the
    project's `initialize()` idiom), or the object is memset."""
    called = set(P.live())          # reachable from a tool's main
    n = n_ctor = 0
    for f in sorted(P.all_funcs(), key=lambda x: (x.file, x.l0, x.sig)):
        if f.dep or not f.cls or not f.q.startswith("abigail::") or f.body is None:
            continue
        cname = f.cls.split("::")[-1]
        if f.n != cname or f.u not in called:
            continue
        rec = P.records.get(f.cls)
        if not rec or rec.get("tmpl"):
            continue
        ru = rec["_unit"]
        kids = [x for x in f.body.get("c", []) if x is not None]
        # a delegating constructor initialises through its target
        if any(x["k"] == "CtorInit" and not x.get("d") and x.get("t") and
               ((f.unit.type(x["t"]) or {}).get("c") or (f.unit.type(x["t"]) or {}).get("s") or "").split("::")[-1] == cname for x in kids):
            continue
        inits = {(f.unit.decl(x.get("d")) or {}).get("n") for x in kids if x["k"] == "CtorInit" and x.get("d")}
        assigned = set()

        def collect(g, depth=0):
            for x in g.nodes():
                if x["k"] in ("BinaryOperator", "CXXOperatorCallExpr", "CompoundAssignOperator") and x.get("op") == "=":
                    a = call_args(x) if x["k"] == "CXXOperatorCallExpr" else x["c"]
                    l = strip_casts(a[0])
                    if l is not None and l["k"] == "MemberExpr" and l.get("c") and l["c"][0] is not None and l["c"][0]["k"] == "CXXThisExpr":
                        assigned.add((g.decl(l) or {}).get("n"))
                if x["k"] == "CallExpr" and (g.decl(x) or {}).get("n") in ("memset", "__builtin_memset"):
                    assigned.add("*")
                if depth < 2 and x["k"] == "CXXMemberCallExpr":
                    o = strip_casts(member_call_object(x))
                    if o is not None and o["k"] == "CXXThisExpr":
                        h = P.funcs.get((g.decl(x) or {}).get("u"))
                        if h is not None and not h.dep:
                            collect(h, depth + 1)
        collect(f)
        n_ctor += 1
        for fld in rec.get("fields", []):
            if not _scalar(ru.type(fld["t"])):
                continue
            n += 1
            ok = fld["n"] in inits or fld["n"] in assigned or "*" in assigned
            if ok:
                continue
            ctx.analysed(f)
            ctx.ob("R-MEMBERINIT", "%s%s initialises %s" % (f.cls.replace("abigail::", ""), f.sig[f.sig.index("("):][:50], fld["n"]),
                   False, f.loc(), "the member `%s` (%s) is neither in the initialiser list nor assigned in the body: what the tools "
                   "do when they read it depends on the contents of the heap" % (
                       fld["n"], (ru.type(fld["t"]) or {}).get("c") or (ru.type(fld["t"]) or {}).get("s")))
    ctx.ob("R-MEMBERINIT", "every scalar member is initialised by every constructor that the program calls", True, "",
           "%d (constructor, scalar member) pairs in %d called constructors" % (n, n_ctor))
    ctx.floor("R-MEMBERINIT", "(constructor, scalar member) pairs", n, 250)
