"""R-ALIASARG: a function that is *called with the same object* for a `const T&` input and a `T&`
output parameter must not read the input after it may have written the output.

The instances are discovered from the program: every call site (in the analysed units) that passes one
lvalue for two reference parameters of which one is const and one is not.  For each callee reached that
way, a forward may-analysis over its CFG tracks "the output parameter may have been written"; any later
evaluation of the input parameter is a read of the already clobbered argument at those call sites.
Parameters that receive the same literal (or defaulted literal) at every aliased call site are treated
as constants: branches on them are pruned (dir_name's `keep_separator_at_end &&` test).
"""
from engine.cfg import forward, TOP, strip_casts
from engine.facts import walk, call_args, member_call_object, expr_str
from rules.null_rules import short

MUTATORS = ("clear", "assign", "append", "push_back", "erase", "insert", "replace", "resize", "swap", "pop_back",
            "operator=", "operator+=")


def _lvalue_key(f, a):
    a = strip_casts(a)
    if a is None:
        return None
    if a["k"] == "DeclRefExpr" and (f.decl(a) or {}).get("k") in ("Var", "ParmVar"):
        return ("v", a.get("d"))
    if a["k"] == "MemberExpr":
        return ("m", expr_str(f, a))
    return None


def aliased_sites(P, funcs):
    """[(caller, call node, callee decl, in index, out index)]"""
    out = []
    for f in funcs:
        if f.dep:
            continue
        for c, d in f.calls():
            if c["k"] not in ("CallExpr", "CXXMemberCallExpr"):
                continue
            pt = d.get("pt") or []
            args = call_args(c)
            keys = {}
            for i, a in enumerate(args):
                if i >= len(pt):
                    break
                t = f.unit.type(pt[i]) or {}
                if not t.get("ref"):
                    continue
                k = _lvalue_key(f, a)
                if k is not None:
                    keys.setdefault(k, []).append((i, "const " in t["s"] or t["s"].endswith(" const &") or
                                                   " const&" in t["s"]))
            for k, v in keys.items():
                ins = [i for i, c_ in v if c_]
                outs = [i for i, c_ in v if not c_]
                for i in ins:
                    for o in outs:
                        out.append((f, c, d, i, o))
    return out


def _writes(g, n, pd):
    """does CFG element n (may) write the parameter with decl id pd?"""
    def is_p(x):
        x = strip_casts(x)
        return x is not None and x["k"] == "DeclRefExpr" and x.get("d") == pd
    if n["k"] == "CXXOperatorCallExpr" and n.get("op") in ("=", "+=", "<<", ">>") and call_args(n) and is_p(call_args(n)[0]):
        return n.get("op") in ("=", "+=")
    if n["k"] == "BinaryOperator" and n.get("op", "").endswith("=") and n.get("op") not in ("==", "!=", "<=", ">=") \
            and is_p(n["c"][0]):
        return True
    if n["k"] == "CXXMemberCallExpr" and is_p(member_call_object(n)):
        d = g.decl(n) or {}
        return d.get("n") in MUTATORS or not d.get("const", d.get("n") in (
            "empty", "length", "size", "c_str", "data", "find", "rfind", "substr", "compare", "begin", "end",
            "find_last_of", "find_first_of", "find_last_not_of", "find_first_not_of", "at", "operator[]", "back", "front"))
    if n["k"] in ("CallExpr", "CXXMemberCallExpr", "CXXConstructExpr"):
        d = g.decl(n) or {}
        pt = d.get("pt") or []
        for i, a in enumerate(call_args(n)):
            if is_p(a) and i < len(pt):
                t = g.unit.type(pt[i]) or {}
                if t.get("ref") and not ("const " in t["s"] or " const" in t["s"]):
                    return True     # handed on as an output parameter
    return False


def check(ctx, P, funcs, rule="R-ALIASARG", only_callers=None):
    sites = aliased_sites(P, funcs)
    by_callee = {}
    for f, c, d, i, o in sites:
        if only_callers is not None and not only_callers(f):
            continue
        by_callee.setdefault((d.get("u"), i, o), []).append((f, c, d))
    n = 0
    for (u, i, o), ss in sorted(by_callee.items(), key=lambda kv: str(kv[0])):
        g = P.funcs.get(u)
        where = ", ".join(sorted({f.loc(c) for f, c, d in ss}))
        callers = ", ".join(sorted({short(f) for f, c, d in ss}))
        if g is None or g.cfg() is None:
            ctx.note("%s: %s is called with aliased arguments at %s but its body is not in the analysed units" % (
                rule, ss[0][2]["q"], where))
            continue
        n += 1
        ctx.analysed(g)
        pin, pout = g.r["params"][i], g.r["params"][o]
        # constants: parameters that get one literal at every aliased site
        consts = {}
        for k, pid in enumerate(g.r["params"]):
            vals = set()
            for f, c, d in ss:
                a = call_args(c)
                x = strip_casts(a[k]) if k < len(a) else None
                if x is not None and x["k"] in ("CXXBoolLiteralExpr", "IntegerLiteral", "CXXDefaultArgExpr") and "v" in x:
                    vals.add(x["v"])
                else:
                    vals.add(None)
            if len(vals) == 1 and None not in vals:
                consts[pid] = next(iter(vals))
        cfg = g.cfg()

        def feasible(b, idx):
            br = cfg.branch(b)
            if br is None:
                return True
            cond, neg = strip_casts(br[0]), False
            while cond is not None and cond["k"] == "UnaryOperator" and cond.get("op") == "!":
                cond, neg = strip_casts(cond["c"][0]), not neg
            if cond is not None and cond["k"] == "DeclRefExpr" and cond.get("d") in consts:
                truth = bool(consts[cond["d"]]) != neg
                return (idx == 0) == truth
            return True
        # forward may-analysis with edge pruning: state True once the output may have been written
        state = {cfg.entry: False}
        work = [cfg.entry]
        bad = []
        seen_bad = set()
        while work:
            b = work.pop()
            st = state[b]
            blk = cfg.blocks[b]
            for e in blk.elems:
                if st and e["k"] == "DeclRefExpr" and e.get("d") == pin and e["i"] not in seen_bad:
                    seen_bad.add(e["i"])
                    bad.append(e)
                if _writes(g, e, pout):
                    st = True
            for idx, s in enumerate(blk.succs):
                if s is None or s not in cfg.blocks or not feasible(b, idx):
                    continue
                if s not in state or (st and not state[s]):
                    state[s] = st or state.get(s, False)
                    work.append(s)
        pn, on = g.unit.decl(pin)["n"], g.unit.decl(pout)["n"]
        ent = "%s: input `%s` is not read after output `%s` may have been written (they alias in %s)" % (
            short(g), pn, on, callers)
        cdesc = "; ".join("%s = %s" % (g.unit.decl(k)["n"], v) for k, v in consts.items())
        ctx.ob(rule, ent, not bad, g.loc(bad[0]) if bad else g.loc(),
               "no evaluation of `%s` is reachable from a write of `%s`%s; aliased call sites: %s" % (
                   pn, on, (" with " + cdesc) if cdesc else "", where)
               if not bad else
               "`%s` is evaluated at %s after `%s` may already have been written: at the call sites that pass one string "
               "for both, the function reads its own partial output instead of the caller's input" % (
                   pn, ", ".join(g.loc(e) for e in bad[:4]), on))
    return n
