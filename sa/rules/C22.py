"""C22 - a suppression that matches nothing changes nothing (origin / guard discipline of the suppression categories).

Induction the rules make checkable: a diff node is in SUPPRESSED_CATEGORY / PRIVATE_TYPE_CATEGORY only if (base)
some suppression's suppresses_diff() answered true for it, or (step) a child already carries the category.  If no
suppression matches anything, no node ever gets either category, whatever the number of sections.

R-SUPPRCAT/ORIGIN  every call of a diff category setter whose argument can carry SUPPRESSED_CATEGORY or
                   PRIVATE_TYPE_CATEGORY sits in suppression_categorization_visitor (who-may-write, whole program).
R-SUPPRCAT/GUARD   each such write is dominated by the true edge of an `is_suppressed(..)` test, or of a
                   condition over *evidence flags*: bool locals that are assigned true only under a test of a
                   child's category against those two bits (or of a child's is_suppressed()).
R-SUPPRCAT/PRED    diff::is_suppressed(bool&) returns true only on the true edge of suppresses_diff().
R-SUPPRSET         in apply_supprs_to_added_removed_fns_vars_unreachable_types every store into a suppressed_*
                   container is control-dependent on a suppression predicate call (the twelve loops of R-CHGKIND/b).
"""
from engine.cfg import forward, state_before, TOP, strip_casts
from engine.facts import walk, call_args, member_call_object, expr_str
from engine.compdb import AnalysisBroken
from rules.null_rules import short
from rules import supprapp_rules as sa

UNITS = None      # whole program: the who-may-write clause is global
BITS = ("SUPPRESSED_CATEGORY", "PRIVATE_TYPE_CATEGORY")
VISITOR = "abigail::comparison::suppression_categorization_visitor"


def _mentions_bits(f, e, carriers=()):
    for x in walk(e):
        if x["k"] == "DeclRefExpr":
            d = f.decl(x) or {}
            if d.get("k") == "EnumConstant" and d.get("n") in BITS:
                return True
            if x.get("d") in carriers:
                return True
    return False


def _carriers(f):
    """locals of category type initialised / assigned from an expression that names one of the two bits"""
    out = set()
    changed = True
    while changed:
        changed = False
        for n in f.nodes():
            tgt = rhs = None
            if n["k"] == "VarDecl" and n.get("c") and n["c"][0] is not None:
                tgt, rhs = n.get("d"), n["c"][0]
            elif n["k"] in ("BinaryOperator", "CompoundAssignOperator") and n.get("op") in ("=", "|="):
                l = strip_casts(n["c"][0])
                if l is not None and l["k"] == "DeclRefExpr":
                    tgt, rhs = l.get("d"), n["c"][1]
            if tgt is not None and tgt not in out and _mentions_bits(f, rhs, out):
                out.add(tgt)
                changed = True
    return out


def _complement_only(f, e):
    """the bits only appear under a `~` (masking them *out*): category & ~(SUPPRESSED|PRIVATE)"""
    pos = False

    def rec(n, neg):
        nonlocal pos
        if n is None:
            return
        if n["k"] == "UnaryOperator" and n.get("op") == "~":
            neg = True
        if n["k"] == "DeclRefExpr" and (f.decl(n) or {}).get("k") == "EnumConstant" and (f.decl(n) or {}).get("n") in BITS:
            if not neg:
                pos = True
        for c in n.get("c", ()):
            rec(c, neg)
    rec(e, False)
    return not pos


def _positive_bit_test(f, cond, truth):
    """does `cond` evaluating to `truth` imply that some node's category has one of the bits / is_suppressed()?"""
    c = strip_casts(cond)
    if c is None:
        return False
    if c["k"] in ("UnaryOperator", "CXXOperatorCallExpr") and c.get("op") == "!":
        return _positive_bit_test(f, c["c"][-1], not truth)
    if c["k"] == "BinaryOperator" and c.get("op") == "&&" and truth:
        return _positive_bit_test(f, c["c"][0], True) or _positive_bit_test(f, c["c"][1], True)
    if c["k"] == "BinaryOperator" and c.get("op") == "||" and not truth:
        return _positive_bit_test(f, c["c"][0], False) or _positive_bit_test(f, c["c"][1], False)
    if not truth:
        return False
    if c["k"] == "CXXMemberCallExpr" and (f.decl(c) or {}).get("n") == "is_suppressed":
        return True
    if c["k"] in ("BinaryOperator", "CXXOperatorCallExpr") and c.get("op") == "&":
        return _mentions_bits(f, c) and _complement_only(f, c) is False
    return False


def evidence_flags(f):
    """bool locals assigned `true` only under a condition that tests a child's category against the bits, or a
    child's is_suppressed()"""
    cand = {}
    for n in f.nodes():
        if n["k"] == "BinaryOperator" and n.get("op") == "=":
            l, r = strip_casts(n["c"][0]), strip_casts(n["c"][1])
            if l is None or l["k"] != "DeclRefExpr" or r is None:
                continue
            t = f.type(l)
            if t is None or t["c"] != "bool":
                continue
            if r["k"] == "CXXBoolLiteralExpr" and r.get("v") == 1:
                ok = False
                prev = n
                for a in f.ancestors(n):
                    if a["k"] == "IfStmt":
                        in_then = a["c"][1] is not None and any(z["i"] == prev["i"] for z in walk(a["c"][1]))
                        in_else = a["c"][2] is not None and any(z["i"] == prev["i"] for z in walk(a["c"][2]))
                        if (in_then and _positive_bit_test(f, a["c"][0], True)) or \
                                (in_else and _positive_bit_test(f, a["c"][0], False)):
                            ok = True
                            break
                    prev = a
                cand.setdefault(l.get("d"), []).append(ok)
            elif not (r["k"] == "CXXBoolLiteralExpr" and r.get("v") == 0):
                cand.setdefault(l.get("d"), []).append(False)
    return {d for d, oks in cand.items() if oks and all(oks)}


def run(ctx):
    ctx.clause = ("a diff node enters SUPPRESSED_CATEGORY / PRIVATE_TYPE_CATEGORY only on the evidence of a matching "
                  "suppression (is_suppressed() true) or of a child that already carries the category, only the "
                  "suppression visitor writes those bits, is_suppressed() answers true only after suppresses_diff() did, "
                  "and the suppressed_* sets are filled only under a suppression predicate")
    ctx.rules = ["R-SUPPRCAT/ORIGIN", "R-SUPPRCAT/GUARD", "R-SUPPRCAT/PRED", "R-SUPPRSET", "R-BINGATE"]
    P = ctx.program(UNITS)
    setters = sa.CATEGORY_SETTERS
    n_writes = 0
    seen = {}
    for f in sorted(P.all_funcs(), key=lambda x: (x.file, x.l0)):
        if f.dep:
            continue
        car = None
        for n, d in f.calls():
            if d.get("cls") != "abigail::comparison::diff" or d["n"] not in setters:
                continue
            if car is None:
                car = _carriers(f)
            args = call_args(n)
            if not args or not _mentions_bits(f, args[0], car):
                continue
            if _complement_only(f, args[0]) and not any(x["k"] == "DeclRefExpr" and x.get("d") in car for x in walk(args[0])):
                continue      # masks the bits out
            if f.cls == "abigail::comparison::diff" and f.n in setters:
                continue      # the setters delegating to each other
            n_writes += 1
            ctx.analysed(f)
            ent0 = "%s: %s" % (short(f), expr_str(f, n)[:70])
            seen[ent0] = seen.get(ent0, 0) + 1
            ent = ent0 if seen[ent0] == 1 else "%s #%d" % (ent0, seen[ent0])
            in_visitor = (f.cls or "") == VISITOR
            ctx.ob("R-SUPPRCAT/ORIGIN", ent + " is written by the suppression visitor", in_visitor, f.loc(n),
                   "in %s" % f.cls if in_visitor else
                   "a suppression category is written outside suppression_categorization_visitor (%s): nodes can be "
                   "hidden without any suppression having matched" % f.q)
            if f.cfg() is None:
                continue
            flags = evidence_flags(f)
            cfg = f.cfg()

            def evid(cond, truth):
                c = strip_casts(cond)
                if c is None:
                    return False
                if c["k"] in ("UnaryOperator", "CXXOperatorCallExpr") and c.get("op") == "!":
                    return evid(c["c"][-1], not truth)
                if c["k"] == "BinaryOperator" and c.get("op") == "&&" and truth:
                    return evid(c["c"][0], True) or evid(c["c"][1], True)
                if not truth:
                    return False
                if c["k"] == "CXXMemberCallExpr" and (f.decl(c) or {}).get("n") == "is_suppressed":
                    return True
                if c["k"] == "DeclRefExpr" and c.get("d") in flags:
                    return True
                return False

            def edge(st, blk, idx):
                if cfg.branch(blk.id) is None:
                    return st
                for c in cfg.branch_conds(blk.id):
                    if evid(c, idx == 0):
                        return st | {"E"}
                return st
            ins, _ = forward(cfg, frozenset(), lambda s, n_, b: s, edge)
            st = state_before(cfg, ins, lambda s, n_, b: s, n)
            ok = st is not TOP and "E" in st
            ctx.ob("R-SUPPRCAT/GUARD", ent + " only on evidence of a match", ok, f.loc(n),
                   "dominated by is_suppressed() / a child-carries-the-category flag (%s)" % sorted(
                       f.unit.decl(d_)["n"] for d_ in flags) if ok else
                   "the category is written on a path that passed neither an is_suppressed() test nor a flag set from "
                   "a child's suppressed/private category: a node is hidden although no suppression matched")
    ctx.floor("R-SUPPRCAT/ORIGIN", "writes of the suppression categories", n_writes, 8)

    # ---- PRED
    fs = [f for f in P.fn("abigail::comparison::diff::is_suppressed") if len(f.r["params"]) == 1 and not f.dep]
    if len(fs) != 1:
        raise AnalysisBroken("anchor vanished: diff::is_suppressed(bool&)")
    f = fs[0]
    ctx.analysed(f)
    cfg = f.cfg()

    def edge2(st, blk, idx):
        if cfg.branch(blk.id) is None:
            return st
        for c in cfg.branch_conds(blk.id):
            c0, truth = strip_casts(c), idx == 0
            while c0 is not None and c0["k"] in ("UnaryOperator", "CXXOperatorCallExpr") and c0.get("op") == "!":
                c0, truth = strip_casts(c0["c"][-1]), not truth
            if truth and c0 is not None and c0["k"] == "CXXMemberCallExpr" and (f.decl(c0) or {}).get("n") == "suppresses_diff":
                return st | {"M"}
        return st
    ins, _ = forward(cfg, frozenset(), lambda s, n_, b: s, edge2)
    n_ret = 0
    for r in f.nodes():
        if r["k"] != "ReturnStmt" or not r.get("c"):
            continue
        v = strip_casts(r["c"][0])
        if v is not None and v["k"] == "CXXBoolLiteralExpr" and v.get("v") == 0:
            continue
        n_ret += 1
        st = state_before(cfg, ins, lambda s, n_, b: s, r)
        ok = st is not TOP and "M" in st
        ctx.ob("R-SUPPRCAT/PRED", "diff::is_suppressed: `return %s` only after suppresses_diff() answered true" % expr_str(f, v),
               ok, f.loc(r), "dominated by the true edge of (*i)->suppresses_diff(this)" if ok else
               "is_suppressed() can answer true without any suppression having matched the node")
    ctx.floor("R-SUPPRCAT/PRED", "non-false returns of diff::is_suppressed", n_ret, 1)

    # ---- SET
    g = P.fn1("abigail::comparison::corpus_diff::priv::apply_supprs_to_added_removed_fns_vars_unreachable_types")
    ctx.analysed(g)
    n_store = 0
    seen2 = {}
    for x in g.nodes():
        if x["k"] in ("CXXOperatorCallExpr", "BinaryOperator") and x.get("op") == "=":
            l = strip_casts(x["c"][1] if x["k"] == "CXXOperatorCallExpr" else x["c"][0])
            if l is None or l["k"] != "CXXOperatorCallExpr" or l.get("op") != "[]":
                continue
            fld = sa._field(g, l["c"][1])
            if not fld or not fld.startswith("suppressed_"):
                continue
            n_store += 1
            guarded = False
            for a in g.ancestors(x):
                if a["k"] == "IfStmt" and any(
                        y["k"] in ("CallExpr", "CXXMemberCallExpr") and "suppress" in (g.decl(y) or {}).get("n", "")
                        for y in walk(a["c"][0])) and any(z["i"] == x["i"] for z in walk(a["c"][1])):
                    guarded = True
            ent = "apply_supprs: store into %s under a suppression predicate" % fld
            seen2[ent] = seen2.get(ent, 0) + 1
            if seen2[ent] > 1:
                ent += " #%d" % seen2[ent]
            ctx.ob("R-SUPPRSET", ent, guarded, g.loc(x),
                   "in the then-branch of a test that calls the suppression predicate" if guarded else
                   "an interface is recorded as suppressed without a suppression predicate having answered true")
    ctx.floor("R-SUPPRSET", "stores into the suppressed_* containers", n_store, 12)
    from rules import bingate_rule
    bingate_rule.check(ctx, P)
    ctx.assume("that suppresses_diff / suppresses_function / ... answer false for a section whose constraints match "
               "nothing is the matching logic itself (runtime; its regex and change_kind clauses are decided under C23-C25); "
               "suppressions handed to the readers (types dropped at load time) are outside this clause")
