"""C32 - worker queue protocol: lock / condition-variable discipline of src/abg-workers.cc.

R-PAIR      lock/unlock pairing on every path (no double lock, no unlock of an unheld mutex,
            nothing held at exit, cond_wait only with its mutex held).
R-LOCKSET   every access to a guarded field happens with its mutex in the must-held set.
R-WAITLOOP  every pthread_cond_wait sits in a loop that re-tests a predicate over fields
            guarded by the very mutex passed to the wait.
R-SIGNAL    every mutation that can falsify a waiter's loop condition is followed on every
            feasible path by a signal (flag assignments: a broadcast) of that waiter's
            condition variable before the thread can block or leave.
R-ONCE      a task is taken by front()+pop() in one critical section, performed outside any
            lock, then pushed to tasks_done and notified exactly once inside the
            tasks_done_mutex section; every created worker is joined.
INV-QUEUE-NONNULL  only non-null tasks enter tasks_todo (justifies pruning `if (t)` after a pop).
"""
from engine.cfg import forward, state_before, cond_facts, strip_casts, TOP, NullFlow, assigned_key
from engine.facts import walk, call_args, member_call_object, expr_str
from engine.compdb import AnalysisBroken

UNITS = ["src/abg-workers.cc"]
PRIV = "abigail::workers::queue::priv"
# guard map: from the comments on the fields of queue::priv, confirmed by reading
GUARDS = {"tasks_todo": "tasks_todo_mutex", "bring_workers_down": "tasks_todo_mutex",
          "tasks_done": "tasks_done_mutex", "notify": "tasks_done_mutex"}
EXEMPT = {
    "abigail::workers::queue::priv::priv": "constructor: no other thread can hold a reference yet",
    "abigail::workers::queue::get_size": "owner-thread accessor, outside the property's statement",
    "abigail::workers::queue::get_completed_tasks": "owner-thread accessor, read after wait_for_workers_to_complete()",
}


def field_name(f, n):
    """name of the queue::priv field an expression denotes (through & and casts)"""
    n = strip_casts(n)
    while n is not None and n["k"] == "UnaryOperator" and n.get("op") == "&":
        n = strip_casts(n["c"][0])
    # reads of a std::atomic field: implicit conversion operator / load()
    if n is not None and n["k"] == "CXXMemberCallExpr" and not call_args(n) and \
            ((f.decl(n) or {}).get("n", "").startswith("operator ") or (f.decl(n) or {}).get("n") == "load"):
        n = strip_casts(member_call_object(n))
    if n is not None and n["k"] == "MemberExpr":
        d = f.decl(n)
        if d is not None and d["k"] == "Field" and d.get("cls") == PRIV:
            return d["n"]
    return None


def pcall(f, n):
    """('lock'|'unlock'|'wait'|'signal'|'broadcast'|'join'|'create', [field args]) for pthread calls"""
    if n["k"] != "CallExpr":
        return None
    d = f.decl(n)
    if d is None:
        return None
    m = {"pthread_mutex_lock": "lock", "pthread_mutex_unlock": "unlock", "pthread_cond_wait": "wait",
         "pthread_cond_signal": "signal", "pthread_cond_broadcast": "broadcast",
         "pthread_join": "join", "pthread_create": "create"}.get(d["n"])
    if m is None:
        return None
    return m, [field_name(f, a) for a in call_args(n)]


class LockFlow(object):
    """state = (must-held, may-held) as a pair of frozensets"""

    def __init__(self, ctx, f):
        self.ctx, self.f, self.cfg = ctx, f, f.cfg()
        self.problems = []

    def transfer(self, st, n, blk, record=False):
        must, may = st
        pc = pcall(self.f, n)
        if pc is None:
            return st
        op, args = pc
        if op == "lock":
            m = args[0]
            if record and m in may:
                self.problems.append((n, "double lock of %s" % m))
            return (must | {m}, may | {m})
        if op == "unlock":
            m = args[0]
            if record and m not in must:
                self.problems.append((n, "unlock of %s which is not held on every path" % m))
            return (must - {m}, may - {m})
        if op == "wait":
            m = args[1]
            if record and m not in must:
                self.problems.append((n, "pthread_cond_wait(%s, %s) without holding %s" % (args[0], m, m)))
        return st

    def solve(self):
        join = lambda a, b: (a[0] & b[0], a[1] | b[1])
        self.ins, self.outs = forward(self.cfg, (frozenset(), frozenset()),
                                      lambda s, n, b: self.transfer(s, n, b), join=join)
        # second pass to record problems with converged states
        for b, st in self.ins.items():
            if st is TOP:
                continue
            for e in self.cfg.blocks[b].elems:
                st = self.transfer(st, e, self.cfg.blocks[b], record=True)
        return self

    def before(self, node):
        return state_before(self.cfg, self.ins, lambda s, n, b: self.transfer(s, n, b), node)

    def at_exit(self):
        return self.ins.get(self.cfg.exit, TOP)


def explore(f, start, stop, feasible_facts=None, count=None):
    """Enumerate CFG paths from the element after `start`.
    stop(e) -> 'ok' | 'fail' | None for each element; a path reaching the exit block yields 'exit'.
    Carries non-null facts for correlated-branch pruning.  Returns the set of outcomes with one
    witness element each: {outcome: node}.  With count(e)->key, outcomes are (outcome, counts)."""
    cfg = f.cfg()
    b0, i0 = cfg.where(start)
    results = {}
    seen = set()
    stack = [(b0, i0 + 1, frozenset(feasible_facts or ()), ())]
    while stack:
        b, i, facts, counts = stack.pop()
        blk = cfg.blocks[b]
        outcome = None
        for e in blk.elems[i:]:
            key = assigned_key(f, e)
            if key is not None:
                facts = frozenset(x for x in facts if x[1] != key)
                # t = queue.front(): non-null by INV-QUEUE-NONNULL
                rhs = None
                if e["k"] == "CXXOperatorCallExpr" and e.get("op") == "=" and len(e["c"]) == 3:
                    rhs = strip_casts(e["c"][2])
                if rhs is not None and rhs["k"] == "CXXMemberCallExpr" and (f.decl(rhs) or {}).get("n") == "front":
                    facts = facts | {("nn", key)}
            if count is not None:
                c = count(e)
                if c:
                    counts = counts + (c,)
            r = stop(e)
            if r:
                outcome = (r, e)
                break
        if outcome:
            k = (outcome[0], tuple(sorted(counts))) if count is not None else outcome[0]
            results.setdefault(k, outcome[1])
            continue
        if b == cfg.exit or not [s for s in blk.succs if s is not None]:
            k = ("exit", tuple(sorted(counts))) if count is not None else "exit"
            results.setdefault(k, blk.elems[-1] if blk.elems else start)
            continue
        br = cfg.branch(b)
        for idx, s in enumerate(blk.succs):
            if s is None:
                continue
            nf = facts
            if br is not None:
                cf = cfg.edge_facts(f, b, idx)
                bad = False
                for kind, key in cf:
                    if (("nn" if kind == "null" else "null"), key) in facts:
                        bad = True
                if bad:
                    continue
                nf = facts | frozenset(cf)
            st = (s, 0, nf, counts)
            if st in seen:
                continue
            seen.add(st)
            stack.append(st)
    return results


def run(ctx):
    ctx.clause = ("the lock / condition-variable discipline every interleaving argument about the worker queue rests "
                  "on: pairing, guarded accesses, wait-in-loop, signal-after-mutation (no lost wake-up), "
                  "exactly-once completion, join of all workers")
    ctx.rules = ["R-PAIR", "R-LOCKSET", "R-WAITLOOP", "R-SIGNAL", "R-ONCE", "INV-QUEUE-NONNULL"]
    P = ctx.program(UNITS)
    funcs = [f for f in P.all_funcs() if f.relfile.endswith("abg-workers.cc") and not f.dep and f.cfg() is not None]
    if PRIV not in P.records:
        raise AnalysisBroken("anchor vanished: struct queue::priv")
    fields = {fl["n"] for fl in P.records[PRIV]["fields"]}
    for g in list(GUARDS) + list(set(GUARDS.values())):
        if g not in fields:
            raise AnalysisBroken("anchor vanished: queue::priv::%s" % g)

    u0 = funcs[0].unit
    atomic = {}
    for fl in P.records[PRIV]["fields"]:
        ts = (u0.type(fl.get("t")) or {}).get("s", "")
        if fl["n"] in GUARDS and ("atomic<" in ts or ts.startswith(("std::atomic_", "atomic_"))):
            atomic[fl["n"]] = ts
    flows = {}
    n_lock = n_access = 0
    for f in funcs:
        ctx.analysed(f)
        lf = LockFlow(ctx, f).solve()
        flows[f.u] = lf
        has_sync = any(pcall(f, n) for n in f.nodes())
        # ---- R-PAIR
        if has_sync:
            n_lock += sum(1 for n in f.nodes() if (pcall(f, n) or ("",))[0] in ("lock", "unlock", "wait"))
            for n, msg in lf.problems:
                ctx.ob("R-PAIR", "%s: %s" % (f.n, msg), False, f.loc(n), msg)
            ex = lf.at_exit()
            held = sorted(ex[1]) if ex is not TOP else []
            ctx.ob("R-PAIR", "%s: nothing held at exit" % f.n, not held, f.loc(),
                   "mutexes possibly held when the function returns: %s" % (held or "none"))
            if not lf.problems:
                ctx.ob("R-PAIR", "%s: lock/unlock/wait well paired" % f.n, True, f.loc(), "all paths")
        # ---- R-LOCKSET
        for n in f.nodes():
            if n["k"] != "MemberExpr":
                continue
            d = f.decl(n)
            if d is None or d["k"] != "Field" or d.get("cls") != PRIV or d["n"] not in GUARDS:
                continue
            # skip when the member is only named to take the mutex/cond address (not in GUARDS anyway)
            n_access += 1
            ent = "%s: access to %s" % (f.n, d["n"])
            if f.q in EXEMPT:
                ctx.note("%s exempt from R-LOCKSET: %s" % (f.q, EXEMPT[f.q]))
                continue
            st = lf.before(n)
            if st is TOP:
                continue
            need = GUARDS[d["n"]]
            if d["n"] in atomic and need not in st[0] and not atomic_write(f, n) and not in_wait_predicate(f, n):
                # a std::atomic field may be *read* without the mutex (no data race); what the waiters rely on
                # is that it is written, and re-tested around pthread_cond_wait, under the waited mutex
                ctx.ob("R-LOCKSET", ent + " (atomic read outside a wait predicate)", True, f.loc(n),
                       "`%s` is a %s; a lock-free read is race-free and is not the predicate of a wait" % (
                           expr_str(f, n), atomic[d["n"]]))
                continue
            ctx.ob("R-LOCKSET", ent + " under " + need, need in st[0], f.loc(n),
                   "`%s` is evaluated with must-held set %s" % (expr_str(f, n), sorted(st[0])))
    ctx.floor("R-PAIR", "lock/unlock/wait calls", n_lock, 8)
    ctx.floor("R-LOCKSET", "accesses to guarded fields", n_access, 10)

    # ---- R-WAITLOOP + waiter table
    waiters = []   # (f, wait node, cond var, mutex, [(field, polarity)])
    for f in funcs:
        for n in f.nodes():
            pc = pcall(f, n)
            if not pc or pc[0] != "wait":
                continue
            loop = None
            for a in f.ancestors(n):
                if a["k"] in ("WhileStmt", "DoStmt", "ForStmt"):
                    loop = a
                    break
            cv, mx = pc[1]
            atoms = []
            if loop is not None:
                cond = loop["c"][0] if loop["k"] == "WhileStmt" else (loop["c"][1] if loop["k"] in ("DoStmt", "ForStmt") else None)
                atoms = cond_atoms(f, cond, True)
            ok = loop is not None and bool(atoms) and all(GUARDS.get(fl) == mx for fl, _, _ in atoms)
            ctx.ob("R-WAITLOOP", "%s: wait on %s" % (f.n, cv), ok, f.loc(n),
                   "wait is the body of a loop re-testing %s, all guarded by %s" % (
                       ["%s%s.%s" % ("" if pol else "!", fl, what) for fl, what, pol in atoms], mx) if ok else
                   "pthread_cond_wait is not inside a loop that re-tests a predicate guarded by the waited mutex "
                   "(spurious wake-ups / wrong mutex)")
            waiters.append((f, n, cv, mx, atoms))
    ctx.floor("R-WAITLOOP", "pthread_cond_wait sites", len(waiters), 2)

    # ---- R-SIGNAL
    n_mut = 0
    for f in funcs:
        if f.q in EXEMPT and f.n == "priv":
            continue
        for n in f.nodes():
            eff = mutation_effect(f, n)
            if eff is None:
                continue
            fld, what, val, kind = eff
            for wf, wn, cv, mx, atoms in waiters:
                # the waiter keeps waiting while all atoms hold; an atom (fld, what, pol) is falsified when
                # the mutation sets it to (not pol)
                hit = [a for a in atoms if a[0] == fld and a[1] == what and a[2] != val]
                if not hit:
                    continue
                n_mut += 1
                need_broadcast = (kind == "flag")

                def stop(e, cv=cv, need_broadcast=need_broadcast):
                    pc = pcall(f, e)
                    if not pc:
                        return None
                    if pc[0] in ("signal", "broadcast") and pc[1][0] == cv:
                        if need_broadcast and pc[0] != "broadcast":
                            return "fail"
                        return "ok"
                    if pc[0] == "wait":
                        return "fail"
                    return None
                res = explore(f, n, stop, feasible_facts=front_facts(f, n))
                bad = [k for k in res if k != "ok"]
                ent = "%s: %s -> wake %s waiting on %s" % (f.n, expr_str(f, n), wf.n, cv)
                ctx.ob("R-SIGNAL", ent, not bad, f.loc(n),
                       "every feasible path from the mutation reaches pthread_cond_%s(&%s) before the thread blocks "
                       "or returns" % ("broadcast" if need_broadcast else "signal/broadcast", cv) if not bad else
                       "a path from this mutation reaches %s without waking the thread blocked in %s on %s "
                       "(lost wake-up)%s" % ("/".join(sorted(bad)), wf.n, cv,
                                             "; a flag change needs a broadcast" if need_broadcast else ""))
    ctx.floor("R-SIGNAL", "mutations that can release a waiter", n_mut, 3)

    # ---- INV-QUEUE-NONNULL
    pushes = []
    for f in funcs:
        for n in f.nodes():
            if n["k"] == "CXXMemberCallExpr" and (f.decl(n) or {}).get("n") in ("push", "emplace") and \
                    field_name(f, member_call_object(n)) == "tasks_todo":
                pushes.append((f, n))
    for f, n in pushes:
        nf = NullFlow(f).solve()
        st = nf.before(n)
        arg = call_args(n)[0]
        key = expr_str(f, strip_casts(arg))
        ok = st is not TOP and ("nn", key) in st
        ctx.ob("INV-QUEUE-NONNULL", "%s: tasks_todo.push(%s)" % (f.n, key), ok, f.loc(n),
               "the pushed task is known non-null at the push (facts: %s)" % sorted(st or ()))
    ctx.floor("INV-QUEUE-NONNULL", "writers of tasks_todo", len(pushes), 1)

    # ---- R-ONCE
    worker = P.fn1("abigail::workers::worker::wait_to_execute_a_task")
    lf = flows[worker.u]
    performs = [n for n in worker.nodes() if n["k"] == "CXXMemberCallExpr" and (worker.decl(n) or {}).get("n") == "perform"]
    ctx.floor("R-ONCE", "perform() call sites in the worker loop", len(performs), 1)
    for n in performs:
        st = lf.before(n)
        ctx.ob("R-ONCE", "perform() runs outside any lock", st is not TOP and not st[1], worker.loc(n),
               "may-held set at perform(): %s" % sorted(st[1] if st is not TOP else []))

        def count(e):
            if e["k"] == "CXXMemberCallExpr" and (worker.decl(e) or {}).get("n") == "push_back" and \
                    field_name(worker, member_call_object(e)) == "tasks_done":
                return "done"
            if e["k"] == "CXXOperatorCallExpr" and e.get("op") == "()" and \
                    field_name(worker, call_args(e)[0]) == "notify":
                return "notify"
            return None

        def stop(e):
            pc = pcall(worker, e)
            if pc and pc[0] == "wait":
                return "next-wait"
            if e["k"] == "CXXMemberCallExpr" and (worker.decl(e) or {}).get("n") == "perform":
                return "next-perform"
            return None
        res = explore(worker, n, stop, count=count)
        bad = {k: v for k, v in res.items() if sorted(k[1]) != ["done", "notify"]}
        ctx.ob("R-ONCE", "after perform(): exactly one tasks_done.push_back and one notify", not bad, worker.loc(n),
               "paths after perform(): %s" % sorted((k[0], k[1]) for k in res))
        for e in worker.nodes():
            c = count(e)
            if c:
                s2 = lf.before(e)
                ctx.ob("R-ONCE", "%s happens inside the tasks_done_mutex section" % c,
                       s2 is not TOP and "tasks_done_mutex" in s2[0], worker.loc(e), "must-held: %s" % sorted(s2[0] if s2 is not TOP else []))
    # front()+pop() in one critical section
    fronts = [n for n in worker.nodes() if n["k"] == "CXXMemberCallExpr" and (worker.decl(n) or {}).get("n") == "front"
              and field_name(worker, member_call_object(n)) == "tasks_todo"]
    for n in fronts:
        def stop2(e):
            pc = pcall(worker, e)
            if pc and pc[0] == "unlock" and pc[1][0] == "tasks_todo_mutex":
                return "unlock-before-pop"
            if e["k"] == "CXXMemberCallExpr" and (worker.decl(e) or {}).get("n") == "pop" and \
                    field_name(worker, member_call_object(e)) == "tasks_todo":
                return "ok"
            return None
        res = explore(worker, n, stop2)
        ctx.ob("R-ONCE", "front() and pop() in one critical section", set(res) == {"ok"}, worker.loc(n),
               "outcomes after front(): %s" % sorted(res))
    ctx.floor("R-ONCE", "tasks_todo.front() sites", len(fronts), 1)
    # every created worker is joined
    creates = [(f, n) for f in funcs for n in f.nodes() if (pcall(f, n) or ("",))[0] == "create"]
    joins = [(f, n) for f in funcs for n in f.nodes() if (pcall(f, n) or ("",))[0] == "join"]
    ok = bool(creates) and bool(joins)
    detail = []
    for f, n in creates:
        # the created worker is stored into `workers`
        loop = next((a for a in f.ancestors(n) if a["k"] in ("ForStmt", "WhileStmt")), None)
        stored = loop is not None and any(x["k"] == "CXXMemberCallExpr" and (f.decl(x) or {}).get("n") == "push_back"
                                          and field_name(f, member_call_object(x)) == "workers" for x in walk(loop))
        ok &= stored
        detail.append("create in %s stored into workers: %s" % (f.n, stored))
    for f, n in joins:
        loop = next((a for a in f.ancestors(n) if a["k"] in ("ForStmt", "WhileStmt", "CXXForRangeStmt")), None)
        over = loop is not None and any(field_name(f, x) == "workers" for x in walk(loop["c"][0])) if loop else False
        ok &= bool(over)
        detail.append("join in %s iterates over workers: %s" % (f.n, over))
    ctx.ob("R-ONCE", "every created worker thread is stored and joined", ok,
           creates[0][0].loc(creates[0][1]) if creates else "", "; ".join(detail))
    ctx.assume("termination for all interleavings (liveness of the whole protocol) is not decided; R-SIGNAL and "
               "R-WAITLOOP are its standard structural necessary conditions")


def front_facts(f, node):
    """non-null facts holding before `node`, where `x = queue.front()` makes x non-null
    (justified by INV-QUEUE-NONNULL)."""
    def gen(ff, e):
        if e["k"] == "CXXOperatorCallExpr" and e.get("op") == "=" and len(e["c"]) == 3:
            rhs = strip_casts(e["c"][2])
            if rhs is not None and rhs["k"] == "CXXMemberCallExpr" and (ff.decl(rhs) or {}).get("n") == "front" \
                    and field_name(ff, member_call_object(rhs)) == "tasks_todo":
                key = assigned_key(ff, e)
                return [("nn", key)] if key else None
        return None
    st = NullFlow(f, gen=gen).solve().before(node)
    return frozenset(x for x in (st or ()) if x[0] == "nn")


ATOMIC_WRITERS = ("store", "exchange", "fetch_add", "fetch_sub", "fetch_and", "fetch_or", "fetch_xor",
                  "compare_exchange_weak", "compare_exchange_strong")


def atomic_write(f, n):
    """is the MemberExpr n (a std::atomic field) the target of a write?"""
    p = f.parent(n)
    while p is not None and p["k"] in ("ImplicitCastExpr", "ParenExpr"):
        n, p = p, f.parent(p)
    if p is None:
        return False
    if p["k"] == "CXXOperatorCallExpr" and p.get("op") in ("=", "|=", "&=", "^=", "+=", "-=", "++", "--"):
        a = call_args(p)
        return bool(a) and strip_casts(a[0]) is strip_casts(n)
    if p["k"] == "MemberExpr":
        pp = f.parent(p)
        if pp is not None and pp["k"] == "CXXMemberCallExpr" and (f.decl(pp) or {}).get("n") in ATOMIC_WRITERS:
            return True
    if p["k"] == "UnaryOperator" and p.get("op") == "&":
        return True     # address escapes: treated as a write
    return False


def in_wait_predicate(f, n):
    """is n inside the condition of a loop whose body waits on a condition variable?"""
    prev = n
    for a in f.ancestors(n):
        if a["k"] in ("WhileStmt", "DoStmt", "ForStmt"):
            cond = a["c"][0] if a["k"] == "WhileStmt" else a["c"][1]
            if cond is not None and any(x is n for x in walk(cond)) and \
                    any((pcall(f, x) or ("",))[0] == "wait" for x in walk(a)):
                return True
    return False


def cond_atoms(f, cond, truth):
    """[(field, 'empty'|'value', polarity)]: atoms that must hold for the loop condition to be `truth`
    (conjunction only; a disjunction yields no atoms)."""
    n = strip_casts(cond)
    if n is None:
        return []
    if n["k"] == "UnaryOperator" and n.get("op") == "!":
        return cond_atoms(f, n["c"][0], not truth)
    if n["k"] == "BinaryOperator" and n.get("op") == "&&" and truth:
        return cond_atoms(f, n["c"][0], True) + cond_atoms(f, n["c"][1], True)
    if n["k"] == "BinaryOperator" and n.get("op") == "||" and not truth:
        return cond_atoms(f, n["c"][0], False) + cond_atoms(f, n["c"][1], False)
    if n["k"] == "CXXMemberCallExpr" and (f.decl(n) or {}).get("n") == "empty":
        fl = field_name(f, member_call_object(n))
        if fl:
            return [(fl, "empty", truth)]
    fl = field_name(f, n)
    if fl:
        return [(fl, "value", truth)]
    return []


def mutation_effect(f, n):
    """(field, 'empty'|'value', new truth value, 'item'|'flag') for mutations of guarded state"""
    if n["k"] == "CXXMemberCallExpr":
        d = f.decl(n)
        fl = field_name(f, member_call_object(n))
        if d is None or fl not in GUARDS:
            return None
        if d["n"] in ("push", "push_back", "emplace", "emplace_back"):
            return (fl, "empty", False, "item")
        if d["n"] in ("pop", "pop_back", "pop_front", "clear", "erase"):
            return (fl, "empty", True, "item")
        return None
    if n["k"] == "CXXMemberCallExpr" and (f.decl(n) or {}).get("n") == "store" and call_args(n):
        fl = field_name(f, member_call_object(n))
        if fl in GUARDS:
            r = strip_casts(call_args(n)[0])
            if r is not None and r["k"] == "CXXBoolLiteralExpr":
                return (fl, "value", bool(r.get("v")), "flag")
            return (fl, "value", None, "flag")
    if (n["k"] == "BinaryOperator" and n.get("op") == "=") or \
            (n["k"] == "CXXOperatorCallExpr" and n.get("op") == "=" and len(call_args(n)) == 2):
        lhs, rhs = (n["c"][0], n["c"][1]) if n["k"] == "BinaryOperator" else call_args(n)
        fl = field_name(f, lhs)
        if fl in GUARDS:
            r = strip_casts(rhs)
            if r is not None and r["k"] == "CXXBoolLiteralExpr":
                return (fl, "value", bool(r.get("v")), "flag")
            return (fl, "value", None, "flag")
    return None
