"""C17 - every exported symbol is accounted for exactly once (gates and set-complement discipline, not the DWARF).

Which declaration the DWARF reader attaches to which symbol is a runtime association.  What is structural is the chain
that turns the association into the two lists of the statement (the interface, and the symbols not referenced by debug
info), and each link is a necessary condition:

R-EXPGATE   a declaration enters the corpus' exported functions / variables only through
            exported_decls_builder::maybe_add_{fn,var}_to_exported_*, and there only if it is in the public symbol
            table: in the world where get_is_in_public_symbol_table() is false, add_{fn,var}_to_exported is
            unreachable; nothing else calls add_*_to_exported or pushes into the builder's fns_ / vars_.
R-PUBSYM    a declaration is marked "in the public symbol table" only when a symbol is attached to it: every
            set_is_in_public_symbol_table(true) is reached with <receiver>->get_symbol() known non-null (a dominating
            set_symbol(<non-null>) on the same receiver, or a dominating test).
R-EXPORTEDPRED the symbol the DWARF reader attaches comes from {function,variable}_symbol_is_exported, which hand back a
            symbol only if it is public and of the right kind (world interpretation: nil in every other world).
R-OWNSYMKEY the id -> declarations maps of exported_decls_builder::priv (id_fns_map / id_var_map) answer "which
            declarations are attached to the symbol of this id" - the DWARF reader asks them
            (symbol_already_belongs_to_a_function) before attaching a symbol.  A declaration is therefore registered
            only under ids of its own (its id, its own symbol's id): no key of an insertion derives from
            get_next_alias().  Registering it under the ids of the *other* symbols of the alias ring makes every
            symbol that shares an address with an attached one look taken: folded functions that have debug info of
            their own lose their declaration and their symbols are listed as unreferenced.
R-UNREF     corpus::priv::get_unreferenced_{function,variable}_symbols compute the complement: the referenced set is
            fed from every exported declaration's symbol *and all its aliases*, under the same key (accessor) that the
            lookup uses; the symtab is walked with the same filter as the symbol table of the corpus (C18's
            R-SYMFILTER state); a symbol is pushed only on the not-found edge of the lookup.
"""
from engine.cfg import strip_casts, NullFlow, ptr_key, kill, forward, state_before, TOP
from engine.facts import walk, call_args, member_call_object, expr_str
from engine.compdb import AnalysisBroken
from rules.world import World, ANY, truth
from rules import C18 as sym

UNITS = ["src/abg-corpus.cc", "src/abg-dwarf-reader.cc", "src/abg-reader.cc", "src/abg-symtab-reader.cc", "src/abg-ir.cc"]


def run(ctx):
    ctx.clause = ("a declaration is exposed in the interface only with a public symbol attached, and the list of symbols "
                  "not referenced by debug info is the complement, over the corpus' own symbol-table filter, of the symbols "
                  "(and aliases) of the exposed declarations")
    ctx.rules = ["R-EXPGATE", "R-PUBSYM", "R-EXPORTEDPRED", "R-UNREF", "R-OWNSYMKEY", "R-ADDRTOTAL"]
    P = ctx.program(UNITS)
    check_expgate(ctx, P)
    check_pubsym(ctx, P)
    check_exportedpred(ctx, P)
    check_unref(ctx, P)
    check_ownsymkey(ctx, P)
    check_addrtotal(ctx, P)
    ctx.assume("which declaration the DWARF (or ABIXML) describes for which address is a runtime association and is not "
               "decided; src/abg-ctf-reader.cc is not part of this build and is not analysed")


# ------------------------------------------------------------------------------------------------ R-EXPGATE
def check_addrtotal(ctx, P):
    """R-ADDRTOTAL: a declaration gets its symbol through its address (read_context::get_{function,variable}_address, then
    the address -> symbol maps of the symtab).  The two getters translate what the DIE says; they must not *judge* the
    value: in the world where the DIE yields an address (die_location_address / die_address_attribute /
    get_first_exported_fn_address_from_DW_AT_ranges answer true) every path returns true.  An address that looks odd - 0 is
    the offset of the first thread-local variable, and the address of the first variable of a relocatable file - still
    designates a symbol; rejecting it drops the declaration of an exported variable, whose symbol is then listed as not
    referenced by debug info."""
    SOURCES = ("die_location_address", "die_address_attribute", "get_first_exported_fn_address_from_DW_AT_ranges")
    n = 0
    for name in ("get_variable_address", "get_function_address"):
        fs = [f for f in P.all_funcs() if f.n == name and (f.cls or "").endswith("dwarf_reader::read_context") and not f.dep and f.cfg() is not None]
        if len(fs) != 1:
            raise AnalysisBroken("anchor vanished: dwarf_reader::read_context::%s" % name)
        f = fs[0]
        ctx.analysed(f)
        srcs = [x for x in f.nodes() if x["k"] in ("CallExpr", "CXXMemberCallExpr") and (f.decl(x) or {}).get("n") in SOURCES]
        if not srcs:
            raise AnalysisBroken("anchor vanished: %s no longer reads the address from the DIE" % name)

        def atom(e, f=f):
            if e["k"] in ("CallExpr", "CXXMemberCallExpr") and (f.decl(e) or {}).get("n") in SOURCES:
                return [True]
            return None
        track = {x.get("d") for x in f.nodes() if x["k"] == "VarDecl" and (f.type(x) or {}).get("c", "").replace("const ", "") in ("bool", "_Bool")}
        rets = World(f, atom).run_env(track)
        vals = set()
        for v in rets:
            vals |= {True, False} if v == ANY else {bool(v)}
        n += 1
        ctx.ob("R-ADDRTOTAL", "read_context::%s hands on every address the DIE yields" % name, vals == {True}, f.loc(),
               "in the world where %s succeed(s), every path returns true" % "/".join(sorted({(f.decl(x) or {}).get("n") for x in srcs})) if vals == {True} else
               "although the DIE yields an address, a path returns false: the getter rejects an address because of its value, the "
               "declaration gets no symbol and the exported symbol is reported as not referenced by debug info")
    ctx.floor("R-ADDRTOTAL", "address getters of the DWARF reader", n, 2)


def check_expgate(ctx, P):
    n = 0
    adders = {"add_fn_to_exported": "fns_", "add_var_to_exported": "vars_"}
    gates = {"add_fn_to_exported": "abigail::ir::corpus::exported_decls_builder::maybe_add_fn_to_exported_fns",
             "add_var_to_exported": "abigail::ir::corpus::exported_decls_builder::maybe_add_var_to_exported_vars"}
    for adder, gq in sorted(gates.items()):
        g = sym.fn1(P, gq)
        ctx.analysed(g)

        def atom(e):
            if e["k"] == "CXXMemberCallExpr" and (g.decl(e) or {}).get("n") == "get_is_in_public_symbol_table":
                return [False]
            return None
        W = World(g, atom)
        reached = [x for e in W.elems() for x in walk(e) if x["k"] == "CXXMemberCallExpr" and (g.decl(x) or {}).get("n") == adder]
        has = any(x["k"] == "CXXMemberCallExpr" and (g.decl(x) or {}).get("n") == adder for x in g.nodes())
        if not has:
            raise AnalysisBroken("anchor vanished: %s no longer calls %s" % (g.n, adder))
        n += 1
        ctx.ob("R-EXPGATE", "%s: nothing is exported that is not in the public symbol table" % g.n, not reached, g.loc(),
               "%s() is unreachable when get_is_in_public_symbol_table() is false" % adder if not reached else
               "%s() is reached although get_is_in_public_symbol_table() is false: a declaration without an exported symbol "
               "enters the interface" % adder)
    # who may call the adders / write the vectors
    for f in P.all_funcs():
        if f.dep or not f.q.startswith("abigail::"):
            continue
        for x in f.nodes():
            if x["k"] == "CXXMemberCallExpr":
                nm = (f.decl(x) or {}).get("n")
                if nm in adders and f.q not in gates.values():
                    n += 1
                    ctx.ob("R-EXPGATE", "%s is called only by its gate" % nm, False, f.loc(x),
                           "%s calls %s() directly, around the public-symbol-table gate" % (f.q, nm))
                if nm in ("push_back", "emplace_back", "insert"):
                    o = strip_casts(member_call_object(x))
                    if o is not None and o["k"] == "MemberExpr" and (f.decl(o) or {}).get("n") in adders.values() and \
                            "exported_decls_builder" in ((f.decl(o) or {}).get("q") or f.q):
                        ok = f.n in adders and adders[f.n] == (f.decl(o) or {}).get("n")
                        n += 1
                        ctx.ob("R-EXPGATE", "exported_decls_builder::priv::%s is filled only by %s" % (
                            (f.decl(o) or {}).get("n"), [k for k, v in adders.items() if v == (f.decl(o) or {}).get("n")][0]),
                            ok, f.loc(x), "in %s" % f.n if ok else "%s pushes into the vector directly" % f.q)
    ctx.floor("R-EXPGATE", "gates and writers", n, 4)


# ------------------------------------------------------------------------------------------------ R-PUBSYM
def check_pubsym(ctx, P):
    n = 0
    for f in P.all_funcs():
        if f.dep or f.cfg() is None or not f.q.startswith("abigail::"):
            continue
        sites = [x for x in f.nodes() if x["k"] == "CXXMemberCallExpr" and
                 (f.decl(x) or {}).get("n") == "set_is_in_public_symbol_table"]
        if not sites:
            continue
        nf = NullFlow(f)

        def transfer(st, e, blk, nf=nf, f=f):
            st = nf.transfer(st, e, blk)
            if e["k"] == "CXXMemberCallExpr" and (f.decl(e) or {}).get("n") == "set_symbol" and call_args(e):
                key = expr_str(f, member_call_object(e)) + "->get_symbol()"
                ak = ptr_key(f, call_args(e)[0])
                nonnull = ak is not None and ("nn", ak) in st
                st = kill(st, key)
                if nonnull:
                    st = st | frozenset([("nn", key)])
            return st
        ins, _ = forward(f.cfg(), frozenset(), transfer, nf.edge)
        for s in sites:
            a = strip_casts(call_args(s)[0]) if call_args(s) else None
            if a is not None and a.get("v") == 0 and a["k"] in ("CXXBoolLiteralExpr", "CXXDefaultArgExpr"):
                continue                                   # un-marking needs no symbol
            ctx.analysed(f)
            n += 1
            recv = expr_str(f, member_call_object(s))
            st = state_before(f.cfg(), ins, transfer, s)
            ok = st is not TOP and ("nn", recv + "->get_symbol()") in st
            k = sum(1 for t in sites if f.loc(t) <= f.loc(s) and expr_str(f, member_call_object(t)) == recv)
            ctx.ob("R-PUBSYM", "%s: %s is marked public only with a symbol attached%s" % (f.n, recv, "" if k <= 1 else " #%d" % k),
                   ok, f.loc(s), "%s->get_symbol() is non-null there" % recv if ok else
                   "on some path %s->set_is_in_public_symbol_table(true) is reached without a symbol attached to %s: the "
                   "declaration is exposed in the interface with no symbol" % (recv, recv))
    ctx.floor("R-PUBSYM", "set_is_in_public_symbol_table(true) sites", n, 5)


# ------------------------------------------------------------------------------------------------ R-EXPORTEDPRED
def check_exportedpred(ctx, P):
    n = 0
    for q, kind in (("function_symbol_is_exported", "is_function"), ("variable_symbol_is_exported", "is_variable")):
        f = sym.fn1(P, "abigail::dwarf_reader::read_context::" + q)
        ctx.analysed(f)
        locs = {x.get("d") for x in f.nodes() if x["k"] == "VarDecl" and x.get("c") and x["c"][0] is not None and
                any(y["k"] == "CXXMemberCallExpr" and (f.decl(y) or {}).get("n") == "lookup_symbol" for y in walk(x["c"][0]))}
        if not locs:
            raise AnalysisBroken("anchor vanished: %s no longer starts from symtab()->lookup_symbol()" % q)
        # locals that are default-constructed (nil) and never written afterwards
        nil_locals = set()
        for x in f.nodes():
            if x["k"] == "VarDecl" and x.get("c") and x["c"][0] is not None and x["c"][0]["k"] == "CXXConstructExpr" and \
                    not [a for a in x["c"][0].get("c", []) if a is not None] and "shared_ptr" in ((f.decl(x["c"][0]) or {}).get("n") or ""):
                d = x.get("d")
                written = False
                for y in f.nodes():
                    if y["k"] in ("CXXOperatorCallExpr", "BinaryOperator") and y.get("op") == "=":
                        l = strip_casts((call_args(y) if y["k"] == "CXXOperatorCallExpr" else y["c"])[0])
                        if l is not None and l["k"] == "DeclRefExpr" and l.get("d") == d:
                            written = True
                    if y["k"] == "CXXMemberCallExpr" and (f.decl(y) or {}).get("n") in ("reset", "swap"):
                        o = strip_casts(member_call_object(y))
                        if o is not None and o["k"] == "DeclRefExpr" and o.get("d") == d:
                            written = True
                    if y["k"] in ("CallExpr", "CXXMemberCallExpr") and any(
                            z["k"] == "DeclRefExpr" and z.get("d") == d for a in call_args(y) if a is not None for z in walk(a)):
                        written = True
                if not written:
                    nil_locals.add(d)
        for w in ({kind: False, "is_public": True}, {kind: True, "is_public": False}, {kind: False, "is_public": False},
                  {kind: True, "is_public": True}):
            def atom(e, w=w):
                k = e["k"]
                if k == "CXXMemberCallExpr":
                    nm = (f.decl(e) or {}).get("n")
                    if nm in w:
                        return [w[nm]]
                    if nm and nm.startswith("operator bool"):
                        o = strip_casts(member_call_object(e))
                        if o is not None and o["k"] == "DeclRefExpr" and o.get("d") in locs:
                            return [True]
                    return [ANY]
                if k == "DeclRefExpr" and e.get("d") in locs:
                    return ["SYM"]
                if k == "DeclRefExpr" and e.get("d") in nil_locals:
                    return [None]
                if k in ("CXXTemporaryObjectExpr", "CXXConstructExpr"):
                    args = [x for x in e.get("c", []) if x is not None]
                    if not args:
                        return [None]
                    if len(args) == 1:
                        return None
                return None
            W = World(f, atom)
            rets = set()
            seen, _ = W.blocks()
            cfg = f.cfg()
            for b in seen:
                for e in cfg.blocks[b].elems:
                    if e["k"] == "ReturnStmt" and e.get("c") and e["c"][0] is not None:
                        r = e["c"][0]
                        while r is not None and r["k"] in ("ExprWithCleanups", "CXXConstructExpr", "MaterializeTemporaryExpr",
                                                           "CXXBindTemporaryExpr", "ImplicitCastExpr") and \
                                len([x for x in r.get("c", []) if x is not None]) == 1:
                            r = [x for x in r["c"] if x is not None][0]
                        rets |= set(W.ev(r))
            n += 1
            good = w[kind] and w["is_public"]
            ok = ("SYM" in rets) if good else rets <= {None}
            ctx.ob("R-EXPORTEDPRED", "%s: %s=%s, is_public=%s -> %s" % (q, kind, str(w[kind]).lower(), str(w["is_public"]).lower(),
                                                                       "the symbol" if good else "nil"), ok, f.loc(),
                   "returns %s" % sorted(str(x) for x in rets) if ok else
                   "returns %s: %s" % (sorted(str(x) for x in rets), "a declaration gets a symbol that is not a public %s symbol" % (
                       "function" if kind == "is_function" else "variable") if not good else "no declaration can get its symbol"))
    ctx.floor("R-EXPORTEDPRED", "(predicate, world) pairs", n, 8)


# ------------------------------------------------------------------------------------------------ R-UNREF
def key_accessor(f, e, locals_init):
    """name of the accessor whose result is used as the key expression e (through a local copy)"""
    e = strip_casts(e)
    seen = 0
    while e is not None and seen < 6:
        seen += 1
        if e["k"] in ("CXXConstructExpr", "MaterializeTemporaryExpr", "CXXBindTemporaryExpr", "ExprWithCleanups", "ImplicitCastExpr") and e.get("c"):
            e = strip_casts([x for x in e["c"] if x is not None][0])
            continue
        if e["k"] == "DeclRefExpr" and e.get("d") in locals_init:
            e = strip_casts(locals_init[e["d"]])
            continue
        break
    if e is not None and e["k"] == "CXXMemberCallExpr":
        o = member_call_object(e)
        root = [y for y in walk(o) if y["k"] == "DeclRefExpr" and (f.decl(y) or {}).get("n", "").startswith("operator") is False]
        return (f.decl(e) or {}).get("n"), (root[-1].get("d") if root else None)
    return None, None


def check_unref(ctx, P):
    n = 0
    for q, vec, table in (("get_unreferenced_function_symbols", "fns", "get_sorted_fun_symbols"),
                          ("get_unreferenced_variable_symbols", "vars", "get_sorted_var_symbols")):
        f = sym.fn1(P, "abigail::ir::corpus::priv::" + q)
        ctx.analysed(f)
        linit = {x.get("d"): x["c"][0] for x in f.nodes() if x["k"] == "VarDecl" and x.get("c") and x["c"][0] is not None}
        # the referenced set: a local associative container
        maps = {x.get("d") for x in f.nodes() if x["k"] == "VarDecl" and "map" in ((f.decl(x["c"][0]) or {}).get("n", "") if x.get("c") and x["c"][0] is not None else "")
                or (x["k"] == "VarDecl" and x.get("c") and x["c"][0] is not None and (f.decl(x["c"][0]) or {}).get("n") in ("unordered_set", "set"))}
        inserts, lookups = [], []
        for x in f.nodes():
            if x["k"] == "CXXOperatorCallExpr" and x.get("op") == "[]":
                a = call_args(x)
                o = strip_casts(a[0])
                if o is not None and o["k"] == "DeclRefExpr" and o.get("d") in maps:
                    inserts.append((x, a[1]))
            if x["k"] == "CXXMemberCallExpr" and (f.decl(x) or {}).get("n") in ("insert", "emplace"):
                o = strip_casts(member_call_object(x))
                if o is not None and o["k"] == "DeclRefExpr" and o.get("d") in maps and call_args(x):
                    inserts.append((x, call_args(x)[0]))
            if x["k"] == "CXXMemberCallExpr" and (f.decl(x) or {}).get("n") in ("find", "count"):
                o = strip_casts(member_call_object(x))
                if o is not None and o["k"] == "DeclRefExpr" and o.get("d") in maps and call_args(x):
                    lookups.append((x, call_args(x)[0]))
        if not inserts or not lookups:
            raise AnalysisBroken("anchor vanished: %s no longer builds a referenced-symbols set and looks symbols up in it" % q)
        # (e) fed from the exported vector of the corpus
        loops = [x for x in f.nodes() if x["k"] == "CXXForRangeStmt" and x.get("c") and x["c"][0] is not None and
                 strip_casts(x["c"][0]) is not None and strip_casts(x["c"][0])["k"] == "MemberExpr" and
                 (f.decl(strip_casts(x["c"][0])) or {}).get("n") == vec]
        fed = [i for i, _ in inserts if any(any(y is i for y in walk(l)) for l in loops)]
        n += 1
        ctx.ob("R-UNREF", "%s: the referenced set is fed from every element of corpus::priv::%s" % (q, vec), bool(loops) and len(fed) == len(inserts),
               f.loc(loops[0]) if loops else f.loc(),
               "%d insertion(s) inside `for (.. : %s)`" % (len(fed), vec) if loops and len(fed) == len(inserts) else
               "the set of referenced symbols is not (only) built from the exported declarations `%s`" % vec)
        # (a) one key accessor for insertions and lookups
        kins = {key_accessor(f, k, linit)[0] for _, k in inserts}
        klook = {key_accessor(f, k, linit)[0] for _, k in lookups}
        n += 1
        ok = len(kins) == 1 and kins == klook and None not in kins
        ctx.ob("R-UNREF", "%s: insertions and lookups use the same key" % q, ok, f.loc(lookups[0][0]),
               "%s() on both sides" % next(iter(kins)) if ok else
               "the referenced set is filled with %s and queried with %s: a symbol can be both attached to a declaration and "
               "listed as unreferenced (or neither)" % (sorted(str(k) for k in kins), sorted(str(k) for k in klook)))
        # (b) alias closure: an insertion keyed by a variable that walks get_next_alias()
        alias_vars = set()
        for x in f.nodes():
            if x["k"] == "VarDecl" and x.get("c") and x["c"][0] is not None and \
                    any(y["k"] == "CXXMemberCallExpr" and (f.decl(y) or {}).get("n") == "get_next_alias" for y in walk(x["c"][0])):
                alias_vars.add(x.get("d"))
        closed = False
        for i, k in inserts:
            if any(y["k"] == "DeclRefExpr" and y.get("d") in alias_vars for y in walk(k)):
                # the walking variable advances with get_next_alias inside an enclosing loop
                for a in f.ancestors(i):
                    if a["k"] in ("ForStmt", "WhileStmt", "DoStmt") and any(
                            y["k"] == "CXXMemberCallExpr" and (f.decl(y) or {}).get("n") == "get_next_alias" for c in a.get("c", [])[1:] if c is not None for y in walk(c)):
                        closed = True
        n += 1
        ctx.ob("R-UNREF", "%s: the aliases of an attached symbol count as referenced" % q, closed, f.loc(inserts[0][0]),
               "insertion inside a get_next_alias() walk" if closed else
               "only the symbol itself is recorded as referenced: the aliases of the symbol of an exported declaration are "
               "reported as not referenced by debug info although the declaration accounts for them")
        # (c) same filter as the symbol table
        tf = sym.fn1(P, "abigail::ir::corpus::priv::" + table)
        mk = sym.fn1(P, "abigail::symtab_reader::symtab::make_filter")

        def state_of(g):
            fv = [x.get("d") for x in g.nodes() if x["k"] == "VarDecl" and x.get("c") and x["c"][0] is not None and
                  any(y["k"] == "CXXMemberCallExpr" and (g.decl(y) or {}).get("n") == "make_filter" for y in walk(x["c"][0]))]
            if len(fv) != 1:
                raise AnalysisBroken("anchor vanished: %s no longer starts from symtab::make_filter()" % g.n)
            st = {}
            for m, val, cond in sym.filter_calls(P, mk) + sym.filter_calls(P, g, fv[0]):
                if not cond:
                    st[m] = val
            used = any(y["k"] == "DeclRefExpr" and y.get("d") == fv[0] for x in g.nodes()
                       if x["k"] in ("CXXTemporaryObjectExpr", "CXXConstructExpr", "CXXMemberCallExpr") and
                       (g.decl(x) or {}).get("n") in ("filtered_symtab", "begin") for a in (call_args(x) or x.get("c", [])) if a is not None for y in walk(a))
            return st, used
        s1, used1 = state_of(f)
        s2, _ = state_of(tf)
        n += 1
        ok = s1 == s2 and used1
        ctx.ob("R-UNREF", "%s walks the symtab with the filter of %s" % (q, table), ok, f.loc(),
               "filter %s" % ", ".join("%s=%s" % kv for kv in sorted(s1.items())) if ok else
               "filter %s here, %s for the symbol table%s: symbols of the table are never considered, or symbols outside it are listed" % (
                   s1, s2, "" if used1 else " (and the configured filter is not the one iterated with)"))
        # (d) pushed only when not found
        pushes = [x for x in f.nodes() if x["k"] == "CXXMemberCallExpr" and (f.decl(x) or {}).get("n") in ("push_back", "emplace_back") and
                  any(y["k"] == "MemberExpr" and (f.decl(y) or {}).get("n", "").startswith("unrefed_") for y in walk(member_call_object(x)))]
        if not pushes:
            raise AnalysisBroken("anchor vanished: %s no longer pushes into its unrefed_* vector" % q)

        def atom(e):
            # in this world every lookup finds the symbol
            if e["k"] == "CXXOperatorCallExpr" and e.get("op") in ("==", "!="):
                a = call_args(e)
                names = [(f.decl(strip_casts(x)) or {}).get("n") if strip_casts(x) is not None and strip_casts(x)["k"] == "CXXMemberCallExpr" else None for x in a]
                if "find" in names and "end" in names:
                    return [e["op"] == "!="]
            if e["k"] == "CXXMemberCallExpr" and (f.decl(e) or {}).get("n") == "count":
                o = strip_casts(member_call_object(e))
                if o is not None and o["k"] == "DeclRefExpr" and o.get("d") in maps:
                    return [1]
            return None
        W = World(f, atom)
        reached = {x["i"] for e in W.elems() for x in walk(e)}
        bad = [p for p in pushes if p["i"] in reached]
        n += 1
        ctx.ob("R-UNREF", "%s lists a symbol only if no exported declaration refers to it" % q, not bad, f.loc(pushes[0]),
               "push_back unreachable when the lookup finds the symbol" if not bad else
               "a symbol found in the referenced set is still pushed: it is attached to a declaration and listed as unreferenced")
    ctx.floor("R-UNREF", "obligations over the two complement functions", n, 10)



# ------------------------------------------------------------------------------------------------ R-OWNSYMKEY
def check_ownsymkey(ctx, P):
    MAPS = ("id_fns_map", "id_fns_map_", "id_var_map", "id_var_map_")
    n = 0
    for f in sorted(P.all_funcs(), key=lambda x: (x.file, x.l0)):
        if f.dep or f.cfg() is None or "exported_decls_builder" not in f.q:
            continue

        def is_map(e):
            e = strip_casts(e)
            return e is not None and e["k"] in ("CXXMemberCallExpr", "MemberExpr") and (f.decl(e) or {}).get("n") in MAPS
        keys = []
        for x in f.nodes():
            if x["k"] == "CXXOperatorCallExpr" and x.get("op") == "[]" and is_map(call_args(x)[0]):
                # only insertions: the subscript is the target of an assignment
                p = f.parent(x)
                while p is not None and p["k"] in ("ImplicitCastExpr", "ParenExpr", "MaterializeTemporaryExpr"):
                    p = f.parent(p)
                if p is not None and p["k"] in ("CXXOperatorCallExpr", "BinaryOperator") and p.get("op") == "=":
                    keys.append((x, call_args(x)[1]))
            if x["k"] == "CXXMemberCallExpr" and (f.decl(x) or {}).get("n") in ("insert", "emplace") and is_map(member_call_object(x)) and call_args(x):
                keys.append((x, call_args(x)[0]))
        if not keys:
            continue
        ctx.analysed(f)
        # flow-insensitive: every expression ever assigned to a local
        srcs = {}
        for x in f.nodes():
            if x["k"] == "VarDecl" and x.get("c") and x["c"][0] is not None:
                srcs.setdefault(x.get("d"), []).append(x["c"][0])
            if x["k"] in ("CXXOperatorCallExpr", "BinaryOperator") and x.get("op") == "=":
                a = call_args(x) if x["k"] == "CXXOperatorCallExpr" else x["c"]
                l = strip_casts(a[0])
                if l is not None and l["k"] == "DeclRefExpr":
                    srcs.setdefault(l.get("d"), []).append(a[1])

        def from_alias(e, seen):
            for y in walk(e):
                if y["k"] == "CXXMemberCallExpr" and (f.decl(y) or {}).get("n") == "get_next_alias":
                    return True
                if y["k"] == "DeclRefExpr" and y.get("d") in srcs and y.get("d") not in seen:
                    seen.add(y.get("d"))
                    if any(from_alias(s_, seen) for s_ in srcs[y["d"]]):
                        return True
            return False
        for i, (x, k) in enumerate(keys):
            n += 1
            bad = from_alias(k, set())
            from rules.null_rules import short
            ctx.ob("R-OWNSYMKEY", "%s: insertion #%d is keyed by an id of the declaration itself" % (short(f), i + 1), not bad, f.loc(x),
                   "key `%s`" % expr_str(f, k)[:40] if not bad else
                   "the key `%s` can hold the id of another symbol of the alias ring (it derives from get_next_alias()): every symbol "
                   "that shares an address with an attached one then counts as already attached" % expr_str(f, k)[:40])
    ctx.floor("R-OWNSYMKEY", "insertions into the id -> declarations maps", n, 2)
