"""R-RXPRES / R-RXVALID: an uncompilable pattern must not make its constraint vanish.

Positive regex getters (suppression *::priv::get_X_regex) return null both when the pattern
string is empty (constraint absent) and when it does not compile, and the matching functions
take null for "absent".  The property therefore rests on a gate: no suppression whose pattern
does not compile ever reaches the matching functions.

R-RXVALID (gate) obligations
 G1  in read_suppressions(const ini::config&, ..) every call of a read_*_suppression reader is
     dominated by the true edge of the section validator;
 G2  the validator returns false when regex::compile of a property value yields null, for every
     simple property whose name ends with the validator's suffix literal, and returns true only
     after the loop over all properties;
 G3  vocabulary: every property name looked up by the readers that carries a regular expression
     ends with that suffix (so the validator sees it);
 G4  the '/regex/ form of a parameter specification is compiled before it is accepted, and a
     "parameter" property that yields no specification rejects the whole suppression.
R-RXPRES (use sites) is reported per (matching function, getter) only when the gate is missing:
 with the gate in place the use-site shape "null => absent" is sound.
"""
import re

from engine.cfg import forward, state_before, TOP, strip_casts, ptr_key, cond_facts, NullFlow
from engine.facts import walk, call_args, member_call_object, expr_str
from engine.compdb import AnalysisBroken
from rules.null_rules import short

READERS = ("read_type_suppression", "read_function_suppression", "read_variable_suppression",
           "read_file_suppression")


def positive_getters(P):
    out = {}
    for f in P.all_funcs():
        if f.dep or not f.cls or not f.cls.endswith("::priv") or "suppr" not in f.q:
            continue
        if not (f.n.startswith("get_") and f.n.endswith("_regex")):
            continue
        sfield = None
        for n in f.nodes():
            if n["k"] == "CallExpr" and (f.decl(n) or {}).get("q") == "abigail::regex::compile":
                a = strip_casts(call_args(n)[0])
                if a is not None and a["k"] == "MemberExpr":
                    sfield = f.decl(a)["n"]
        if sfield:
            out[f.u] = (f, sfield)
    return out


def validator_shape(f):
    """(suffix literal, ok, why) for a candidate validator function"""
    compiles = [n for n in f.nodes() if n["k"] == "CallExpr" and (f.decl(n) or {}).get("q") == "abigail::regex::compile"]
    if not compiles:
        return None, False, "does not call regex::compile"
    lits = [n.get("s") for n in f.nodes() if n["k"] == "StringLiteral"]
    suffix = next((s for s in lits if s and s.startswith("_")), None)
    # a `return false` controlled by the compile result being null
    ok_false = False
    for n in f.nodes():
        if n["k"] == "IfStmt":
            cond = n["c"][0]
            then = n["c"][1]
            has_compile = any(x["i"] == c["i"] for c in compiles for x in walk(cond))
            if not has_compile:
                continue
            # the compile call must appear negated as a conjunct:  ... && !regex::compile(v)
            neg = False
            def conj(e, pos=True):
                e = strip_casts(e)
                if e is None:
                    return []
                if e["k"] == "BinaryOperator" and e.get("op") == "&&" and pos:
                    return conj(e["c"][0]) + conj(e["c"][1])
                return [e]
            for a in conj(cond):
                if a["k"] in ("UnaryOperator", "CXXOperatorCallExpr") and a.get("op") == "!":
                    inner = a["c"][-1]
                    if any(x["i"] == c["i"] for c in compiles for x in walk(inner)):
                        neg = True
            rets = [x for x in walk(then) if x["k"] == "ReturnStmt"]
            if neg and rets and all(strip_casts(r["c"][0]).get("v") == 0 for r in rets if r.get("c")):
                ok_false = True
    # iterates over the section's properties
    loops = [n for n in f.nodes() if n["k"] in ("ForStmt", "CXXForRangeStmt")]
    iter_props = any((f.decl(x) or {}).get("n") == "get_properties" for l in loops for x in walk(l) if x["k"] == "CXXMemberCallExpr")
    # the value compiled is the property's value
    from_value = any((f.decl(x) or {}).get("n") == "get_value" for c in compiles for x in walk(c) if x["k"] == "CXXMemberCallExpr")
    # table form: the validator walks an explicit array of property names and looks each one up
    table = None
    finds = [n for n in f.nodes() if n["k"] == "CXXMemberCallExpr" and (f.decl(n) or {}).get("n") == "find_property"]
    if not iter_props and finds and loops:
        names = set()
        for n in f.nodes():
            if n["k"] == "VarDecl" and n.get("c") and n["c"][0] is not None and \
                    strip_casts(n["c"][0])["k"] == "InitListExpr":
                names |= {x["s"] for x in walk(n["c"][0]) if x["k"] == "StringLiteral" and x.get("s")}
        if names:
            table = names
    if table is not None:
        ok = ok_false and from_value
        why = "return-false-on-null-compile=%s, looks up each of %d listed property names, compiles get_value()=%s" % (
            ok_false, len(table), from_value)
        return table, ok, why
    ok = ok_false and iter_props and from_value and bool(suffix)
    why = "return-false-on-null-compile=%s, iterates get_properties()=%s, compiles get_value()=%s, suffix=%r" % (
        ok_false, iter_props, from_value, suffix)
    return suffix, ok, why


def run(ctx, P):
    getters = positive_getters(P)
    ctx.floor("R-RXVALID", "compiled-regex getters of the suppression classes", len(getters), 18)
    # ---------------- G1
    cands = [f for f in P.all_funcs() if f.n == "read_suppressions" and not f.dep and
             any((f.decl(n) or {}).get("n") in READERS for n in f.nodes() if n["k"] == "CallExpr")]
    if len(cands) != 1:
        raise AnalysisBroken("anchor: the read_suppressions() overload that dispatches to the section readers")
    rs = cands[0]
    ctx.analysed(rs)
    reader_calls = [n for n in rs.nodes() if n["k"] == "CallExpr" and (rs.decl(n) or {}).get("n") in READERS]
    ctx.floor("R-RXVALID", "section reader calls in read_suppressions", len(reader_calls), 4)
    cfg = rs.cfg()
    validators = {}

    def edge(st, blk, idx):
        if cfg.branch(blk.id) is None:
            return st
        add = set()
        for c in cfg.branch_conds(blk.id):
            add |= _validator_true(rs, P, c, idx == 0, validators)
        return st | frozenset(add) if add else st
    ins, _ = forward(cfg, frozenset(), lambda s, n, b: s, edge)
    gate = None
    for n in reader_calls:
        st = state_before(cfg, ins, lambda s, n_, b: s, n)
        ok = st is not TOP and any(x[0] == "valid" for x in st)
        if ok:
            gate = next(x[1] for x in st if x[0] == "valid")
        ctx.ob("R-RXVALID/G1", "read_suppressions: %s() only for validated sections" % rs.decl(n)["n"], ok, rs.loc(n),
               "call is dominated by the true edge of %s()" % gate if ok else
               "the section reader is reached without the section's regular expressions having been compiled: a "
               "pattern that does not compile yields a nil regex, which the matching functions take for an absent "
               "constraint (the suppression over-matches)")
    # ---------------- G2
    suffix = None
    if gate:
        v = P.funcs[gate]
        ctx.analysed(v)
        suffix, ok, why = validator_shape(v)
        ctx.ob("R-RXVALID/G2", "%s rejects a section with an uncompilable %s property" % (
            v.n, "listed" if isinstance(suffix, set) else "*" + (suffix or "?")), ok, v.loc(), why)
    # ---------------- G3
    names = set()
    readers = [f for f in P.all_funcs() if f.n in READERS and not f.dep]
    for f in readers:
        ctx.analysed(f)
        for n in f.nodes():
            if n["k"] == "CXXMemberCallExpr" and (f.decl(n) or {}).get("n") == "find_property":
                a = [x for x in walk(call_args(n)[0]) if x["k"] == "StringLiteral"]
                if a:
                    names.add((f.n, a[0]["s"], f.loc(n)))
    rx_names = sorted({(fn, nm) for fn, nm, _ in names if "regex" in nm})
    ctx.floor("R-RXVALID/G3", "regular-expression property names looked up by the readers", len(rx_names), 20)
    for fn, nm in rx_names:
        if isinstance(suffix, set):
            ok = nm in suffix
            ctx.ob("R-RXVALID/G3", "%s: property %s" % (fn, nm), ok, "",
                   "name is in the validator's table of %d properties" % len(suffix) if ok else
                   "the validator's table of property names does not contain this property: its pattern is never "
                   "compiled before the section is accepted")
            continue
        ok = bool(suffix) and nm.endswith(suffix)
        ctx.ob("R-RXVALID/G3", "%s: property %s" % (fn, nm), ok, "",
               "name ends with the validator's suffix %r" % suffix if ok else
               "the validator (suffix %r) does not look at this property" % suffix)
    # ---------------- G4
    ps = P.fn1("abigail::suppr::read_parameter_spec_from_string")
    ctx.analysed(ps)
    news = [n for n in ps.nodes() if n["k"] == "CXXNewExpr"]
    nf = NullFlow(ps).solve()
    for n in news:
        st = nf.before(n)
        ok = st is not TOP and any(t == "nn" and k.startswith("compile(") for t, k in st) or \
            _new_dominated_by_compile_check(ps, n)
        ctx.ob("R-RXVALID/G4", "read_parameter_spec_from_string: '/regex/ compiled before it is accepted", ok,
               ps.loc(n), "the parameter_spec is only built after regex::compile of the pattern succeeded" if ok else
               "a parameter type regex that does not compile is accepted; its constraint then vanishes")
    rf = [f for f in readers if f.n == "read_function_suppression"][0]
    okp = False
    for n in rf.nodes():
        if n["k"] == "IfStmt" and any((rf.decl(x) or {}).get("n") == "read_parameter_spec_from_string"
                                      for x in walk(n["c"][0])):
            els = n["c"][2]
            if els is not None and any(x["k"] == "ReturnStmt" for x in walk(els)):
                okp = True
    ctx.ob("R-RXVALID/G4", "read_function_suppression: unparsable parameter rejects the suppression", okp, rf.loc(),
           "a `parameter` property that yields no specification makes the reader return nil" if okp else
           "a `parameter` property that yields no specification is silently dropped: the suppression loses that constraint")
    # ---------------- R-RXPRES (only meaningful without the gate)
    if not gate:
        use_sites(ctx, P, getters)
    else:
        ctx.note("R-RXPRES use-site obligations not raised: the parser gate (R-RXVALID) is in place, so a nil regex "
                 "at a use site means the pattern string is empty")
    ctx.assume("suppressions built programmatically through set_*_regex_str() (tools generate those patterns from "
               "escaped literals, see C27) are outside the gate; the property quantifies over suppression files")


def _new_dominated_by_compile_check(f, new):
    """an `if (is_regex) {... if (!regex::compile(x)) return ...;}` precedes the new-expression"""
    for n in f.nodes():
        if n["k"] == "IfStmt" and n["l"] <= new["l"]:
            cond = n["c"][0]
            c0 = strip_casts(cond)
            if c0 is not None and c0.get("op") == "!" and any(
                    (f.decl(x) or {}).get("q") == "abigail::regex::compile" for x in walk(c0) if x["k"] == "CallExpr"):
                if any(x["k"] == "ReturnStmt" for x in walk(n["c"][1])):
                    return True
    return False


def _validator_true(f, P, cond, truth, validators):
    """{('valid', usr)} if cond==truth implies that a validator call returned true"""
    n = strip_casts(cond)
    if n is None:
        return set()
    if n["k"] in ("UnaryOperator",) and n.get("op") == "!":
        return _validator_true(f, P, n["c"][0], not truth, validators)
    if n["k"] == "BinaryOperator" and n.get("op") == "&&" and truth:
        return _validator_true(f, P, n["c"][0], True, validators) | _validator_true(f, P, n["c"][1], True, validators)
    if n["k"] == "BinaryOperator" and n.get("op") == "||" and not truth:
        return _validator_true(f, P, n["c"][0], False, validators) | _validator_true(f, P, n["c"][1], False, validators)
    if n["k"] == "CallExpr" and truth:
        d = f.decl(n)
        g = P.funcs.get((d or {}).get("u"))
        if g is not None and g.ret_type() and g.ret_type()["c"] == "bool":
            if g.u not in validators:
                validators[g.u] = validator_shape(g)
            if validators[g.u][0] is not None or any(
                    (g.decl(x) or {}).get("q") == "abigail::regex::compile" for x in g.nodes() if x["k"] == "CallExpr"):
                return {("valid", g.u)}
    return set()


def use_sites(ctx, P, getters):
    n_sites = 0
    for f in sorted(P.all_funcs(), key=lambda x: (x.file, x.l0)):
        if f.dep or f.cfg() is None or f.u in getters:
            continue
        calls = [(n, getters[d["u"]]) for n, d in f.calls() if d.get("u") in getters and "_not_" not in d["n"]]
        if not calls:
            continue
        rt = f.ret_type()
        if rt is None or rt["c"] != "bool":
            continue
        ctx.analysed(f)
        cfg = f.cfg()
        for call, (g, sfield) in calls:
            n_sites += 1
            keys = {expr_str(f, call)}
            for anc in f.ancestors(call):
                if anc["k"] == "VarDecl":
                    keys.add(f.decl(anc)["n"])
                    break
                if anc["k"] in ("CompoundStmt", "IfStmt"):
                    break
            sgetter = g.n + "_str"

            def consults(e):
                if e["k"] == "CXXMemberCallExpr" and (f.decl(e) or {}).get("n") == sgetter:
                    return True
                if e["k"] == "MemberExpr" and (f.decl(e) or {}).get("n") == sfield:
                    return True
                return False
            ins = {b: set() for b in cfg.blocks}
            ins[cfg.entry] = {frozenset()}
            work = [cfg.entry]
            bad = None
            while work and bad is None:
                b = work.pop()
                blk = cfg.blocks[b]
                for st0 in list(ins[b]):
                    st = st0
                    for e in blk.elems:
                        for x in walk(e) if e["k"] not in ("CompoundStmt",) else ():
                            if consults(x):
                                st = st | {"str"}
                        if e["k"] == "ReturnStmt" and e.get("c"):
                            v = strip_casts(e["c"][0])
                            if v is not None and v["k"] == "CXXBoolLiteralExpr" and v.get("v") == 1 \
                                    and "null" in st and "str" not in st:
                                bad = e
                    for idx, s in enumerate(blk.succs):
                        if s is None or s not in cfg.blocks:
                            continue
                        st2 = st
                        if cfg.branch(b) is not None:
                            for kind, key in cfg.edge_facts(f, b, idx):
                                if kind == "null" and key in keys:
                                    st2 = frozenset({"null"})
                        if st2 not in ins[s]:
                            ins[s].add(st2)
                            work.append(s)
            ent = "%s: %s" % (short(f), g.n)
            ctx.ob("R-RXPRES", ent, bad is None, f.loc(call),
                   "a null %s() is never taken for an absent constraint" % g.n if bad is None else
                   "with %s() null the function can still `return true` (%s) without looking at %s: an invalid "
                   "pattern is treated as no constraint and the suppression over-matches" % (
                       g.n, f.loc(bad), sfield))
    return n_sites
