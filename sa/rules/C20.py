"""C20 - type canonicalisation agrees with structural equality (the driver's discipline, not the equality itself).

Whether two type graphs are structurally equal is decided at run time by the ir::equals overloads and their
canonical-type-propagation optimisation; nothing static bounds that.  The *driver* that turns the verdicts of those
comparisons into canonical types is structural, and each of its obligations is a necessary condition of "same
canonical type exactly when structurally equal":

R-CANONEQ      type_base::get_canonical_type_for hands out the canonical type of a candidate only on the true edge of
               the structural comparison (compare_types_during_canonicalization, or the kernel same-definition
               shortcut): in the world where every comparison answers false, `result = <candidate>` is unreachable.
R-CANONNEW     in that world the type becomes its own canonical type *and* is registered in the bucket (a new bucket
               or the one found), so that a later equal type meets it.
R-CANONKEY     the bucket is looked up and created under one key, the internal pretty representation
               (get_cached_pretty_representation(/*internal=*/true)).
R-CANONRESTORE the comparison-mode switches flipped around each comparison (on-the-fly canonicalisation on,
               decl-only-class-equals-definition off) are restored on every path out of the function.
R-CTCANCEL     an ir::equals overload that first delegates to the overload of a base class on the same operands (which may
               tentatively propagate a canonical type to the right operand) and then goes on comparing more attributes
               cancels that propagation on every path before it reports a verdict through return_comparison_result:
               otherwise a difference found in the remaining attributes leaves the right operand with the left one's
               canonical type.
R-CTPROP       ir::return_comparison_result (every instantiation): a comparison that failed never propagates a
               canonical type and always cancels the tentative ones; a comparison that succeeded never cancels;
               the function returns the verdict it was given.
"""
from engine.cfg import strip_casts, forward, state_before, TOP
from engine.facts import walk, call_args, member_call_object, expr_str
from engine.compdb import AnalysisBroken
from rules.world import World, ANY, truth

UNITS = ["src/abg-ir.cc"]
COMPARATORS = ("compare_types_during_canonicalization", "types_defined_same_linux_kernel_corpus_public")


def run(ctx):
    ctx.clause = ("the canonicalisation driver gives a type the canonical type of a candidate only after a structural "
                  "comparison said equal, registers an unmatched type under the key it was looked up with, restores the "
                  "comparison-mode switches, and never keeps a propagated canonical type after a failed comparison")
    ctx.rules = ["R-CANONEQ", "R-CANONNEW", "R-CANONKEY", "R-CANONRESTORE", "R-CTPROP", "R-CTCANCEL"]
    P = ctx.program(UNITS)
    fs = [f for f in P.fn("abigail::ir::type_base::get_canonical_type_for") if not f.dep and f.cfg() is not None]
    if len(fs) != 1:
        raise AnalysisBroken("anchor vanished: type_base::get_canonical_type_for")
    f = fs[0]
    ctx.analysed(f)
    check_driver(ctx, P, f)
    check_restore(ctx, f)
    check_ctprop(ctx, P)
    check_ctcancel(ctx, P)
    ctx.assume("structural equality itself (the ir::equals overloads, cycle handling and the marking of types that depend on "
               "recursive types) is runtime behaviour: the project's own --debug-tc / --debug-abidiff builds are dynamic "
               "checks of it and are not replaced by this clause")


def _locals_bool(f):
    return {x.get("d") for x in f.nodes() if x["k"] == "VarDecl" and
            (f.unit.type((f.unit.decl(x.get("d")) or {}).get("t")) or {}).get("s") in ("bool", "_Bool", "const bool")}


def check_driver(ctx, P, f):
    tparam = f.r["params"][0]
    cmp_calls = [x for x in f.nodes() if x["k"] == "CallExpr" and (f.decl(x) or {}).get("n") == COMPARATORS[0]]
    if not cmp_calls:
        raise AnalysisBroken("anchor vanished: get_canonical_type_for no longer calls compare_types_during_canonicalization")
    # the result variable: the local that is returned at the end and assigned from the candidate iterator
    res = None
    for r in f.nodes():
        if r["k"] == "ReturnStmt" and r.get("c") and r["c"][0] is not None:
            v = [y for y in walk(r["c"][0]) if y["k"] == "DeclRefExpr" and (f.decl(y) or {}).get("k") in ("Var", "VarDecl", None)
                 and y.get("d") != tparam]
            for y in v:
                if any(x["k"] == "VarDecl" and x.get("d") == y.get("d") for x in f.nodes()):
                    res = y.get("d")
    if res is None:
        raise AnalysisBroken("anchor vanished: the result local of get_canonical_type_for")
    stores = []
    for x in f.nodes():
        if x["k"] in ("CXXOperatorCallExpr", "BinaryOperator") and x.get("op") == "=":
            a = call_args(x) if x["k"] == "CXXOperatorCallExpr" else x["c"]
            l = strip_casts(a[0])
            if l is not None and l["k"] == "DeclRefExpr" and l.get("d") == res:
                from_t = any(y["k"] == "DeclRefExpr" and y.get("d") == tparam for y in walk(a[1]))
                stores.append((x, from_t))
    cand_stores = [x for x, from_t in stores if not from_t]
    if not cand_stores:
        raise AnalysisBroken("anchor vanished: get_canonical_type_for no longer assigns a candidate to its result")
    maps = {x.get("d") for x in f.nodes() if x["k"] == "VarDecl" and x.get("c") and x["c"][0] is not None and
            any(y["k"] == "CXXMemberCallExpr" and (f.decl(y) or {}).get("n") == "get_canonical_types_map" for y in walk(x["c"][0]))}
    track = _locals_bool(f) | {res}
    n = 0
    for found in (True, False):
        def atom(e):
            k = e["k"]
            if k == "CallExpr" and (f.decl(e) or {}).get("n") in COMPARATORS:
                return [False]
            if k == "DeclRefExpr" and e.get("d") == tparam:
                return ["T"]
            if k in ("CXXConstructExpr", "CXXTemporaryObjectExpr") and not [a for a in e.get("c", []) if a is not None]:
                return [None]
            if k in ("CXXOperatorCallExpr", "BinaryOperator") and e.get("op") in ("==", "!="):
                a = call_args(e) if k == "CXXOperatorCallExpr" else e["c"]
                if any(strip_casts(x) is not None and strip_casts(x)["k"] == "CXXMemberCallExpr" and
                       (f.decl(strip_casts(x)) or {}).get("n") == "end" and
                       any(y["k"] == "DeclRefExpr" and y.get("d") in maps for y in walk(x)) for x in a):
                    return [(not found) if e["op"] == "==" else found]
            if k == "CXXMemberCallExpr" and (f.decl(e) or {}).get("n") in ("get_canonical_type", "get_is_declaration_only",
                                                                         "self_comparison_debug_is_on"):
                return [None] if (f.decl(e) or {}).get("n") == "get_canonical_type" else [False]
            if k == "CallExpr" and (f.decl(e) or {}).get("n") == "is_non_canonicalized_type":
                return [False]
            return None
        W = World(f, atom)
        rets = W.run_env(track)
        reached = W.reached_elems
        n += 1
        bad = [x for x in cand_stores if x["i"] in reached]
        ctx.ob("R-CANONEQ", "get_canonical_type_for (bucket %s): a candidate is chosen only after a comparison said equal" % (
            "found" if found else "new"), not bad, f.loc(bad[0]) if bad else f.loc(cmp_calls[0]),
            "`result = <candidate>` is unreachable when every comparison answers false" if not bad else
            "`%s` is reached although no comparison answered true: two structurally different types share a canonical type" %
            expr_str(f, bad[0])[:60])
        pushes = [x for x in f.nodes() if x["k"] == "CXXMemberCallExpr" and (f.decl(x) or {}).get("n") in ("push_back", "emplace_back") and
                  call_args(x) and any(y["k"] == "DeclRefExpr" and y.get("d") == tparam for y in walk(call_args(x)[0])) and x["i"] in reached]
        own = rets == {"T"}
        n += 1
        ctx.ob("R-CANONNEW", "get_canonical_type_for (bucket %s): an unmatched type becomes its own canonical type and is registered" % (
            "found" if found else "new"), own and bool(pushes), f.loc(pushes[0]) if pushes else f.loc(),
            "returns the type itself after push_back(t)" if own and pushes else
            "returns %s, registered: %s - a later structurally equal type cannot meet this one and gets another canonical type" % (
                sorted(str(r) for r in rets), bool(pushes)))
    # key
    finds = [x for x in f.nodes() if x["k"] == "CXXMemberCallExpr" and (f.decl(x) or {}).get("n") == "find" and
             any(y["k"] == "DeclRefExpr" and y.get("d") in maps for y in walk(member_call_object(x)))]
    subs = [x for x in f.nodes() if x["k"] == "CXXOperatorCallExpr" and x.get("op") == "[]" and
            any(y["k"] == "DeclRefExpr" and y.get("d") in maps for y in walk(call_args(x)[0]))]
    keys = set()
    for x in finds:
        k0 = strip_casts(call_args(x)[0])
        keys.add(k0.get("d") if k0 is not None and k0["k"] == "DeclRefExpr" else expr_str(f, k0))
    for x in subs:
        k0 = strip_casts(call_args(x)[1])
        keys.add(k0.get("d") if k0 is not None and k0["k"] == "DeclRefExpr" else expr_str(f, k0))
    if not finds:
        raise AnalysisBroken("anchor vanished: lookup in the canonical types map")
    key_ok = len(keys) == 1
    internal_ok = False
    if key_ok:
        kd = next(iter(keys))
        for v in f.nodes():
            if v["k"] == "VarDecl" and v.get("d") == kd and v.get("c") and v["c"][0] is not None:
                for y in walk(v["c"][0]):
                    if y["k"] == "CXXMemberCallExpr" and (f.decl(y) or {}).get("n") in ("get_cached_pretty_representation", "get_pretty_representation"):
                        a = call_args(y)
                        internal_ok = bool(a) and (strip_casts(a[0]) or {}).get("v") == 1
    ctx.ob("R-CANONKEY", "get_canonical_type_for: one key, the internal representation, for lookup and registration", key_ok and internal_ok,
           f.loc(finds[0]), "find(repr) / [repr], repr = get_cached_pretty_representation(true)" if key_ok and internal_ok else
           "lookup and registration keys differ, or the key is not the internal representation: equal types land in different buckets")
    ctx.floor("R-CANONEQ", "driver worlds", n, 4)


def check_restore(ctx, f):
    """may-analysis of `dirty` switches at every return"""
    SW = {"do_on_the_fly_canonicalization": ("otf", lambda a: (strip_casts(a) or {}).get("v") == 1, lambda a: (strip_casts(a) or {}).get("v") == 0),
          "decl_only_class_equals_definition": ("doced", lambda a: (strip_casts(a) or {}).get("k") == "CXXBoolLiteralExpr",
                                                lambda a: (strip_casts(a) or {}).get("k") == "DeclRefExpr")}

    def tr(st, e, blk):
        if e["k"] == "CXXMemberCallExpr":
            nm = (f.decl(e) or {}).get("n")
            if nm in SW and call_args(e):
                tag, is_set, is_restore = SW[nm]
                if is_set(call_args(e)[0]):
                    return st | {tag}
                if is_restore(call_args(e)[0]):
                    return st - {tag}
        return st
    cfg = f.cfg()
    ins, _ = forward(cfg, frozenset(), tr, join=lambda a, b: a | b)
    sets = [x for x in f.nodes() if x["k"] == "CXXMemberCallExpr" and (f.decl(x) or {}).get("n") in SW and call_args(x) and
            SW[(f.decl(x) or {}).get("n")][1](call_args(x)[0])]
    if len({(f.decl(x) or {}).get("n") for x in sets}) < 2:
        raise AnalysisBroken("anchor vanished: get_canonical_type_for no longer flips the two comparison-mode switches")
    for nm, (tag, _, _) in sorted(SW.items()):
        dirty = []
        for r in f.nodes():
            if r["k"] == "ReturnStmt":
                st = state_before(cfg, ins, tr, r)
                if st is not TOP and tag in st:
                    dirty.append(r)
        # also: the loop must not iterate with the switch still flipped and then leave through its exit
        ctx.ob("R-CANONRESTORE", "get_canonical_type_for: %s is restored on every path" % nm, not dirty, f.loc(dirty[0]) if dirty else f.loc(sets[0]),
               "clean at every return" if not dirty else
               "a return is reachable with the switch still flipped: every later comparison of the process runs in canonicalisation mode")


def check_ctprop(ctx, P):
    fs = [f for f in P.all_funcs() if f.n == "return_comparison_result" and not f.dep and f.cfg() is not None]
    if not fs:
        raise AnalysisBroken("anchor vanished: instantiations of ir::return_comparison_result")
    n = 0
    for f in sorted(fs, key=lambda x: x.sig):
        ctx.analysed(f)
        ps = {(f.unit.decl(p) or {}).get("n"): p for p in f.r["params"]}
        if "value" not in ps:
            raise AnalysisBroken("anchor vanished: parameter `value` of return_comparison_result")
        inst = f.sig[f.sig.index("(") + 1:].split(",")[0].replace("const ", "").replace("abigail::ir::", "").replace(" &", "")
        for value in (True, False):
            def atom(e):
                if e["k"] == "DeclRefExpr" and e.get("d") == ps["value"]:
                    return [value]
                if e["k"] == "DeclRefExpr" and e.get("d") == ps.get("propagate_canonical_type"):
                    return [True]
                if e["k"] == "CXXMemberCallExpr" and (f.decl(e) or {}).get("n") == "do_on_the_fly_canonicalization":
                    return [True]
                return None
            W = World(f, atom)
            seen, rets = W.blocks()
            reached = {e["i"] for b in seen for e in f.cfg().blocks[b].elems}

            def hit(name):
                return any(x["i"] in reached for x in f.nodes() if x["k"] in ("CallExpr", "CXXMemberCallExpr") and (f.decl(x) or {}).get("n") == name)
            n += 1
            if value:
                ok = not hit("cancel_ct_propagation") and not hit("clear_propagated_canonical_type") and rets == {True}
                ctx.ob("R-CTPROP", "return_comparison_result<%s>: a successful comparison cancels nothing and returns true" % inst, ok, f.loc(),
                       "cancel_ct_propagation / clear_propagated_canonical_type unreachable" if ok else
                       "propagated canonical types are cancelled although the comparison succeeded, or the verdict is changed (%s)" % sorted(map(str, rets)))
            else:
                cancels = W.must_pass(lambda e: e["k"] == "CXXMemberCallExpr" and (f.decl(e) or {}).get("n") == "cancel_ct_propagation")
                ok = not hit("maybe_propagate_canonical_type") and not hit("confirm_ct_propagation") and cancels and rets == {False}
                ctx.ob("R-CTPROP", "return_comparison_result<%s>: a failed comparison propagates nothing, cancels the tentative canonical types and returns false" % inst,
                       ok, f.loc(), "maybe_propagate / confirm unreachable, cancel_ct_propagation reached" if ok else
                       "after a failed comparison: propagate reached=%s, confirm reached=%s, cancel on every path=%s, returns %s - a type keeps a "
                       "canonical type it is not structurally equal to" % (hit("maybe_propagate_canonical_type"), hit("confirm_ct_propagation"),
                                                                          cancels, sorted(map(str, rets))))
    ctx.floor("R-CTPROP", "(instantiation, verdict) worlds", n, 4)



def check_ctcancel(ctx, P):
    from rules.idref_rule import _on_all_paths_before
    n = 0
    for f in sorted(P.fn("abigail::ir::equals"), key=lambda x: x.sig):
        if f.dep or f.cfg() is None or len(f.r["params"]) < 2:
            continue
        l, r = f.r["params"][0], f.r["params"][1]

        def on_operands(call):
            a = call_args(call)
            return len(a) >= 2 and any(y["k"] == "DeclRefExpr" and y.get("d") == l for y in walk(a[0])) and \
                any(y["k"] == "DeclRefExpr" and y.get("d") == r for y in walk(a[1]))
        # delegation that is not itself the returned value
        deleg = []
        for x in f.nodes():
            if x["k"] == "CallExpr" and (f.decl(x) or {}).get("n") == "equals" and (f.decl(x) or {}).get("u") != f.u and on_operands(x):
                p = f.parent(x)
                while p is not None and p["k"] in ("ImplicitCastExpr", "ParenExpr", "ExprWithCleanups"):
                    p = f.parent(p)
                if p is None or p["k"] != "ReturnStmt":
                    deleg.append(x)
        rets = [x for x in f.nodes() if x["k"] == "CallExpr" and (f.decl(x) or {}).get("n") == "return_comparison_result"]
        if not deleg or not rets:
            continue
        ctx.analysed(f)

        def is_cancel(e):
            return e["k"] == "CallExpr" and (f.decl(e) or {}).get("n") == "maybe_cancel_propagated_canonical_type" and call_args(e) and \
                any(y["k"] == "DeclRefExpr" and y.get("d") == r for y in walk(call_args(e)[0]))
        bad = [x for x in rets if not _on_all_paths_before(f, x, is_cancel)]
        # nothing else is compared while the right operand may still carry the tentative canonical type: between the
        # delegated comparison and the cancellation only bookkeeping calls may run (may-analysis of the state `between`)
        ALLOWED = ("maybe_cancel_propagated_canonical_type", "mark_types_as_being_compared", "return_comparison_result",
                   "unmark_types_as_being_compared")
        did = {x["i"] for x in deleg}

        def tr(st, e, blk):
            if e["i"] in did:
                return st | {"between"}
            if is_cancel(e):
                return st - {"between"}
            return st
        cfg = f.cfg()
        ins, _ = forward(cfg, frozenset(), tr, join=lambda a, b: a | b)
        early = []
        for x in f.nodes():
            if x["k"] in ("CallExpr", "CXXMemberCallExpr") and x["i"] not in did and (f.decl(x) or {}).get("n") not in ALLOWED and \
                    not ((f.decl(x) or {}).get("n") or "").startswith("operator"):
                st = state_before(cfg, ins, tr, x)
                if st is not TOP and "between" in st:
                    # part of the delegated call's own argument list (casts) does not count
                    if any(any(y is x for y in walk(d)) for d in deleg):
                        continue
                    early.append(x)
        n += 1
        kind = f.sig[f.sig.index("(") + 1:].split(",")[0].replace("const ", "").replace("abigail::ir::", "").replace(" &", "")
        ctx.ob("R-CTCANCEL", "equals(%s): nothing is compared between the delegated comparison and the cancellation" % kind,
               not early, f.loc(early[0]) if early else f.loc(deleg[0]),
               "only bookkeeping calls in between" if not early else
               "`%s` runs while the right operand may still carry the tentatively propagated canonical type: sub-types that point "
               "back to it compare canonically equal without being tracked" % expr_str(f, early[0])[:70])
        ctx.ob("R-CTCANCEL", "equals(%s): the propagation made by the delegated comparison is cancelled before every verdict" % kind,
               not bad, f.loc(bad[0]) if bad else f.loc(deleg[0]),
               "maybe_cancel_propagated_canonical_type(r) dominates the %d verdicts" % len(rets) if not bad else
               "a verdict is reachable without maybe_cancel_propagated_canonical_type(r): when the remaining attributes differ the "
               "right operand keeps the canonical type of the left one, and the two types compare equal from then on")
    ctx.floor("R-CTCANCEL", "equals overloads that delegate and continue", n, 1)
