"""R-VOCAB, R-ENUMTAB, R-DEFSZ: the ABIXML writer and reader agree on their vocabulary.

R-VOCAB    every attribute / element name the writer emits is one the reader asks for, and every
           name the reader asks for is emitted by the writer or listed as legacy.
R-ENUMTAB  for every enum the writer serialises through a switch (enumerator -> literal) the
           reader's if-chain (literal -> enumerator) is its inverse; enumerators the writer has
           no case for (they collapse into the default literal) must be listed.
R-DEFSZ    the element kinds for which the writer may omit size-in-bits (default = address
           size) are exactly those whose reader builder starts from the address size.
"""
import json
import os
import re

from engine.facts import walk, call_args, expr_str
from engine.cfg import strip_casts
from engine.compdb import AnalysisBroken

UNITS = ["src/abg-writer.cc", "src/abg-reader.cc", "src/abg-ir.cc"]
TABLES = os.path.join(os.path.dirname(os.path.dirname(os.path.abspath(__file__))), "tables")


def writer_funcs(P):
    return [f for f in P.all_funcs() if f.relfile.endswith("src/abg-writer.cc")
            and f.q.startswith("abigail::xml_writer::") and not f.dep]


def reader_funcs(P):
    return [f for f in P.all_funcs() if f.relfile.endswith("src/abg-reader.cc") and not f.dep]


def writer_vocab(P):
    attrs, elems = {}, {}
    for f in writer_funcs(P):
        for n in f.nodes():
            if n["k"] == "StringLiteral":
                s = n.get("s", "")
                for a in re.findall(r"(?:^|\s)([A-Za-z][\w-]*)='", s):
                    attrs.setdefault(a, f.loc(n))
                for e in re.findall(r"</?([a-z][\w-]*)", s):
                    elems.setdefault(e, f.loc(n))
    return attrs, elems


def reader_vocab(P):
    attrs, elems = {}, {}
    for f in reader_funcs(P):
        for n in f.nodes():
            if n["k"] != "CallExpr":
                continue
            d = f.decl(n)
            if d is None:
                continue
            if d["n"] in ("xmlGetProp", "xmlTextReaderGetAttribute", "xmlHasProp"):
                for x in walk(call_args(n)[1]):
                    if x["k"] == "StringLiteral":
                        attrs.setdefault(x["s"], f.loc(n))
            if d["n"] == "xmlStrEqual":
                for a in call_args(n):
                    for x in walk(a):
                        if x["k"] == "StringLiteral":
                            elems.setdefault(x["s"], f.loc(n))
    return attrs, elems


def check_vocab(ctx, P):
    with open(os.path.join(TABLES, "vocab_tables.json")) as fh:
        T = json.load(fh)
    wa, we = writer_vocab(P)
    ra, re_ = reader_vocab(P)
    ctx.floor("R-VOCAB", "attribute names written", len(wa), 45)
    ctx.floor("R-VOCAB", "element names written", len(we), 30)
    for a in sorted(wa):
        ctx.ob("R-VOCAB", "attribute %s written => read" % a, a in ra, wa[a],
               "the reader asks for it at %s" % ra[a] if a in ra else
               "the writer emits attribute `%s` but no reader code asks for it: the information is dropped by a "
               "write/read round trip" % a)
    for e in sorted(we):
        ctx.ob("R-VOCAB", "element %s written => read" % e, e in re_, we[e],
               "the reader recognises it at %s" % re_[e] if e in re_ else
               "the writer emits element <%s> but the reader never tests for it" % e)
    for a in sorted(set(ra) - set(wa)):
        ok = a in T["legacy_attributes"]
        ctx.ob("R-VOCAB", "attribute %s read => written or legacy" % a, ok, ra[a],
               T["legacy_attributes"].get(a, "") if ok else
               "the reader asks for attribute `%s`, which the writer no longer emits (and which is not listed as a "
               "legacy attribute): whatever it carried is lost when a document is re-emitted" % a)
    for e in sorted(set(re_) - set(we)):
        ok = e in T["legacy_elements"]
        ctx.ob("R-VOCAB", "element %s read => written or legacy" % e, ok, re_[e],
               T["legacy_elements"].get(e, "") if ok else
               "the reader handles element <%s>, which the writer no longer emits" % e)


# ------------------------------------------------------------------ enum tables

def enum_of(f, n):
    t = f.type(n)
    return t["c"].replace("const ", "") if t and t.get("enum") else None


def switch_tables(f):
    """[(enum type, [(case value | 'default', literal or None)])] for switches over an enum"""
    out = []
    for sw in f.nodes():
        if sw["k"] != "SwitchStmt":
            continue
        T = enum_of(f, strip_casts(sw["c"][0]))
        body = sw["c"][1]
        if not T or body is None:
            continue
        items = [x for x in body.get("c", []) if x is not None]
        pairs = []
        i = 0
        while i < len(items):
            it = items[i]
            if it["k"] in ("CaseStmt", "DefaultStmt"):
                vals, node = [], it
                while node is not None and node["k"] in ("CaseStmt", "DefaultStmt"):
                    vals.append(node.get("v") if node["k"] == "CaseStmt" else "default")
                    node = node["c"][-1]
                stmts = [node]
                j = i + 1
                while j < len(items) and items[j]["k"] not in ("CaseStmt", "DefaultStmt"):
                    stmts.append(items[j])
                    j += 1
                lit = None
                for s in stmts:
                    if s is None:
                        continue
                    for x in walk(s):
                        if x["k"] == "StringLiteral":
                            lit = x["s"]
                            break
                    if lit is not None:
                        break
                for v in vals:
                    pairs.append((v, lit))
                i = j
            else:
                i += 1
        if any(l is not None for _, l in pairs):
            out.append((T, pairs))
    return out


def ifchain_tables(f):
    """[(literal, enumerator value, enum type, enumerator name)] from `if (s == "lit") x = ENUM;` chains"""
    pairs = []
    for n in f.nodes():
        if n["k"] != "IfStmt":
            continue
        c = strip_casts(n["c"][0])
        if c is None or c["k"] != "CXXOperatorCallExpr" or c.get("op") != "==":
            continue
        lits = [x["s"] for a in call_args(c) for x in walk(a) if x["k"] == "StringLiteral"]
        if not lits or n["c"][1] is None:
            continue
        for x in walk(n["c"][1]):
            if x["k"] == "DeclRefExpr" and (f.decl(x) or {}).get("k") == "EnumConstant":
                d = f.decl(x)
                pairs.append((lits[0], d["v"], d.get("enum"), d["n"]))
                break
    return pairs if len(pairs) >= 2 else []


def ifchain_default(f):
    """value of the fall-through `return ENUM;` of a string->enum function, if any"""
    body = f.body["c"][-1]
    for s in reversed([x for x in body.get("c", []) if x is not None]):
        if s["k"] == "ReturnStmt" and s.get("c"):
            e = strip_casts(s["c"][0])
            if e is not None and e["k"] == "DeclRefExpr" and (f.decl(e) or {}).get("k") == "EnumConstant":
                return f.decl(e)["v"]
        break
    return None


def check_enumtab(ctx, P):
    with open(os.path.join(TABLES, "vocab_tables.json")) as fh:
        T = json.load(fh)
    writer_side = {}
    wf = {f.u: f for f in writer_funcs(P)}
    cg = P.callgraph()
    # serialising functions: switches in the writer itself, or in X_to_string helpers the writer calls
    helpers = set()
    for f in wf.values():
        for cu in cg.get(f.u, {}):
            g = P.funcs.get(cu)
            if g is not None and g.u not in wf and g.n.endswith("_to_string") and g.q.startswith("abigail::"):
                helpers.add(g.u)
    for u in list(wf) + list(helpers):
        f = P.funcs[u]
        for Ty, pairs in switch_tables(f):
            writer_side.setdefault(Ty, []).append((f, pairs))
    reader_side = {}
    reader_default = {}
    for f in P.all_funcs():
        if f.dep:
            continue
        for lit, v, Ty, nm in ifchain_tables(f):
            reader_side.setdefault(Ty, {}).setdefault(f.q, {})[lit] = v
            reader_default[f.q] = ifchain_default(f)
    n_pairs = 0
    for Ty in sorted(writer_side):
        if Ty in T["not_serialised_enums"]:
            continue
        consts = P.enums.get(Ty)
        rtabs = reader_side.get(Ty, {})
        for f, pairs in writer_side[Ty]:
            ctx.analysed(f)
            if not rtabs:
                ctx.ob("R-ENUMTAB", "%s: reader table for %s" % (f.n, Ty), False, f.loc(),
                       "the writer serialises %s but no if-chain maps the strings back" % Ty)
                continue
            rq, rt = max(rtabs.items(), key=lambda kv: len(kv[1]))
            covered = set()
            for v, lit in pairs:
                if v == "default" or lit is None:
                    continue
                n_pairs += 1
                covered.add(v)
                ok = rt.get(lit) == v or (lit not in rt and reader_default.get(rq) == v)
                ctx.ob("R-ENUMTAB", "%s: %s=%s -> '%s'" % (f.n, Ty.split("::")[-1], v, lit), ok, f.loc(),
                       "%s maps '%s' back to %s" % (rq.split("::")[-1], lit, v) if ok else
                       "%s maps '%s' to %s: the enumerator does not survive a write/read round trip"
                       % (rq.split("::")[-1], lit, rt.get(lit, "nothing")))
            for lit, v in sorted(rt.items()):
                wl = [l for vv, l in pairs if vv == v]
                ok = lit in wl or (Ty + ":" + lit) in T["legacy_enum_strings"]
                ctx.ob("R-ENUMTAB", "%s: '%s' -> %s is what %s writes" % (rq.split("::")[-1], lit, v, f.n), ok, f.loc(),
                       "inverse pair present" if ok else
                       "the reader accepts '%s' for %s=%s but the writer emits %s for it" % (lit, Ty, v, wl))
            # enumerators without a case collapse into the default literal
            if consts:
                for c in consts["consts"]:
                    if c["v"] not in covered and not any(v == c["v"] for v, _ in pairs):
                        key = "%s::%s" % (Ty, c["n"])
                        ok = key in T["enum_collapses"]
                        ctx.ob("R-ENUMTAB", "%s: enumerator %s has a case" % (f.n, c["n"]), ok, f.loc(),
                               "listed collapse: " + T["enum_collapses"].get(key, "") if ok else
                               "the writer has no case for %s: it is written as the default literal and read back "
                               "as a different enumerator" % key)
    ctx.floor("R-ENUMTAB", "enumerator -> literal pairs serialised by the writer", n_pairs, 40)


# ------------------------------------------------------------------ default sizes

def check_defsz(ctx, P):
    wkinds, rkinds = {}, {}
    for f in writer_funcs(P):
        for n in f.nodes():
            if n["k"] == "CallExpr" and (f.decl(n) or {}).get("n") == "write_size_and_alignment":
                args = call_args(n)
                if len(args) >= 3 and args[2] is not None and args[2]["k"] != "CXXDefaultArgExpr" and \
                        any(x["k"] == "CXXMemberCallExpr" and (f.decl(x) or {}).get("n") == "get_address_size"
                            for x in walk(args[2])):
                    wkinds[f.n.replace("write_", "", 1)] = f.loc(n)
    for f in reader_funcs(P):
        if not f.n.startswith("build_"):
            continue
        for n in f.nodes():
            if n["k"] == "VarDecl" and n.get("c") and any(
                    x["k"] == "CXXMemberCallExpr" and (f.decl(x) or {}).get("n") == "get_address_size"
                    for x in walk(n["c"][0])):
                # the variable must then be handed to read_size_and_alignment
                did = n.get("d")
                used = any(x["k"] == "CallExpr" and (f.decl(x) or {}).get("n") == "read_size_and_alignment" and
                           any(y["k"] == "DeclRefExpr" and y.get("d") == did for a in call_args(x) for y in walk(a))
                           for x in f.nodes())
                if used:
                    rkinds[f.n.replace("build_", "", 1)] = f.loc(n)
    ctx.floor("R-DEFSZ", "element kinds written with a default size", len(wkinds), 4)
    for k in sorted(set(wkinds) | set(rkinds)):
        ok = k in wkinds and k in rkinds
        ctx.ob("R-DEFSZ", "element kind %s" % k.replace("_", "-"), ok, wkinds.get(k) or rkinds.get(k),
               "writer omits the size when it equals the address size (%s) and the reader starts from the address "
               "size (%s)" % (wkinds.get(k), rkinds.get(k)) if ok else
               ("the writer may omit size-in-bits for this kind but the reader does not restore the address size: "
                "with --no-write-default-sizes every such type is read back with size 0" if k in wkinds else
                "the reader assumes an omitted size means the address size but the writer never omits it"))
