"""R-INASSERT: no assertion / abort on input-derived data.

An assertion site is ABG_ASSERT(e), assert(e), or a call of abort() / ABG_ASSERT_NOT_REACHED.
Its condition is decomposed into atoms; an atom is *input-derived* when

  (null form)   it tests non-nullness of (a variable holding) the result of a nullable producer
                that is applied to input data (table per scope), and
  (value form)  it compares / tests emptiness of (a variable directly assigned from) an input
                accessor (table per scope),

and the asserted fact is *not already established* on every path reaching the assertion
(dominating check of the same fact).  Assertions whose atoms are all internal, or already
established, are consistency checks and are not reported.  The classification is deliberately
one step deep so that every report can be replayed with a concrete input.

abort() / ABG_ASSERT_NOT_REACHED: reported when it is the `else` / `default` arm of a chain of
comparisons of an input-derived value against literals (unknown keyword in the input).
"""
from engine.cfg import NullFlow, TOP, strip_casts, ptr_key, cond_facts, bool_local_init
from engine.facts import walk, call_args, member_call_object, expr_str
from rules.null_rules import short, occurrence_tag, _producer_in

ASSERT_MACROS = ("ABG_ASSERT", "assert")
# value-preserving wrappers: the result is the input value in another representation
WRAPPERS = ("build_sptr", "unescape_xml_string", "escape_xml_string", "atoi", "atoll", "strtoull", "strtoll",
            "strtoul", "strtol", "string", "basic_string", "gelf_getshdr")


def assertion_sites(f):
    """[(site node, condition expr or None, kind)]"""
    out = []
    seen_lines = set()
    for n in f.nodes():
        if n["k"] == "VarDecl" and f.macro(n) == "ABG_ASSERT" and (f.decl(n) or {}).get("n") == "__abg_cond__":
            cond = n["c"][0] if n.get("c") else None
            # bool(cond): strip the functional cast
            c0 = cond
            while c0 is not None and c0["k"] in ("CXXFunctionalCastExpr", "CStyleCastExpr", "CXXStaticCastExpr"):
                c0 = c0["c"][0]
            out.append((n, c0, "ABG_ASSERT"))
        elif n["k"] == "ConditionalOperator" and f.macro(n) == "assert":
            out.append((n, n["c"][0], "assert"))
        elif n["k"] == "CallExpr" and (f.decl(n) or {}).get("n") in ("abort",) and f.macro(n) not in ASSERT_MACROS:
            out.append((n, None, "abort" if f.macro(n) != "ABG_ASSERT_NOT_REACHED" else "ABG_ASSERT_NOT_REACHED"))
    return out


def atoms(f, cond):
    """conjunctive atoms of an asserted condition"""
    n = strip_casts(cond)
    if n is None:
        return []
    if n["k"] == "BinaryOperator" and n.get("op") == "&&":
        return atoms(f, n["c"][0]) + atoms(f, n["c"][1])
    return [n]


def local_defs(f):
    """decl index -> list of defining expressions"""
    d = getattr(f, "_localdefs", None)
    if d is None:
        d = {}
        for n in f.nodes():
            if n["k"] == "VarDecl" and n.get("c") and n["c"][0] is not None:
                d.setdefault(n.get("d"), []).append(n["c"][0])
            elif n["k"] == "CXXOperatorCallExpr" and n.get("op") == "=" and len(n["c"]) == 3:
                l = strip_casts(n["c"][1])
                if l is not None and l["k"] == "DeclRefExpr":
                    d.setdefault(l.get("d"), []).append(n["c"][2])
            elif n["k"] == "BinaryOperator" and n.get("op") == "=":
                l = strip_casts(n["c"][0])
                if l is not None and l["k"] == "DeclRefExpr":
                    d.setdefault(l.get("d"), []).append(n["c"][1])
            elif n["k"] == "CallExpr":
                # locals filled through an out-parameter of a read_xxx(xml node, out&) helper
                cd = f.decl(n)
                if cd is not None and cd["n"].startswith("read_"):
                    pts = cd.get("pt", [])
                    takes_node = any("_xmlNode" in (f.unit.type(t) or {}).get("c", "") for t in pts)
                    if takes_node:
                        for i, a in enumerate(call_args(n)):
                            pt = f.unit.type(pts[i]) if i < len(pts) else None
                            a0 = strip_casts(a)
                            if pt is not None and pt.get("ref") and not pt.get("const") and a0 is not None \
                                    and a0["k"] == "DeclRefExpr":
                                d.setdefault(a0.get("d"), []).append(("OUT", cd["n"]))
        f._localdefs = d
    return d


def derived_from(f, e, pred, depth=0, vsteps=0):
    """name of the callee satisfying pred from which e derives through value-preserving wrappers and
    at most two local-variable steps"""
    e = strip_casts(e)
    if e is None or depth > 12:
        return None
    pn = _producer_in(f, e, pred)
    if pn:
        return pn
    if e["k"] in ("CXXConstructExpr", "CXXFunctionalCastExpr", "CXXMemberCallExpr", "CXXTemporaryObjectExpr") \
            and e.get("c"):
        # conversions such as string(reinterpret_cast<char*>(x.get())), x.get()
        if e["k"] == "CXXMemberCallExpr" and (f.decl(e) or {}).get("n") not in ("get", "c_str", "str", "operator bool") \
                and not (f.decl(e) or {}).get("n", "").startswith("operator "):
            return None
        for c in e["c"]:
            r = derived_from(f, c, pred, depth + 1, vsteps)
            if r:
                return r
    if e["k"] == "CallExpr" and (f.decl(e) or {}).get("n") in WRAPPERS:
        for c in call_args(e):
            r = derived_from(f, c, pred, depth + 1, vsteps)
            if r:
                return r
    if e["k"] == "MemberExpr" and e.get("c"):
        return derived_from(f, e["c"][0], pred, depth + 1, vsteps)
    if e["k"] == "CXXOperatorCallExpr" and e.get("op") in ("->", "*") and len(e.get("c", [])) == 2:
        return derived_from(f, e["c"][1], pred, depth + 1, vsteps)
    if e["k"] == "DeclRefExpr" and vsteps < 2:
        for rhs in local_defs(f).get(e.get("d"), []):
            if isinstance(rhs, tuple):
                if pred({"n": "<xml-out-param>", "q": ""}):
                    return rhs[1]
                continue
            r = derived_from(f, rhs, pred, depth + 1, vsteps + 1)
            if r:
                return r
    return None


def tainted_locals(f, accessors):
    """{decl index: accessor name}: locals that hold input text, propagated flow-insensitively through
    copies/conversions, string streams (constructor + getline), containers (push_back, iteration) and
    iterators over tainted containers.  Used for the lookup-miss form of R-INASSERT."""
    cache = getattr(f, "_tainted", None)
    if cache is not None and cache[0] is accessors:
        return cache[1]
    t = {}

    def src_of(e, depth=0):
        e = strip_casts(e)
        if e is None or depth > 10:
            return None
        r = derived_from(f, e, accessors)
        if r:
            return r
        for x in walk(e):
            if x["k"] == "DeclRefExpr" and x.get("d") in t:
                return t[x["d"]]
        return None
    changed = True
    rounds = 0
    while changed and rounds < 8:
        changed = False
        rounds += 1
        for n in f.nodes():
            k = n["k"]
            tgt = src = None
            if k == "VarDecl" and n.get("c") and n["c"][0] is not None:
                tgt, src = n.get("d"), src_of(n["c"][0])
            elif k == "CXXOperatorCallExpr" and n.get("op") in ("=", "+=") and len(n["c"]) == 3:
                l = strip_casts(n["c"][1])
                if l is not None and l["k"] == "DeclRefExpr":
                    tgt, src = l.get("d"), src_of(n["c"][2])
            elif k == "BinaryOperator" and n.get("op") == "=":
                l = strip_casts(n["c"][0])
                if l is not None and l["k"] == "DeclRefExpr":
                    tgt, src = l.get("d"), src_of(n["c"][1])
            elif k == "CallExpr" and (f.decl(n) or {}).get("n") == "getline":
                a = call_args(n)
                if len(a) >= 2:
                    o = strip_casts(a[1])
                    if o is not None and o["k"] == "DeclRefExpr":
                        tgt, src = o.get("d"), src_of(a[0])
            elif k == "CXXMemberCallExpr" and (f.decl(n) or {}).get("n") in ("push_back", "emplace_back", "insert"):
                o = strip_casts(member_call_object(n))
                if o is not None and o["k"] == "DeclRefExpr" and call_args(n):
                    tgt, src = o.get("d"), src_of(call_args(n)[-1])
            elif k == "CXXForRangeStmt":
                tgt, src = n.get("d"), src_of(n["c"][0])
            if tgt is not None and src and tgt not in t:
                t[tgt] = src
                changed = True
    f._tainted = (accessors, t)
    return t


def lookup_miss(f, atom, accessors):
    """atom is `it != m.end()` (asserted) where `it` was produced by `m.find(key)` and key holds input text.
    Returns (key text, accessor) or None."""
    a = strip_casts(atom)
    if a is None or a["k"] not in ("CXXOperatorCallExpr", "BinaryOperator") or a.get("op") != "!=":
        return None
    ops = call_args(a) if a["k"] == "CXXOperatorCallExpr" else a["c"]
    it = end = None
    for o in ops:
        o0 = strip_casts(o)
        while o0 is not None and o0["k"] == "CXXConstructExpr" and len(o0.get("c", [])) == 1:
            o0 = strip_casts(o0["c"][0])
        if o0 is None:
            continue
        if o0["k"] == "CXXMemberCallExpr" and (f.decl(o0) or {}).get("n") in ("end", "cend"):
            end = o0
        elif o0["k"] == "DeclRefExpr":
            it = o0
    if it is None or end is None:
        return None
    t = tainted_locals(f, accessors)
    for rhs in local_defs(f).get(it.get("d"), []):
        if isinstance(rhs, tuple):
            continue
        for x in walk(rhs):
            if x["k"] == "CXXMemberCallExpr" and (f.decl(x) or {}).get("n") == "find" and call_args(x):
                key = call_args(x)[0]
                # m[key] / m.insert(..key..) executed before the find creates the entry: the lookup cannot miss
                mtxt, ktxt = expr_str(f, member_call_object(x)), expr_str(f, key)
                created = False
                for y in f.nodes():
                    if (y["l"], y["i"]) >= (x["l"], x["i"]):
                        break
                    if y["k"] == "CXXOperatorCallExpr" and y.get("op") == "[]" and len(y["c"]) == 3 and \
                            expr_str(f, y["c"][1]) == mtxt and expr_str(f, y["c"][2]) == ktxt and \
                            _dominates_simple(f, y, x):
                        created = True
                if created:
                    return None
                for y in walk(key):
                    if y["k"] == "DeclRefExpr" and y.get("d") in t:
                        return expr_str(f, key), t[y["d"]]
                r = derived_from(f, key, accessors)
                if r:
                    return expr_str(f, key), r
    return None


def run(ctx, P, funcs, prop, producers=None, accessors=None, rule="R-INASSERT", undecided=None):
    """undecided: {entity: reason} - sites the one-step slice classifies as input-derived but for which no
    failing input could be constructed; they are neither reported nor claimed (listed in the evidence notes)."""
    producers = producers or (lambda d: False)
    accessors = accessors or (lambda d: False)
    undecided = undecided or {}
    real_ob = ctx.ob

    def ob(rule_, ent, ok, loc="", detail=""):
        base = ent.split(" #")[0]
        if not ok and base in undecided:
            ctx.note("%s %s at %s: classified input-derived but not replayable - not decided (%s)" % (
                rule_, ent, loc, undecided[base]))
            return True
        return real_ob(rule_, ent, ok, loc, detail)
    ctx = _Proxy(ctx, ob)
    n_sites = n_input = 0
    for f in sorted(funcs, key=lambda x: (x.file, x.l0)):
        if f.dep or f.cfg() is None:
            continue
        sites = assertion_sites(f)
        if not sites:
            continue
        ctx.analysed(f)
        nf = None
        seen = {}
        for site, cond, kind in sites:
            n_sites += 1
            if cond is None:
                r = classify_abort(f, site, accessors, producers)
                if r:
                    n_input += 1
                    ent = "%s: %s() reached on input-dependent condition over %s" % (short(f), kind, r.split(" (")[0])
                    ent += occurrence_tag(seen, ent)
                    ctx.ob(rule, ent, False, f.loc(site),
                           "%s() is guarded only by a condition over `%s`: input chooses whether the process aborts"
                           % (kind, r))
                continue
            for a in atoms(f, cond):
                # ---- null form
                facts_needed = cond_facts(f, a, True)
                nn_keys = [k for t, k in facts_needed if t == "nn"]
                src = None
                for x in walk(a):
                    if x["k"] in ("DeclRefExpr", "CallExpr", "CXXMemberCallExpr") and ptr_key(f, x) in nn_keys:
                        src = derived_from(f, x, producers)
                        if src:
                            break
                if nn_keys and src:
                    if nf is None:
                        nf = NullFlow(f).solve()
                    st = nf.before(site)
                    if st is TOP:
                        continue
                    n_input += 1
                    ok = all(("nn", k) in st for k in nn_keys)
                    ent = "%s: %s(%s)" % (short(f), kind, expr_str(f, a))
                    ent += occurrence_tag(seen, ent)
                    ctx.ob(rule, ent, ok, f.loc(site),
                           "asserted non-null fact is already established by a dominating check" if ok else
                           "`%s` comes from %s() applied to input and can be null here: the assertion aborts the "
                           "process on such input" % (expr_str(f, a), src))
                    continue
                # ---- lookup-miss form:  it = m.find(<input text>);  ABG_ASSERT(it != m.end())
                lm = lookup_miss(f, a, accessors)
                if lm:
                    n_input += 1
                    ok = established(f, site, a)
                    ent = "%s: %s(%s)" % (short(f), kind, expr_str(f, a))
                    ent += occurrence_tag(seen, ent)
                    ctx.ob(rule, ent, ok, f.loc(site),
                           "the lookup is already known to have succeeded" if ok else
                           "the asserted lookup uses the key `%s`, text taken from the input by %s(): a name the "
                           "document does not define aborts the process" % lm)
                    continue
                # ---- value form
                vsrc = None
                for x in walk(a):
                    if x["k"] in ("DeclRefExpr", "CallExpr", "CXXMemberCallExpr", "MemberExpr"):
                        vsrc = derived_from(f, x, accessors)
                        if vsrc:
                            break
                if vsrc and not nn_keys:
                    n_input += 1
                    ok = established(f, site, a)
                    ent = "%s: %s(%s)" % (short(f), kind, expr_str(f, a))
                    ent += occurrence_tag(seen, ent)
                    ctx.ob(rule, ent, ok, f.loc(site),
                           "asserted condition is already established by a dominating check" if ok else
                           "the asserted condition depends on `%s`, a value taken from the input by %s(): input "
                           "that violates it aborts the process" % (expr_str(f, a), vsrc))
    return n_sites, n_input


class _Proxy(object):
    def __init__(self, ctx, ob):
        self._ctx, self.ob = ctx, ob

    def __getattr__(self, k):
        return getattr(self._ctx, k)


def established(f, site, atom):
    """the same condition text is tested by a dominating branch whose failing arm leaves (returns),
    or asserted by an earlier assertion of the same function"""
    want = expr_str(f, atom)
    for s2, c2, k2 in assertion_sites(f):
        if s2["i"] == site["i"]:
            break
        if c2 is not None and any(expr_str(f, a) == want for a in atoms(f, c2)) and _dominates_simple(f, s2, site):
            return True
    for anc in f.ancestors(site):
        if anc["k"] == "IfStmt":
            c = anc["c"][0]
            if want in expr_str(f, c):
                return True
    # preceding early-return guards in the same compound statement
    prev = site
    for anc in f.ancestors(site):
        if anc["k"] == "CompoundStmt":
            for s in anc.get("c", []):
                if s is None:
                    continue
                if s["i"] == prev["i"]:
                    break
                if s["k"] == "IfStmt" and s["c"][1] is not None:
                    body = s["c"][1]
                    leaves = any(x["k"] in ("ReturnStmt", "ContinueStmt", "BreakStmt") for x in walk(body))
                    neg = "!" + want
                    txt = expr_str(f, s["c"][0])
                    if leaves and (neg in txt or ("!(" + want + ")") in txt):
                        return True
        prev = anc
    return False


def classify_abort(f, site, accessors, producers=None):
    """The abort() is input-controlled when the conditions that lead to it (the enclosing if / else-if
    chain) test a value that derives from an input accessor or from a nullable producer applied to
    input.  Returns a short description of that condition, or None."""
    prev = site
    conds = []
    for anc in f.ancestors(site):
        if anc["k"] == "IfStmt":
            conds.append(anc["c"][0])
            # continue upwards only through an else-if chain
            p = f.parent(anc)
            if p is not None and p["k"] == "IfStmt" and p["c"][2] is not None and p["c"][2]["i"] == anc["i"]:
                prev = anc
                continue
            break
        if anc["k"] in ("CompoundStmt",):
            prev = anc
            continue
        if anc["k"] in ("DefaultStmt", "CaseStmt", "SwitchStmt"):
            if anc["k"] == "SwitchStmt":
                conds.append(anc["c"][0])
                break
            prev = anc
            continue
        break
    for cond in conds:
        for x in walk(cond):
            if x["k"] in ("DeclRefExpr", "CallExpr", "CXXMemberCallExpr"):
                d = f.decl(x)
                if x["k"] == "DeclRefExpr" and (d or {}).get("k") not in ("Var", "ParmVar"):
                    continue
                # nullness of a nullable producer's result is not used here: `if (a = is_A(v)) .. else if
                # (b = is_B(v)) .. else abort()` is an exhaustive dispatch over a closed class hierarchy
                r = derived_from(f, x, accessors)
                if r:
                    return "%s (from %s)" % (expr_str(f, x), r)
                if x["k"] == "DeclRefExpr" and d["k"] == "ParmVar" and _is_string_type(f.unit.type(d.get("t"))) and \
                        any(y["k"] == "StringLiteral" for y in walk(cond)):
                    return "%s (string parameter compared with keywords)" % expr_str(f, x)
    return None


def _dominates_simple(f, early, late):
    """early is a statement of a compound statement that encloses late and precedes it"""
    chain = {x["i"] for x in [late] + list(f.ancestors(late))}
    # the assertion statement is the outermost node expanded from the assertion macro
    for anc in f.ancestors(early):
        if f.macro(anc) in ASSERT_MACROS and anc["k"] != "FunctionBody":
            early = anc
        else:
            break
    prev = early
    for anc in f.ancestors(early):
        if anc["k"] == "CompoundStmt":
            seen_prev = False
            for s in anc.get("c", []):
                if s is None:
                    continue
                if s["i"] == prev["i"]:
                    seen_prev = True
                elif seen_prev and s["i"] in chain:
                    return True
            return False
        if anc["k"] in ("IfStmt", "ForStmt", "WhileStmt", "SwitchStmt", "CXXForRangeStmt", "DoStmt"):
            return False
        prev = anc
    return False


def _contains(root, node):
    return any(x["i"] == node["i"] for x in walk(root))


def _is_string_type(t):
    return t is not None and "basic_string<char" in t["c"]
