"""R-INASSERT: no assertion / abort on input-derived data.

An assertion site is ABG_ASSERT(e), assert(e), or a call of abort() / ABG_ASSERT_NOT_REACHED.
Its condition is decomposed into atoms; an atom is *input-derived* when

  (null form)   it tests non-nullness of (a variable holding) the result of a nullable producer
                that is applied to input data (table per scope), and
  (value form)  it compares / tests emptiness of (a variable directly assigned from) an input
                accessor (table per scope),

and the asserted fact is *not already established* on every path reaching the assertion
(dominating check of the same fact).  Assertions whose atoms are all internal, or already
established, are consistency checks and are not reported.  The classification is deliberately
one step deep so that every report can be replayed with a concrete input.

abort() / ABG_ASSERT_NOT_REACHED: reported when it is the `else` / `default` arm of a chain of
comparisons of an input-derived value against literals (unknown keyword in the input).
"""
from engine.cfg import NullFlow, TOP, strip_casts, ptr_key, cond_facts, bool_local_init
from engine.facts import walk, call_args, member_call_object, expr_str
from rules.null_rules import short, occurrence_tag, _producer_in

ASSERT_MACROS = ("ABG_ASSERT", "assert")


def assertion_sites(f):
    """[(site node, condition expr or None, kind)]"""
    out = []
    seen_lines = set()
    for n in f.nodes():
        if n["k"] == "VarDecl" and f.macro(n) == "ABG_ASSERT" and (f.decl(n) or {}).get("n") == "__abg_cond__":
            cond = n["c"][0] if n.get("c") else None
            # bool(cond): strip the functional cast
            c0 = cond
            while c0 is not None and c0["k"] in ("CXXFunctionalCastExpr", "CStyleCastExpr", "CXXStaticCastExpr"):
                c0 = c0["c"][0]
            out.append((n, c0, "ABG_ASSERT"))
        elif n["k"] == "ConditionalOperator" and f.macro(n) == "assert":
            out.append((n, n["c"][0], "assert"))
        elif n["k"] == "CallExpr" and (f.decl(n) or {}).get("n") in ("abort",) and f.macro(n) not in ASSERT_MACROS:
            out.append((n, None, "abort" if f.macro(n) != "ABG_ASSERT_NOT_REACHED" else "ABG_ASSERT_NOT_REACHED"))
    return out


def atoms(f, cond):
    """conjunctive atoms of an asserted condition"""
    n = strip_casts(cond)
    if n is None:
        return []
    if n["k"] == "BinaryOperator" and n.get("op") == "&&":
        return atoms(f, n["c"][0]) + atoms(f, n["c"][1])
    return [n]


def local_defs(f):
    """decl index -> list of defining expressions"""
    d = getattr(f, "_localdefs", None)
    if d is None:
        d = {}
        for n in f.nodes():
            if n["k"] == "VarDecl" and n.get("c") and n["c"][0] is not None:
                d.setdefault(n.get("d"), []).append(n["c"][0])
            elif n["k"] == "CXXOperatorCallExpr" and n.get("op") == "=" and len(n["c"]) == 3:
                l = strip_casts(n["c"][1])
                if l is not None and l["k"] == "DeclRefExpr":
                    d.setdefault(l.get("d"), []).append(n["c"][2])
            elif n["k"] == "BinaryOperator" and n.get("op") == "=":
                l = strip_casts(n["c"][0])
                if l is not None and l["k"] == "DeclRefExpr":
                    d.setdefault(l.get("d"), []).append(n["c"][1])
        f._localdefs = d
    return d


def derived_from(f, e, pred, depth=0):
    """name of the callee satisfying pred from which e derives in at most one local-variable step"""
    e = strip_casts(e)
    if e is None:
        return None
    pn = _producer_in(f, e, pred)
    if pn:
        return pn
    if e["k"] in ("CXXConstructExpr", "CXXFunctionalCastExpr", "CXXMemberCallExpr") and e.get("c") and depth < 3:
        # conversions such as string(reinterpret_cast<char*>(x.get())), x.get()
        for c in e["c"]:
            r = derived_from(f, c, pred, depth + 1)
            if r:
                return r
    if e["k"] == "MemberExpr" and e.get("c"):
        return derived_from(f, e["c"][0], pred, depth + 1)
    if e["k"] == "DeclRefExpr" and depth < 2:
        for rhs in local_defs(f).get(e.get("d"), []):
            r = derived_from(f, rhs, pred, depth + 2)
            if r:
                return r
    return None


def run(ctx, P, funcs, prop, producers=None, accessors=None, rule="R-INASSERT"):
    producers = producers or (lambda d: False)
    accessors = accessors or (lambda d: False)
    n_sites = n_input = 0
    for f in sorted(funcs, key=lambda x: (x.file, x.l0)):
        if f.dep or f.cfg() is None:
            continue
        sites = assertion_sites(f)
        if not sites:
            continue
        ctx.analysed(f)
        nf = None
        seen = {}
        for site, cond, kind in sites:
            n_sites += 1
            if cond is None:
                r = classify_abort(f, site, accessors)
                if r:
                    n_input += 1
                    ent = "%s: %s after unmatched %s" % (short(f), kind, r)
                    ent += occurrence_tag(seen, ent)
                    ctx.ob(rule, ent, False, f.loc(site),
                           "%s() is the fall-through arm of a chain of comparisons of `%s`, a value taken from the "
                           "input: an unknown keyword aborts the process" % (kind, r))
                continue
            for a in atoms(f, cond):
                # ---- null form
                facts_needed = cond_facts(f, a, True)
                nn_keys = [k for t, k in facts_needed if t == "nn"]
                src = None
                for x in walk(a):
                    if x["k"] in ("DeclRefExpr", "CallExpr", "CXXMemberCallExpr"):
                        src = derived_from(f, x, producers)
                        if src:
                            break
                if nn_keys and src:
                    if nf is None:
                        nf = NullFlow(f).solve()
                    st = nf.before(site)
                    if st is TOP:
                        continue
                    n_input += 1
                    ok = all(("nn", k) in st for k in nn_keys)
                    ent = "%s: %s(%s)" % (short(f), kind, expr_str(f, a))
                    ent += occurrence_tag(seen, ent)
                    ctx.ob(rule, ent, ok, f.loc(site),
                           "asserted non-null fact is already established by a dominating check" if ok else
                           "`%s` comes from %s() applied to input and can be null here: the assertion aborts the "
                           "process on such input" % (expr_str(f, a), src))
                    continue
                # ---- value form
                vsrc = None
                for x in walk(a):
                    if x["k"] in ("DeclRefExpr", "CallExpr", "CXXMemberCallExpr", "MemberExpr"):
                        vsrc = derived_from(f, x, accessors)
                        if vsrc:
                            break
                if vsrc and not nn_keys:
                    n_input += 1
                    ok = established(f, site, a)
                    ent = "%s: %s(%s)" % (short(f), kind, expr_str(f, a))
                    ent += occurrence_tag(seen, ent)
                    ctx.ob(rule, ent, ok, f.loc(site),
                           "asserted condition is already established by a dominating check" if ok else
                           "the asserted condition depends on `%s`, a value taken from the input by %s(): input "
                           "that violates it aborts the process" % (expr_str(f, a), vsrc))
    return n_sites, n_input


def established(f, site, atom):
    """the same condition text is tested by a dominating branch whose failing arm leaves (returns)"""
    want = expr_str(f, atom)
    for anc in f.ancestors(site):
        if anc["k"] == "IfStmt":
            c = anc["c"][0]
            if want in expr_str(f, c):
                return True
    # preceding early-return guards in the same compound statement
    prev = site
    for anc in f.ancestors(site):
        if anc["k"] == "CompoundStmt":
            for s in anc.get("c", []):
                if s is None:
                    continue
                if s["i"] == prev["i"]:
                    break
                if s["k"] == "IfStmt" and s["c"][1] is not None:
                    body = s["c"][1]
                    leaves = any(x["k"] in ("ReturnStmt", "ContinueStmt", "BreakStmt") for x in walk(body))
                    neg = "!" + want
                    txt = expr_str(f, s["c"][0])
                    if leaves and (neg in txt or ("!(" + want + ")") in txt):
                        return True
        prev = anc
    return False


def classify_abort(f, site, accessors):
    """if the abort is the final else of `if (v == "a") .. else if (v == "b") .. else abort()`, or the
    default arm of a switch, over an input-derived value: return the name of that value"""
    prev = site
    for anc in f.ancestors(site):
        if anc["k"] == "IfStmt" and anc["c"][2] is not None and _contains(anc["c"][2], prev):
            # walk up the else-if chain
            cond = anc["c"][0]
            for x in walk(cond):
                if x["k"] == "DeclRefExpr" and (f.decl(x) or {}).get("k") in ("Var", "ParmVar"):
                    if derived_from(f, x, accessors):
                        return expr_str(f, x)
                    d = f.decl(x)
                    if d["k"] == "ParmVar" and _is_string_type(f.unit.type(d.get("t"))) and \
                            any(y["k"] == "StringLiteral" for y in walk(cond)):
                        return expr_str(f, x)
            prev = anc
            continue
        if anc["k"] in ("CompoundStmt",):
            prev = anc
            continue
        break
    return None


def _contains(root, node):
    return any(x["i"] == node["i"] for x in walk(root))


def _is_string_type(t):
    return t is not None and "basic_string<char" in t["c"]
