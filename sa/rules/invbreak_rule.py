"""R-INVBREAK: a search loop looks at something different on every iteration.

`for (...) { if (C) break; ...advance... }` is a search: C is asked of the current element.  If nothing the loop writes is
read by C - no variable assigned, incremented, declared or handed out by address / non-const reference inside the loop, no
call, no member of an object the loop touches - C is decided before the loop starts: the loop does not search, it either
leaves at once or never through that exit.  (Engler et al.: a test whose outcome cannot change is a contradiction between
what the code does and what its author believed.)  Found once in the library: the walk over the Vernaux entries of a needed
file tested the same entry while stepping through the files, so every undefined symbol bound to another version than the
first one of its file lost its version.
"""
from engine.cfg import strip_casts
from engine.facts import walk, call_args, member_call_object, expr_str
from rules.null_rules import short


def _written_in(f, L):
    w = set()
    for x in walk(L):
        k = x["k"]
        if k in ("BinaryOperator", "CompoundAssignOperator", "CXXOperatorCallExpr") and (x.get("op") or "").endswith("=") and \
                x.get("op") not in ("==", "!=", "<=", ">="):
            a = call_args(x) if k == "CXXOperatorCallExpr" else x["c"]
            t = a[0] if a else None
            for y in (walk(t) if t is not None else []):
                if y["k"] == "DeclRefExpr":
                    w.add(y.get("d"))
        elif k in ("UnaryOperator", "CXXOperatorCallExpr") and x.get("op") in ("++", "--"):
            for y in walk(x):
                if y["k"] == "DeclRefExpr":
                    w.add(y.get("d"))
        elif k == "VarDecl":
            w.add(x.get("d"))
        if k in ("CallExpr", "CXXMemberCallExpr", "CXXConstructExpr"):
            d = f.decl(x) or {}
            pts = d.get("pt", [])
            for i, a in enumerate(call_args(x) or []):
                a0 = strip_casts(a)
                if a0 is None:
                    continue
                byaddr = a0["k"] == "UnaryOperator" and a0.get("op") == "&"
                pt = f.unit.type(pts[i]) if i < len(pts) else None
                byref = pt is not None and pt.get("ref") and not pt.get("const")
                if byaddr or byref:
                    for y in walk(a0):
                        if y["k"] == "DeclRefExpr":
                            w.add(y.get("d"))
            if k == "CXXMemberCallExpr" and not d.get("const"):
                o = member_call_object(x)
                for y in (walk(o) if o is not None else []):
                    if y["k"] == "DeclRefExpr":
                        w.add(y.get("d"))
    return w


def check(ctx, P, funcs, rule="R-INVBREAK"):
    n = 0
    for f in sorted(funcs, key=lambda x: (x.file, x.l0)):
        if f.dep or f.cfg() is None:
            continue
        seen = {}
        for L in f.nodes():
            if L["k"] not in ("ForStmt", "WhileStmt", "DoStmt"):
                continue
            body = L["c"][0] if L["k"] == "DoStmt" else L["c"][-1]
            if body is None:
                continue
            written = None
            for I in walk(body):
                if I["k"] != "IfStmt" or I["c"][0] is None or I["c"][1] is None:
                    continue
                then = I["c"][1]
                brk = then["k"] == "BreakStmt" or (then["k"] == "CompoundStmt" and any(
                    c is not None and c["k"] == "BreakStmt" for c in then.get("c", [])))
                if not brk:
                    continue
                anc = [a for a in f.ancestors(I) if a["k"] in ("ForStmt", "WhileStmt", "DoStmt", "CXXForRangeStmt", "SwitchStmt")]
                if not anc or anc[0] is not L:
                    continue
                cond = I["c"][0]
                reads = {y.get("d") for y in walk(cond) if y["k"] == "DeclRefExpr" and (f.decl(y) or {}).get("k") in ("Var", "ParmVar")}
                opaque = any(y["k"] in ("CallExpr", "CXXMemberCallExpr", "CXXOperatorCallExpr") for y in walk(cond)) or any(
                    y["k"] == "MemberExpr" and (f.decl(y) or {}).get("k") == "Field" and not any(z["k"] == "DeclRefExpr" for z in walk(y))
                    for y in walk(cond))
                if not reads or opaque:
                    continue
                if written is None:
                    written = _written_in(f, L)
                n += 1
                ctx.analysed(f)
                ok = bool(reads & written)
                ent = "%s: the exit test `%s` of the loop looks at something the loop changes" % (short(f), expr_str(f, cond)[:50])
                seen[ent] = seen.get(ent, 0) + 1
                if seen[ent] > 1:
                    ent += " #%d" % seen[ent]
                ctx.ob(rule, ent, ok, f.loc(I),
                       "reads %s, written in the loop" % ", ".join(sorted((f.unit.decl(d) or {}).get("n", "?") for d in reads & written)) if ok else
                       "nothing `%s` reads (%s) is written inside the loop: the test has the same outcome on every iteration - the "
                       "loop steps over its elements without looking at them" % (
                           expr_str(f, cond)[:50], ", ".join(sorted((f.unit.decl(d) or {}).get("n", "?") for d in reads))))
    return n
