"""C33 - the ABIXML reader never crashes or aborts on malformed input (three fault classes)."""
import json
import os

from rules import null_rules as nr
from rules import idx_rule, inassert_rule

TABLES = os.path.join(os.path.dirname(os.path.dirname(os.path.abspath(__file__))), "tables")
READER_FILES = ("src/abg-reader.cc", "src/abg-libxml-utils.cc")
TOOL_FILES = ("tools/abilint.cc", "tools/abidiff.cc", "tools/abidw.cc", "tools/kmidiff.cc", "tools/abicompat.cc")
LOADERS = {"read_corpus_from_input", "read_corpus_group_from_input", "read_translation_unit_from_file",
           "read_translation_unit_from_istream", "read_corpus_from_native_xml", "read_corpus_from_native_xml_file",
           "read_corpus_group_from_native_xml_file", "read_translation_unit_from_input"}


def run(ctx):
    ctx.clause = ("in the ABIXML reader and the tools' ABIXML read paths: results of nullable producers are checked "
                  "before use, constant subscripts on input-filled vectors are size-guarded, and no assertion / abort "
                  "depends on a value taken from the document without a dominating check")
    ctx.rules = ["R-NULLABLE", "R-IDX", "R-INASSERT", "R-VFNCLASS", "R-FILTERSYM", "R-TYPECYCLE"]
    with open(os.path.join(TABLES, "c33_tables.json")) as fh:
        T = json.load(fh)
    P = ctx.program(None)
    producers = set(T["producers"])
    accessors = set(T["accessors"])
    prod = lambda d: d["n"] in producers
    acc = lambda d: d["n"] in accessors
    rfuncs = [f for f in P.all_funcs() if f.relfile.endswith(READER_FILES)]
    # the producer table is kept honest: a listed repo function must be able to return null
    for f in rfuncs:
        if f.n in producers and not f.dep:
            pass
    und = T.get("nullable_undecided", {})

    def setter_gen(f, n):
        """x.set_corpus(<non-null>) makes x.get_corpus() non-null (setter / getter pair of the read context)"""
        from engine.cfg import definitely_nonnull, strip_casts
        from engine.facts import call_args, member_call_object, expr_str
        if n["k"] == "CXXMemberCallExpr" and ((f.decl(n) or {}).get("n") or "").startswith("set_") and len(call_args(n)) == 1 \
                and definitely_nonnull(f, call_args(n)[0]):
            o = strip_casts(member_call_object(n))
            if o is not None:
                return [("nn", "%s.get_%s()" % (expr_str(f, o), f.decl(n)["n"][4:]))]
        return None
    n = nr.nullable_derefs(ctx, P, [f for f in rfuncs if nr.short(f) not in und], prod, extra_gen=setter_gen)
    for k_, e_ in sorted(und.items()):
        ctx.note("R-NULLABLE %s: results of %s not decided (%s)" % (k_, "/".join(e_["producers"]), e_["why"]))
        rest = producers - set(e_["producers"])
        n += nr.nullable_derefs(ctx, P, [f for f in rfuncs if nr.short(f) == k_], lambda d, rest=rest: d["n"] in rest, extra_gen=setter_gen)
    ctx.floor("R-NULLABLE", "dereferences of nullable producer results in the reader", n, 35)
    tfuncs = [f for f in P.all_funcs() if f.relfile.endswith(TOOL_FILES)]
    n2 = nr.nullable_derefs(ctx, P, tfuncs, lambda d: d["n"] in LOADERS)
    ctx.floor("R-NULLABLE", "dereferences of ABIXML loader results in the tools", n2, 8)
    internal = T["idx_internal"]
    k = idx_rule.run(ctx, P, [f for f in rfuncs if f.n not in internal], "C33")
    for fn, why in internal.items():
        ctx.note("R-IDX: %s not decided here: %s" % (fn, why))
    ctx.floor("R-IDX", "constant subscripts in the reader", k, 2)
    ns, ni = inassert_rule.run(ctx, P, rfuncs, "C33", producers=prod, accessors=acc, undecided=T["undecided"])
    ctx.floor("R-INASSERT", "assertion sites in the reader", ns, 100)
    ctx.floor("R-INASSERT", "input-derived assertion atoms in the reader", ni, 20)
    from rules import vfn_rule
    vfn_rule.check(ctx, P)
    check_filtersym(ctx, P)
    check_typecycle(ctx, P, T)
    for fn, why in T["not_producers"].items():
        ctx.note("not in the nullable-producer table: %s - %s" % (fn, why))
    ctx.assume("general memory safety of the reader beyond these three fault classes is not decided")



REGISTER = ("key_type_decl", "push_and_key_type_decl", "map_xml_node_to_decl")


def check_typecycle(ctx, P, T):
    """R-TYPECYCLE: type ids may refer to each other in a cycle (a document can say anything).  The reader resolves a
    referenced id by building the element that carries it (read_context::build_or_get_type_decl -> build_type -> build_X);
    the recursion ends only if an element that is being built can already be found by its id.  For every builder that
    registers what it builds (key_type_decl / push_and_key_type_decl / map_xml_node_to_decl), every path from its entry to
    a resolution of a referenced type id passes that registration first (the pointer, reference and class builders say so
    in a comment).  A builder that resolves first re-enters itself for `<typedef-decl type-id='t' id='t'/>` until the
    stack is exhausted."""
    from engine.facts import walk, call_args
    from rules.world import World
    from engine.compdb import AnalysisBroken
    n = 0
    und = T.get("typecycle_undecided", {})
    for f in sorted(P.all_funcs(), key=lambda x: x.l0):
        if f.dep or f.cfg() is None or not f.relfile.endswith("src/abg-reader.cc") or not f.n.startswith("build_"):
            continue
        res = [x for x in f.nodes() if x["k"] == "CXXMemberCallExpr" and (f.decl(x) or {}).get("n") == "build_or_get_type_decl"]
        reg = [x for x in f.nodes() if x["k"] in ("CXXMemberCallExpr", "CallExpr") and (f.decl(x) or {}).get("n") in REGISTER]
        if not res or not reg:
            continue
        if f.n in und:
            ctx.note("R-TYPECYCLE %s: not decided (%s)" % (f.n, und[f.n]))
            continue
        n += 1
        ctx.analysed(f)
        regids = {x["i"] for x in reg}
        resids = {x["i"] for x in res}
        # every path to a resolution passes a registration: search a path that reaches a resolution with none before
        cfg = f.cfg()
        W = World(f, lambda e: None)
        seen, stack, bad = set(), [cfg.entry], None
        while stack and bad is None:
            b = stack.pop()
            if b in seen or b not in cfg.blocks:
                continue
            seen.add(b)
            cut = False
            for e in cfg.blocks[b].elems:
                if e["i"] in regids:
                    cut = True
                    break
                if e["i"] in resids:
                    bad = e
                    break
                if e["k"] == "ReturnStmt":
                    cut = True
                    break
            if not cut and bad is None and not cfg.blocks[b].noret:
                stack.extend(s_ for s_ in cfg.blocks[b].succs if s_ is not None)
        ctx.ob("R-TYPECYCLE", "%s registers the type it builds before it resolves the type ids the element refers to" % f.n,
               bad is None, f.loc(bad) if bad is not None else f.loc(),
               "every path to build_or_get_type_decl() passes %s" % "/".join(sorted({(f.decl(x) or {}).get("n") for x in reg})) if bad is None else
               "build_or_get_type_decl() is reached before the element's own id can be found: an element whose type-id designates "
               "itself (or a cycle of such elements) makes the reader recurse until the stack is exhausted")
    ctx.floor("R-TYPECYCLE", "builders of referencable types in the ABIXML reader", n, 8)


# A declaration read from ABIXML has a symbol only if its elf-symbol-id resolves; the reader silently leaves it without one
# otherwise.  The category filters of abg-comp-filter.cc run on *every* diff node of a comparison, so they meet such
# declarations: every dereference of a get_symbol() result there needs a non-null fact.
FILTERSYM_EXCEPTIONS = {
    "has_benign_infinite_array_change": "the dereferences are reached only for a var_diff whose first variable has a symbol and whose "
                                        "second has none: top-level var_diffs pair exported variables (both have symbols: C17 R-EXPGATE / "
                                        "R-PUBSYM), data-member var_diffs of non-static members return on the first test, and static "
                                        "members are compared as top-level variables (tried with ELF and ABIXML inputs: not reachable)",
}


def check_filtersym(ctx, P):
    funcs = [f for f in P.all_funcs() if not f.dep and f.relfile == "src/abg-comp-filter.cc" and f.n not in FILTERSYM_EXCEPTIONS]
    n = nr.nullable_derefs(ctx, P, funcs, lambda d: d["n"] == "get_symbol" and any(
        k_ in (d.get("cls") or "") for k_ in ("function_decl", "var_decl")), rule="R-FILTERSYM", per_var=True)
    for fn, why in FILTERSYM_EXCEPTIONS.items():
        ctx.note("R-FILTERSYM: %s is not decided: %s" % (fn, why))
    ctx.floor("R-FILTERSYM", "dereferences of get_symbol() results in the category filters", n, 2)
