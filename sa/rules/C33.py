"""C33 - the ABIXML reader never crashes or aborts on malformed input (three fault classes)."""
import json
import os

from rules import null_rules as nr
from rules import idx_rule, inassert_rule

TABLES = os.path.join(os.path.dirname(os.path.dirname(os.path.abspath(__file__))), "tables")
READER_FILES = ("src/abg-reader.cc", "src/abg-libxml-utils.cc")
TOOL_FILES = ("tools/abilint.cc", "tools/abidiff.cc", "tools/abidw.cc", "tools/kmidiff.cc", "tools/abicompat.cc")
LOADERS = {"read_corpus_from_input", "read_corpus_group_from_input", "read_translation_unit_from_file",
           "read_translation_unit_from_istream", "read_corpus_from_native_xml", "read_corpus_from_native_xml_file",
           "read_corpus_group_from_native_xml_file", "read_translation_unit_from_input"}


def run(ctx):
    ctx.clause = ("in the ABIXML reader and the tools' ABIXML read paths: results of nullable producers are checked "
                  "before use, constant subscripts on input-filled vectors are size-guarded, and no assertion / abort "
                  "depends on a value taken from the document without a dominating check")
    ctx.rules = ["R-NULLABLE", "R-IDX", "R-INASSERT", "R-VFNCLASS", "R-FILTERSYM"]
    with open(os.path.join(TABLES, "c33_tables.json")) as fh:
        T = json.load(fh)
    P = ctx.program(None)
    producers = set(T["producers"])
    accessors = set(T["accessors"])
    prod = lambda d: d["n"] in producers
    acc = lambda d: d["n"] in accessors
    rfuncs = [f for f in P.all_funcs() if f.relfile.endswith(READER_FILES)]
    # the producer table is kept honest: a listed repo function must be able to return null
    for f in rfuncs:
        if f.n in producers and not f.dep:
            pass
    n = nr.nullable_derefs(ctx, P, rfuncs, prod)
    ctx.floor("R-NULLABLE", "dereferences of nullable producer results in the reader", n, 35)
    tfuncs = [f for f in P.all_funcs() if f.relfile.endswith(TOOL_FILES)]
    n2 = nr.nullable_derefs(ctx, P, tfuncs, lambda d: d["n"] in LOADERS)
    ctx.floor("R-NULLABLE", "dereferences of ABIXML loader results in the tools", n2, 8)
    internal = T["idx_internal"]
    k = idx_rule.run(ctx, P, [f for f in rfuncs if f.n not in internal], "C33")
    for fn, why in internal.items():
        ctx.note("R-IDX: %s not decided here: %s" % (fn, why))
    ctx.floor("R-IDX", "constant subscripts in the reader", k, 2)
    ns, ni = inassert_rule.run(ctx, P, rfuncs, "C33", producers=prod, accessors=acc, undecided=T["undecided"])
    ctx.floor("R-INASSERT", "assertion sites in the reader", ns, 100)
    ctx.floor("R-INASSERT", "input-derived assertion atoms in the reader", ni, 20)
    from rules import vfn_rule
    vfn_rule.check(ctx, P)
    check_filtersym(ctx, P)
    for fn, why in T["not_producers"].items():
        ctx.note("not in the nullable-producer table: %s - %s" % (fn, why))
    ctx.assume("general memory safety of the reader beyond these three fault classes is not decided")



# A declaration read from ABIXML has a symbol only if its elf-symbol-id resolves; the reader silently leaves it without one
# otherwise.  The category filters of abg-comp-filter.cc run on *every* diff node of a comparison, so they meet such
# declarations: every dereference of a get_symbol() result there needs a non-null fact.
FILTERSYM_EXCEPTIONS = {
    "has_benign_infinite_array_change": "the dereferences are reached only for a var_diff whose first variable has a symbol and whose "
                                        "second has none: top-level var_diffs pair exported variables (both have symbols: C17 R-EXPGATE / "
                                        "R-PUBSYM), data-member var_diffs of non-static members return on the first test, and static "
                                        "members are compared as top-level variables (tried with ELF and ABIXML inputs: not reachable)",
}


def check_filtersym(ctx, P):
    funcs = [f for f in P.all_funcs() if not f.dep and f.relfile == "src/abg-comp-filter.cc" and f.n not in FILTERSYM_EXCEPTIONS]
    n = nr.nullable_derefs(ctx, P, funcs, lambda d: d["n"] == "get_symbol" and any(
        k_ in (d.get("cls") or "") for k_ in ("function_decl", "var_decl")), rule="R-FILTERSYM", per_var=True)
    for fn, why in FILTERSYM_EXCEPTIONS.items():
        ctx.note("R-FILTERSYM: %s is not decided: %s" % (fn, why))
    ctx.floor("R-FILTERSYM", "dereferences of get_symbol() results in the category filters", n, 2)
