"""Whole-program reachability rules: R-PRESENT (C12), R-NOLOC (C06), R-SHARED / R-LIBCMT (C31).

Call graph: direct calls exact, virtual calls expanded by class-hierarchy analysis, every
reference to a function outside a callee position (callbacks, thread start routines,
comparators) and every lambda counted as a call.  Unresolved indirect calls inside a closure
are listed in the evidence.
"""
import re

from engine.facts import walk, call_args, member_call_object, expr_str, CALL_KINDS
from engine.cfg import strip_casts
from engine.compdb import AnalysisBroken

VERDICT_EXACT = {
    "abigail::comparison::corpus_diff::has_changes",
    "abigail::comparison::corpus_diff::has_net_changes",
    "abigail::comparison::corpus_diff::has_incompatible_changes",
    "abigail::comparison::corpus_diff::has_net_subtype_changes",
    "abigail::comparison::corpus_diff::apply_filters_and_suppressions_before_reporting",
}


def verdict_roots(P):
    roots = []
    for u, f in P.funcs.items():
        if f.dep:
            continue
        q = f.q
        if re.match(r"abigail::comparison::compute_diff\b", q) or q in VERDICT_EXACT or \
                f.n == "diff_has_net_changes" or f.n.startswith("suppresses_") or \
                q.startswith("abigail::comparison::filtering::") or \
                (f.n in ("has_changes", "has_local_changes") and (f.cls or "").startswith("abigail::comparison::")):
            roots.append(u)
    return roots


def unresolved_in(P, closure):
    out = []
    for u in closure:
        f = P.funcs.get(u)
        if f is None or f.dep:
            continue
        for n in f.nodes():
            if n["k"] == "CallExpr" and not n.get("d"):
                out.append("%s: %s" % (f.sig, expr_str(f, n)[:80]))
    return out


# ------------------------------------------------------------------ R-PRESENT

PRESENTATION = {"show_locs", "show_hex_values", "show_offsets_sizes_in_bits", "show_relative_offset_changes",
                "show_linkage_names", "show_impacted_interfaces"}


def check_present(ctx, P):
    readers = {}
    for f in P.all_funcs():
        if f.dep:
            continue
        for n, d in f.calls():
            if d["n"] in PRESENTATION and d.get("cls") == "abigail::comparison::diff_context" and not d.get("pt"):
                readers.setdefault(f.u, []).append((n, d["n"]))
    ctx.floor("R-PRESENT", "functions reading a presentation flag", len(readers), 8)
    roots = verdict_roots(P)
    ctx.floor("R-PRESENT", "verdict entry points", len(roots), 80)
    seen = P.reach(roots)
    for u in seen:
        f = P.funcs.get(u)
        if f:
            ctx.analysed(f)
    hits = [u for u in seen if u in readers]
    for u in hits:
        f = P.funcs[u]
        path = P.path_to(seen, u)
        for n, flag in readers[u]:
            ctx.ob("R-PRESENT", "%s reads %s()" % (f.sig, flag), False, f.loc(n),
                   "a function reachable from the verdict reads a presentation flag: the option can change what is "
                   "computed, filtered or counted.  Call path: " + " -> ".join(p.split("(")[0] for p in path))
    ctx.ob("R-PRESENT", "no presentation-flag reader in the verdict closure (%d functions)" % len(seen), not hits, "",
           "readers are confined to: %s" % sorted({P.funcs[u].relfile for u in readers}))
    # positive control: from the reporting entry points the readers ARE reachable
    rep_roots = [u for u, f in P.funcs.items() if f.n == "report" and (f.cls or "").endswith("_reporter") and not f.dep]
    rep_seen = P.reach(rep_roots)
    ctl = [u for u in rep_seen if u in readers]
    ctx.ob("R-PRESENT/control", "positive control: readers are reachable from the reporters' report()", len(ctl) >= 5, "",
           "%d of %d reader functions reachable from %d report() roots (the same machinery finds a path when one exists)"
           % (len(ctl), len(readers), len(rep_roots)))
    # the options abidiff implements by blanking corpus fields (--no-corpus-path, --no-architecture)
    allowed = {
        "get_path": {
            "abigail::suppr::": "suppression matching on file names - excluded by the property's proviso (and only when the "
                                "value flows nowhere else than into matches_binary_name, see path_flows_only_to)",
            "abigail::comparison::corpus_diff::get_pretty_representation":
                "builds a diagnostic string that is never compared",
        },
        "get_architecture_name": {
            "abigail::comparison::compute_diff":
                "the architecture comparison itself: both sides are blanked together, so equal stays equal",
        },
    }
    for getter, table in allowed.items():
        for u in seen:
            f = P.funcs.get(u)
            if f is None or f.dep:
                continue
            for n, d in f.calls():
                if d["n"] != getter or d.get("cls") != "abigail::ir::corpus":
                    continue
                why = next((w for pre, w in table.items() if f.q.startswith(pre)), None)
                if getter == "get_architecture_name" and why:
                    # must be an (in)equality between the two corpora's architectures
                    par = f.parent(n)
                    while par is not None and par["k"] in ("CXXMemberCallExpr", "MemberExpr", "CXXConstructExpr"):
                        par = f.parent(par)
                    if par is None or par.get("op") not in ("==", "!="):
                        why = None
                if getter == "get_path" and why and f.q.startswith("abigail::suppr::"):
                    bad_use = path_flows_only_to(P, f, n, ("matches_binary_name",))
                    if bad_use:
                        ctx.ob("R-PRESENT", "verdict closure: %s uses corpus::get_path() only to match file_name properties" % f.q,
                               False, f.loc(n),
                               "the path of the corpus - which --no-corpus-path blanks for both inputs - also reaches %s: a "
                               "presentation option then changes what the suppression machinery computes" % bad_use)
                        continue
                ctx.ob("R-PRESENT", "verdict closure: %s reads corpus::%s()" % (f.q, getter), why is not None, f.loc(n),
                       why or "a blanked corpus field (--no-corpus-path / --no-architecture) is read by verdict code "
                       "in a way that is not the listed architecture comparison / suppression matching")
    for x in unresolved_in(P, seen)[:20]:
        ctx.unresolved.append(x)
    return seen


def path_flows_only_to(P, f, node, sinks, depth=0):
    """Follow the value of expression `node` (a call result) forward: through a local it initialises, through an
    argument position into a repo callee's parameter (every use of that parameter, recursively).  Returns None when
    every use ends as an argument of one of `sinks`, else a description of the first other use."""
    from engine.facts import call_args as _ca
    if depth > 4:
        return "a call chain deeper than 4"

    def uses_of_decl(g, decl_id):
        out = []
        for x in g.nodes():
            if x["k"] == "DeclRefExpr" and x.get("d") == decl_id:
                out.append(x)
        return out

    def classify_use(g, x):
        """climb from a use to the consuming call"""
        cur, par = x, g.parent(x)
        while par is not None and par["k"] in ("ImplicitCastExpr", "MaterializeTemporaryExpr", "CXXBindTemporaryExpr",
                                               "CXXConstructExpr", "ExprWithCleanups", "ParenExpr", "MemberExpr"):
            if par["k"] == "MemberExpr":
                # method called on the value (x.empty(), x.c_str()) : a read of the string itself
                pp = g.parent(par)
                if pp is not None and pp["k"] == "CXXMemberCallExpr":
                    return "`%s`" % expr_str(g, pp)[:60]
            cur, par = par, g.parent(par)
        if par is None:
            return None
        if par["k"] == "VarDecl":
            return follow_local(g, par.get("d"))
        if par["k"] in ("CallExpr", "CXXMemberCallExpr"):
            d = g.decl(par) or {}
            if d.get("n") in sinks:
                return None
            args = _ca(par)
            idx = next((i for i, a in enumerate(args) if any(y["i"] == cur["i"] for y in walk(a))), None)
            callee = P.funcs.get(d.get("u"))
            if callee is None or callee.dep or idx is None or idx >= len(callee.r["params"]):
                return "`%s`" % expr_str(g, par)[:60]
            for u in uses_of_decl(callee, callee.r["params"][idx]):
                r = classify_use(callee, u) if depth < 4 else "a deep call chain"
                if r:
                    return "%s (in %s)" % (r, callee.n)
            return None
        if par["k"] in ("CXXOperatorCallExpr", "BinaryOperator"):
            return "`%s`" % expr_str(g, par)[:60]
        if par["k"] == "ReturnStmt":
            return "a return value of %s" % g.n
        return None

    def follow_local(g, decl_id):
        for u in uses_of_decl(g, decl_id):
            r = classify_use(g, u)
            if r:
                return r
        return None
    return classify_use(f, node)


# ------------------------------------------------------------------ R-NOLOC

LOCATION_GETTERS = {"get_location", "get_artificial_location", "get_natural_or_artificial_location"}
LOCATION_EXPAND = {"expand", "expand_location"}


def noloc_roots(P):
    roots = []
    for u, f in P.funcs.items():
        if f.dep:
            continue
        q = f.q
        if (f.n == "equals" and q.startswith("abigail::ir::")) or \
                (f.n in ("operator==", "operator!=") and q.startswith("abigail::ir::")) or \
                (q.startswith("abigail::ir::") and ("::hash::operator()" in q or f.n == "operator()" and "hash" in (f.cls or ""))) or \
                f.n in ("compare_types_during_canonicalization", "get_canonical_type_for") or \
                re.match(r"abigail::comparison::compute_diff\b", q) or \
                (f.n in ("has_changes", "has_local_changes") and (f.cls or "").startswith("abigail::comparison::")):
            roots.append(u)
    return roots


def _deciding_use(f, n):
    """is the value of node n used in a comparison, branch condition, ordering or hash combination?
    Returns a description or None.  Passing it on (constructor, set_location, clone, assignment to a
    location variable) is not deciding."""
    prev = n
    for anc in f.ancestors(n):
        k = anc["k"]
        if k in ("BinaryOperator", "CXXOperatorCallExpr") and anc.get("op") in ("==", "!=", "<", ">", "<=", ">="):
            return "operand of `%s`" % anc.get("op")
        if k in ("IfStmt", "WhileStmt", "ForStmt", "ConditionalOperator", "DoStmt"):
            cond = anc["c"][0] if k in ("IfStmt", "WhileStmt", "ConditionalOperator") else \
                (anc["c"][1] if k in ("ForStmt", "DoStmt") else None)
            if cond is not None and any(x["i"] == prev["i"] for x in walk(cond)):
                return "branch condition"
            return None
        if k == "MemberExpr":
            prev = anc
            continue
        if k in CALL_KINDS and anc is not n:
            d = f.decl(anc)
            nm = (d or {}).get("n", "")
            # a method called *on* the location (get_value(), is_artificial ...): its result is location data
            if k == "CXXMemberCallExpr" and anc.get("c") and anc["c"][0] is not None and anc["c"][0]["i"] == prev["i"] \
                    and (d or {}).get("cls", "").endswith("ir::location"):
                prev = anc
                continue
            if nm in ("combine_hashes", "operator()") and "hash" in (d or {}).get("q", ""):
                return "hashed"
            if nm in LOCATION_EXPAND:
                prev = anc
                continue          # expansion of the location: keep following the expanded values
            if (d or {}).get("q", "").endswith("location::operator bool") or nm == "operator bool":
                prev = anc
                continue
            return None           # passed to a function / constructor: copied, not decided on
        if k in ("VarDecl", "ReturnStmt", "CompoundStmt", "DeclStmt"):
            return None
        prev = anc
    return None


def check_noloc(ctx, P, exceptions):
    roots = noloc_roots(P)
    ctx.floor("R-NOLOC", "equality / hashing / diffing entry points", len(roots), 150)
    seen = P.reach(roots)
    n_reads = 0
    used_exc = set()
    for u in sorted(seen):
        f = P.funcs.get(u)
        if f is None or f.dep:
            continue
        reads = [n for n, d in f.calls() if d["n"] in LOCATION_GETTERS and (d.get("cls") or "").startswith("abigail::ir::")]
        # out-parameters of expand(): string path; unsigned line, column
        expands = [n for n, d in f.calls() if d["n"] in LOCATION_EXPAND and "location" in d.get("q", "")]
        # comparisons / orderings applied directly to values of type ir::location
        for n in f.nodes():
            if n["k"] in ("BinaryOperator", "CXXOperatorCallExpr") and n.get("op") in ("==", "!=", "<", ">", "<=", ">="):
                ops = call_args(n) if n["k"] == "CXXOperatorCallExpr" else n["c"]
                for o in ops:
                    t = f.type(strip_casts(o))
                    if t is not None and re.sub(r"^const | &$", "", t["c"]).strip() == "abigail::ir::location":
                        n_reads += 1
                        ent = "%s: `%s` compares locations" % (f.q, expr_str(f, n))
                        if f.q in exceptions:
                            used_exc.add(f.q)
                            ctx.ob("R-NOLOC", ent + " [listed exception]", True, f.loc(n), exceptions[f.q])
                        elif f.q.startswith("abigail::ir::location::") or f.q.startswith("abigail::ir::operator"):
                            pass      # the location class's own operators
                        else:
                            ctx.ob("R-NOLOC", ent, False, f.loc(n),
                                   "two source locations are compared in code reachable from equality / hashing / "
                                   "diffing")
                        break
        if not reads and not expands:
            continue
        ctx.analysed(f)
        for n in reads:
            n_reads += 1
            use = _deciding_use(f, n)
            if use is None:
                continue
            ent = "%s: %s %s" % (f.q, expr_str(f, n), use)
            if f.q in exceptions:
                used_exc.add(f.q)
                ctx.ob("R-NOLOC", ent + " [listed exception]", True, f.loc(n), exceptions[f.q])
                continue
            path = P.path_to(seen, u)
            ctx.ob("R-NOLOC", ent, False, f.loc(n),
                   "a source location is used as %s in code reachable from equality / hashing / diffing: moving a "
                   "definition or shifting lines can change the result.  Path: %s" % (
                       use, " -> ".join(p.split("(")[0] for p in path[-5:])))
        for n in expands:
            # the expanded path / line / column variables must not be compared
            outs = set()
            for a in call_args(n):
                a0 = strip_casts(a)
                if a0 is not None and a0["k"] == "DeclRefExpr" and (f.decl(a0) or {}).get("k") == "Var":
                    outs.add(a0.get("d"))
            for x in f.nodes():
                if x["k"] == "DeclRefExpr" and x.get("d") in outs and x["i"] not in {y["i"] for y in walk(n)}:
                    use = _deciding_use(f, x)
                    if use:
                        n_reads += 1
                        ent = "%s: expanded location `%s` %s" % (f.q, expr_str(f, x), use)
                        if f.q in exceptions:
                            used_exc.add(f.q)
                            ctx.ob("R-NOLOC", ent + " [listed exception]", True, f.loc(x), exceptions[f.q])
                        else:
                            ctx.ob("R-NOLOC", ent, False, f.loc(x),
                                   "an expanded source location decides a comparison in code reachable from equality "
                                   "/ hashing / diffing")
    ctx.ob("R-NOLOC", "location reads in the comparison closure (%d functions) are copy-only" % len(seen),
           True, "", "%d reads of a location inside the closure were classified" % n_reads)
    ctx.floor("R-NOLOC", "location reads inside the closure", n_reads, 5)
    for q in exceptions:
        if q not in used_exc:
            ctx.note("R-NOLOC exception %s is no longer exercised" % q)
    for x in unresolved_in(P, seen)[:20]:
        ctx.unresolved.append(x)
    return seen


# ------------------------------------------------------------------ R-SHARED / R-LIBCMT

def static_access(f, n):
    """classification of one reference to a variable of static storage duration"""
    p = f.parent(n)
    if p is None:
        return "read"
    k = p["k"]
    assign_ops = lambda op: op.endswith("=") and op not in ("==", "!=", "<=", ">=")
    if k in ("BinaryOperator", "CompoundAssignOperator") and assign_ops(p.get("op", "")) and p["c"][0]["i"] == n["i"]:
        return "write"
    if k == "UnaryOperator" and p.get("op") in ("++", "--"):
        return "write"
    if k == "UnaryOperator" and p.get("op") == "&":
        return "address-taken"
    if k == "MemberExpr":
        pp = f.parent(p)
        if pp is not None and pp["k"] == "CXXMemberCallExpr" and pp["c"][0]["i"] == p["i"]:
            d = f.decl(pp)
            return "read" if d and d.get("const") else "non-const method %s()" % (d["n"] if d else "?")
        if pp is not None and pp["k"] in ("BinaryOperator", "CompoundAssignOperator") and pp["c"][0]["i"] == p["i"] \
                and assign_ops(pp.get("op", "")):
            return "write (field)"
        return "read"
    if k == "CXXOperatorCallExpr":
        args = call_args(p)
        if args and args[0] is not None and strip_casts(args[0]) is not None and strip_casts(args[0])["i"] == n["i"]:
            if p.get("op") in ("=", "+=", "-=", "|=", "&=", "<<=", ">>=", "++", "--"):
                return "write"
            if p.get("op") in ("<<", ">>"):
                return "stream insertion"
            if p.get("op") in ("[]", "()"):
                d = f.decl(p)
                return "read" if d and d.get("const") else "non-const operator%s" % p.get("op")
        return "read"
    if k in ("CallExpr", "CXXMemberCallExpr", "CXXConstructExpr"):
        d = f.decl(p)
        pts = (d or {}).get("pt", [])
        for i, a in enumerate(call_args(p)):
            if a is not None and strip_casts(a) is not None and strip_casts(a)["i"] == n["i"]:
                pt = f.unit.type(pts[i]) if i < len(pts) else None
                if pt and pt.get("ref") and not pt.get("const"):
                    return "passed by non-const reference to %s()" % (d["n"] if d else "?")
        return "read"
    return "read"


def _under_lock_guard(f, node):
    """the node is in the scope of an RAII lock: an enclosing compound statement declares, before the node, a variable
    whose type is std::lock_guard / unique_lock / scoped_lock"""
    prev = node
    for a in f.ancestors(node):
        if a["k"] == "CompoundStmt":
            for st in a.get("c", []):
                if st is None:
                    continue
                if any(z is prev for z in walk(st)) or st is prev:
                    break
                for v in walk(st):
                    if v["k"] == "VarDecl":
                        t = f.unit.type((f.unit.decl(v.get("d")) or {}).get("t")) or {}
                        if any(k_ in ((t.get("c") or "") + (t.get("s") or "")) for k_ in ("lock_guard", "unique_lock", "scoped_lock")):
                            return True
        prev = a
    return False


def check_shared(ctx, P, T):
    tasks = P.subclasses("abigail::workers::task")
    notif = P.subclasses("abigail::workers::queue::task_done_notify")
    roots = [u for u, f in P.funcs.items() if not f.dep and
             ((f.n == "perform" and f.cls in tasks) or (f.n == "operator()" and f.cls in notif))]
    ctx.floor("R-SHARED", "task perform() / notifier entry points", len(roots), 5)
    seen = P.reach(roots)
    n_refs = 0
    found = {}
    for u in seen:
        f = P.funcs.get(u)
        if f is None or f.dep:
            continue
        ctx.analysed(f)
        for n in f.nodes():
            if n["k"] != "DeclRefExpr":
                continue
            d = f.decl(n)
            if not d or d["k"] != "Var" or d.get("st") not in ("global", "static_local", "static_member") \
                    or d.get("const") or d.get("tls"):
                continue
            tt = f.unit.type(d.get("t")) or {}
            if any(k_ in ((tt.get("c") or "") + (tt.get("s") or "")) for k_ in ("std::mutex", "pthread_mutex_t", "std::once_flag", "std::atomic", "std::recursive_mutex")):
                continue                        # synchronisation objects are meant to be shared
            n_refs += 1
            a = static_access(f, n)
            if a == "read":
                continue
            found.setdefault((d["q"], a), []).append((f, n))
    for (q, a), lst in sorted(found.items()):
        f, n = lst[0]
        listed = q in T["static_exceptions"]
        ctx.ob("R-SHARED", "mutable static `%s`: %s in task-reachable code" % (q, a), listed, f.loc(n),
               ("listed: " + T["static_exceptions"][q]) if listed else
               "a non-const, non-thread_local variable of static storage duration is modified (%s) in %s, which is "
               "reachable from a worker task: two tasks can race on it.  Path: %s" % (
                   a, f.q, " -> ".join(p.split("(")[0] for p in P.path_to(seen, f.u)[-5:])))
    ctx.ob("R-SHARED", "mutable statics referenced in the task closure (%d functions) are only read or listed" % len(seen),
           True, "", "%d references to mutable statics classified" % n_refs)
    ctx.floor("R-SHARED", "references to mutable statics in the closure", n_refs, 20)
    # ---- writes to the shared options object
    n_opt = n_locked = 0
    for u in seen:
        f = P.funcs.get(u)
        if f is None or f.dep:
            continue
        for n in f.nodes():
            if n["k"] == "MemberExpr" and n.get("c"):
                bt = f.type(n["c"][0])
                if bt and re.sub(r"^const | [&*]$", "", bt["c"]).strip() == "options":
                    n_opt += 1
                    par = f.parent(n)
                    w = par is not None and par["k"] in ("BinaryOperator", "CompoundAssignOperator") and \
                        par["c"][0]["i"] == n["i"] and par.get("op", "").endswith("=") and \
                        par.get("op") not in ("==", "!=", "<=", ">=")
                    # a mutating member call on a field (container) of the options object is a write too
                    MUT = ("push_back", "emplace_back", "insert", "emplace", "clear", "erase", "assign", "resize", "append", "swap",
                           "operator=", "operator+=", "operator[]", "reset")
                    q = par
                    if q is not None and q["k"] == "MemberExpr":
                        c = f.parent(q)
                        if c is not None and c["k"] in ("CXXMemberCallExpr", "CXXOperatorCallExpr") and (f.decl(c) or {}).get("n") in MUT and \
                                not (f.decl(c) or {}).get("const"):
                            w = True
                    if w and _under_lock_guard(f, n):
                        n_locked += 1
                        ctx.ob("R-SHARED", "%s writes options.%s under a lock" % (f.q, f.decl(n)["n"]), True, f.loc(n),
                               "the write is in the scope of a std::lock_guard / unique_lock (the tasks that write the field "
                               "serialise; its readers run after the tasks have completed)")
                        w = False
                    if w:
                        ctx.ob("R-SHARED", "%s writes options.%s" % (f.q, f.decl(n)["n"]), False, f.loc(n),
                               "all tasks alias one options object; a write from a task races with the other tasks' writes and reads")
    ctx.ob("R-SHARED", "no task-reachable function writes a field of the shared options object", True, "",
           "%d accesses to options fields in the closure, all reads" % n_opt)
    # ---- MT-unsafe libc
    unsafe = set(T["libc_unsafe"])
    calls = {}
    for u in seen:
        f = P.funcs.get(u)
        if f is None or f.dep:
            continue
        for n, d in f.calls():
            if d["n"] in unsafe and not d.get("cls") and not d["q"].startswith("abigail"):
                calls.setdefault(d["n"], []).append((f, n))
    for nm, lst in sorted(calls.items()):
        f, n = lst[0]
        ok = nm in T["libc_triaged"]
        ctx.ob("R-LIBCMT", "%s() called from task-reachable code" % nm, ok, f.loc(n),
               ("triaged: " + T["libc_triaged"][nm] + "; callers: " + ", ".join(sorted({g.n for g, _ in lst}))) if ok else
               "%s() is not MT-safe and is called from %s, reachable from a worker task" % (nm, f.q))
    for x in unresolved_in(P, seen)[:20]:
        ctx.unresolved.append(x)
