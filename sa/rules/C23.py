"""C23 - function / variable suppressions hide exactly what they name (change_kind clauses)."""
from rules import supprapp_rules as sa

UNITS = ["src/abg-suppression.cc", "src/abg-comparison.cc"]


def run(ctx):
    ctx.clause = ("no change_kind-taking suppression predicate can answer true without having tested the kind of "
                  "change, and each application loop passes the kind and stores into the set that belong to the "
                  "container it iterates")
    ctx.rules = ["R-CHGKIND/a", "R-CHGKIND/b", "R-APPLYALL", "R-BINGATE"]
    P = ctx.program(UNITS)
    sa.check_chgkind_a(ctx, P)
    sa.check_chgkind_b(ctx, P)
    from rules import bingate_rule
    bingate_rule.check(ctx, P)
    ctx.assume("name / regex matching of the suppression against the interface is runtime behaviour")
