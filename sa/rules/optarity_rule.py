"""R-OPTARITY: in every tool's parse_command_line, an option branch that reads an operand (argv[<not i>]) advances
the argument index on the path that accepts it; sibling agreement over all option branches of all tools (a branch
that forgets `++i` makes the operand be parsed again as the next argument: abidiff --keep-fn foo a b).
"""
from engine.facts import walk, call_args, expr_str
from engine.cfg import strip_casts


def check(ctx, P, rule="R-OPTARITY", tools=None):
    n_opts = 0
    for uname in sorted(P.units):
        if not uname.startswith("tools/") or (tools and uname not in tools):
            continue
        for f in P.units[uname].functions:
            if f.n != "parse_command_line" or f.dep:
                continue
            ctx.analysed(f)
            # the index variable: the local that subscripts argv in the strcmp tests
            for n in f.nodes():
                if n["k"] != "IfStmt" or n["c"][1] is None:
                    continue
                cond = n["c"][0]
                lits = [x.get("s") for x in walk(cond) if x["k"] == "StringLiteral" and (x.get("s") or "").startswith("-")]
                idxs = set()
                for x in walk(cond):
                    if x["k"] == "ArraySubscriptExpr" and expr_str(f, x["c"][0]) == "argv":
                        i0 = strip_casts(x["c"][1])
                        if i0 is not None and i0["k"] == "DeclRefExpr":
                            idxs.add(i0.get("d"))
                if not lits or len(idxs) != 1:
                    continue
                ivar = next(iter(idxs))
                then = n["c"][1]
                reads = []
                for x in walk(then):
                    if x["k"] == "ArraySubscriptExpr" and expr_str(f, x["c"][0]) == "argv":
                        i0 = strip_casts(x["c"][1])
                        if not (i0 is not None and i0["k"] == "DeclRefExpr" and i0.get("d") == ivar):
                            reads.append(x)
                if not reads:
                    continue
                n_opts += 1

                def advances(x):
                    if x["k"] == "UnaryOperator" and x.get("op") in ("++",):
                        t = strip_casts(x["c"][0])
                        return t is not None and t["k"] == "DeclRefExpr" and t.get("d") == ivar
                    if x["k"] in ("BinaryOperator", "CompoundAssignOperator") and x.get("op") in ("=", "+="):
                        t = strip_casts(x["c"][0])
                        return t is not None and t["k"] == "DeclRefExpr" and t.get("d") == ivar
                    return False
                adv = any(advances(x) for x in walk(then))
                tool = uname.split("/")[-1].replace(".cc", "")
                ctx.ob(rule, "%s: option %s consumes its operand" % (tool, "/".join(lits)), adv, f.loc(n),
                       "reads `%s` and advances the argument index" % expr_str(f, reads[0]) if adv else
                       "the branch reads `%s` but never advances `%s`: the operand is parsed again as the next "
                       "argument (taken for a file name or an unknown option)" % (
                           expr_str(f, reads[0]), f.unit.decl(ivar)["n"]))
    return n_opts
