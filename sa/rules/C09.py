"""C09 - an unreadable input is never reported as 'no change'.

R-LOADFAIL (tools): on the CFG edge where a loader result is null, every value that can reach
the process exit carries the ERROR bit (exit-status abstract interpretation; `handle_error` is
interpreted with the abstract value of its status argument).  Lemma L2 (dwarf reader): a null
corpus is never returned together with STATUS_OK.
R-EXPAND (reader): a non-null result of the ABIXML entry points is only produced after the root
element has been fully expanded (xmlTextReaderExpand, null-checked), so a truncated document
loads as nothing rather than as a smaller corpus.
"""
from rules import status_rules as sr
from rules import expand_rule


def run(ctx):
    ctx.clause = ("(a) with a failed load (null corpus / group / translation unit) abidiff and abicompat can only "
                  "exit with the ERROR bit; (b) the dwarf loader never pairs a null corpus with STATUS_OK; (c) the "
                  "ABIXML reader returns a non-null result only after a null-checked full expansion of the root node")
    ctx.rules = ["R-LOADFAIL", "R-LOADFAIL/L2", "R-EXPAND", "R-XMLSRC", "R-SYMSRC", "R-HANDLEARG"]
    n_sites = 0
    for tool in ("abidiff", "abicompat"):
        P, I, main, rets = sr.analyse_tool(ctx, tool)
        n_sites += sr.check_loadfail(ctx, tool, P, I, main, rets)
    ctx.floor("R-LOADFAIL", "loader call sites in abidiff/abicompat main", n_sites, 9)
    P = ctx.program(["src/abg-dwarf-reader.cc"] + sr.LIB_UNITS)
    sr.check_L2(ctx, P)
    expand_rule.run(ctx)
    check_xmlsrc(ctx)
    from rules import C18
    C18.check_symsrc(ctx)
    # a null elfutils handle (file truncated inside its headers) must reach the status, not an assertion
    from rules import C34
    nh = C34.check_handlearg(ctx, ctx.program(["src/abg-dwarf-reader.cc", "src/abg-symtab-reader.cc", "src/abg-elf-helpers.cc"]))
    ctx.floor("R-HANDLEARG", "elfutils handles passed to a parameter the callee asserts", nh, 1)
    ctx.assume("libxml2's xmlTextReaderExpand fails on any unterminated subtree; elfutils reports unreadable ELF through the status the dwarf reader tests")



def check_xmlsrc(ctx):
    """R-XMLSRC: the readers of ABIXML get their documents from libxml2's *pull* reader (xmlNewTextReaderFilename /
    xmlReaderForIO / xmlReaderForMemory), whose Expand() fails on an unterminated document - the assumption R-EXPAND
    rests on.  Who-may-call + typestate: (a) every xml::new_reader_from_* factory returns one of those constructors'
    results; (b) if a push parser (xmlCreatePushParserCtxt) is used anywhere in the library, every path from its
    creation to a read of its `wellFormed` / `myDoc` passes an xmlParseChunk(..) whose `terminate` argument is a
    non-zero literal - a termination that depends on a run-time condition (eof() of the last read) leaves a truncated
    document looking complete."""
    from engine.facts import walk, call_args, expr_str
    from engine.cfg import strip_casts
    from engine.compdb import AnalysisBroken
    from rules.idref_rule import _passes_on_all_paths, _on_all_paths_before
    P = ctx.program(["src/abg-libxml-utils.cc", "src/abg-reader.cc"])
    PULL = ("xmlNewTextReaderFilename", "xmlReaderForIO", "xmlReaderForMemory", "xmlReaderForFd", "xmlReaderForFile")
    facts_ = [f for f in P.all_funcs() if f.q.startswith("abigail::xml::new_reader_from_") and not f.dep and
              "anonymous" not in f.q and f.n.startswith("new_reader_from_")]
    ctx.floor("R-XMLSRC", "xml::new_reader_from_* factories", len(facts_), 3)
    for f in sorted(facts_, key=lambda x: x.q):
        ctx.analysed(f)
        names = {(f.decl(n) or {}).get("n") for n in f.nodes() if n["k"] == "CallExpr"}
        pull = sorted(names & set(PULL))
        other = sorted(n for n in names if n and n.startswith("xml") and n not in PULL and
                       n not in ("xmlFreeTextReader",) and ("Reader" in n or "Parse" in n or "Ctxt" in n))
        push = "xmlCreatePushParserCtxt" in names      # decided by the typestate clause below
        ctx.ob("R-XMLSRC", "%s builds its reader with a libxml2 pull-reader constructor (or a terminated push parser)" % f.q.replace("abigail::", ""),
               (bool(pull) and not other) or push, f.loc(),
               "constructor(s): %s" % pull if pull and not other else
               "the reader is built through %s: the pull reader's own end-of-document check (Expand fails on an "
               "unterminated subtree) no longer protects the caller" % (other or "something else"))
    for f in P.all_funcs():
        if f.dep or f.cfg() is None:
            continue
        creates = [n for n, d in f.calls() if d["n"] in ("xmlCreatePushParserCtxt", "htmlCreatePushParserCtxt")]
        for c in creates:
            ctx.analysed(f)

            def terminating(e):
                if e["k"] != "CallExpr" or (f.decl(e) or {}).get("n") != "xmlParseChunk":
                    return False
                a = call_args(e)
                t = strip_casts(a[3]) if len(a) > 3 else None
                return t is not None and t["k"] == "IntegerLiteral" and t.get("v") not in (0, None)
            uses = [x for x in f.nodes() if x["k"] == "MemberExpr" and (f.decl(x) or {}).get("n") in ("wellFormed", "myDoc")]
            if not uses:
                raise AnalysisBroken("%s creates a push parser but never reads wellFormed / myDoc" % f.q)
            ok = all(_on_all_paths_before(f, x, terminating) for x in uses)
            ctx.ob("R-XMLSRC", "%s: the push parser is terminated on every path" % f.n, ok, f.loc(c),
                   "xmlParseChunk(.., terminate = 1) follows on every path" if ok else
                   "no unconditional xmlParseChunk(.., terminate = 1): when the condition computed at run time is false (a "
                   "file whose size is a multiple of the block size) the parse is never finished, `wellFormed` stays set and a "
                   "truncated document is accepted")
