"""C09 - an unreadable input is never reported as 'no change'.

R-LOADFAIL (tools): on the CFG edge where a loader result is null, every value that can reach
the process exit carries the ERROR bit (exit-status abstract interpretation; `handle_error` is
interpreted with the abstract value of its status argument).  Lemma L2 (dwarf reader): a null
corpus is never returned together with STATUS_OK.
R-EXPAND (reader): a non-null result of the ABIXML entry points is only produced after the root
element has been fully expanded (xmlTextReaderExpand, null-checked), so a truncated document
loads as nothing rather than as a smaller corpus.
"""
from rules import status_rules as sr
from rules import expand_rule


def run(ctx):
    ctx.clause = ("(a) with a failed load (null corpus / group / translation unit) abidiff and abicompat can only "
                  "exit with the ERROR bit; (b) the dwarf loader never pairs a null corpus with STATUS_OK; (c) the "
                  "ABIXML reader returns a non-null result only after a null-checked full expansion of the root node")
    ctx.rules = ["R-LOADFAIL", "R-LOADFAIL/L2", "R-EXPAND"]
    n_sites = 0
    for tool in ("abidiff", "abicompat"):
        P, I, main, rets = sr.analyse_tool(ctx, tool)
        n_sites += sr.check_loadfail(ctx, tool, P, I, main, rets)
    ctx.floor("R-LOADFAIL", "loader call sites in abidiff/abicompat main", n_sites, 9)
    P = ctx.program(["src/abg-dwarf-reader.cc"] + sr.LIB_UNITS)
    sr.check_L2(ctx, P)
    expand_rule.run(ctx)
    ctx.assume("libxml2's xmlTextReaderExpand fails on any unterminated subtree; elfutils reports unreadable ELF through the status the dwarf reader tests")
