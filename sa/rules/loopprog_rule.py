"""R-LOOPPROG: a loop whose progress depends on a callee that may do nothing, with nobody looking at its verdict.

Rule template (termination discipline): let V be the local variables / parameters the condition of a loop reads.
If the loop has no other exit (break / return / goto / throw) and every write to a variable of V inside the loop
(condition, body, increment) happens through a non-const reference parameter of a function defined in this
repository that *may return without writing that parameter* (some path from its entry to a return does not touch
it), and the result of that call is discarded, then nothing guarantees that an iteration changes what the condition
looks at: the loop does not terminate for the inputs on which the callee declines.

Everything else is deliberately left alone: a write by assignment / ++ / a library call (getline, fgets,
push_back ...) counts as progress, a call whose result is tested (condition of the loop, an `if`, an assignment) counts
as looked-at.  The rule therefore reports only the situation above, in which the source itself shows that no one
checks whether progress was made.
"""
from engine.cfg import strip_casts, forward, state_before, TOP
from engine.facts import walk, call_args, member_call_object, expr_str
from rules.null_rules import short

CONST_METHODS = ("size", "empty", "length", "begin", "end", "cbegin", "cend", "find", "rfind", "compare", "c_str", "data",
                 "get", "operator bool", "substr", "at", "front", "back", "count", "str")


def mentions(e, d):
    return any(x["k"] == "DeclRefExpr" and x.get("d") == d for x in walk(e))


def writes_in(f, e, d):
    """does element e (one CFG element, or a subtree) write variable d (conservatively: yes for anything but a read)"""
    for x in walk(e):
        k = x["k"]
        if k in ("BinaryOperator", "CompoundAssignOperator", "CXXOperatorCallExpr") and (x.get("op") or "").endswith("=") and \
                x.get("op") not in ("==", "!=", "<=", ">="):
            a = call_args(x) if k == "CXXOperatorCallExpr" else x["c"]
            if a and a[0] is not None and mentions(a[0], d):
                return True
        if k in ("UnaryOperator", "CXXOperatorCallExpr") and x.get("op") in ("++", "--") and mentions(x, d):
            return True
        if k in ("CallExpr", "CXXMemberCallExpr", "CXXConstructExpr", "CXXOperatorCallExpr"):
            if k == "CXXMemberCallExpr":
                o = member_call_object(x)
                if o is not None and mentions(o, d) and (f.decl(x) or {}).get("n") not in CONST_METHODS:
                    return True
            g = f.decl(x) or {}
            params = g.get("params")
            for i, a in enumerate(call_args(x) or []):
                if a is not None and mentions(a, d):
                    a0 = strip_casts(a)
                    if a0 is not None and a0["k"] == "DeclRefExpr" and a0.get("d") == d:
                        return "arg"            # decided by the caller with the callee's signature
    return False


def may_skip(P, g, pidx, memo):
    """True if function g has a path to a return on which its parameter #pidx is not written"""
    key = (g.u, pidx)
    if key in memo:
        return memo[key]
    memo[key] = False
    if g.cfg() is None or pidx >= len(g.r["params"]):
        return False
    p = g.r["params"][pidx]

    def tr(st, e, blk):
        if "w" in st:
            return st
        w = writes_in(g, e, p)
        return st | {"w"} if w else st
    cfg = g.cfg()
    ins, _ = forward(cfg, frozenset(), tr)
    skip = False
    for n in g.nodes():
        if n["k"] == "ReturnStmt":
            st = state_before(cfg, ins, tr, n)
            if st is not TOP and "w" not in st:
                skip = True
    memo[key] = skip
    return skip


def check(ctx, P, funcs, rule="R-LOOPPROG"):
    memo = {}
    n_loops = n_dep = 0
    for f in sorted(funcs, key=lambda x: (x.file, x.l0)):
        if f.dep or f.cfg() is None:
            continue
        locs = {x.get("d") for x in f.nodes() if x["k"] == "VarDecl"} | set(f.r["params"])
        for L in f.nodes():
            if L["k"] == "WhileStmt":
                cond, parts = L["c"][0], [c for c in L["c"][1:] if c is not None]
            elif L["k"] == "DoStmt":
                cond, parts = L["c"][1], [c for c in L["c"][:1] if c is not None]
            elif L["k"] == "ForStmt":
                cond, parts = L["c"][1], [c for c in L["c"][2:] if c is not None]
            else:
                continue
            if cond is None:
                continue
            n_loops += 1
            V = {x.get("d") for x in walk(cond) if x["k"] == "DeclRefExpr" and x.get("d") in locs}
            if not V:
                continue
            region = parts + [cond]
            if any(x["k"] in ("BreakStmt", "ReturnStmt", "GotoStmt", "CXXThrowExpr") for p in parts for x in walk(p)):
                continue
            # calls that may abort / exit also end the loop
            progress = False
            weak = []          # (call node, variable, callee) writes that may not happen and that nobody looks at
            for p in region:
                for x in walk(p):
                    if x["k"] not in ("CallExpr", "CXXMemberCallExpr", "CXXConstructExpr", "CXXOperatorCallExpr", "BinaryOperator",
                                      "CompoundAssignOperator", "UnaryOperator"):
                        continue
                    for d in V:
                        # only the node itself, not its sub-expressions (they are visited on their own)
                        shallow = dict(x)
                        w = writes_shallow(f, x, d)
                        if w is True:
                            progress = True
                        elif w == "arg":
                            g = P.funcs.get((f.decl(x) or {}).get("u"))
                            idxs = [i for i, a in enumerate(call_args(x) or []) if a is not None and strip_casts(a) is not None and
                                    strip_casts(a)["k"] == "DeclRefExpr" and strip_casts(a).get("d") == d]
                            for i in idxs:
                                if g is None or g.dep or g.cfg() is None or i >= len(g.r["params"]):
                                    # unknown callee: by-value / const parameters do not write; otherwise assume progress
                                    pt = param_type(f, x, i)
                                    if pt is None or (pt.get("ref") and not pt.get("const")) or pt.get("ptr"):
                                        progress = True
                                    continue
                                pt = g.unit.type((g.unit.decl(g.r["params"][i]) or {}).get("t")) or {}
                                if not pt.get("ref") or pt.get("const"):
                                    continue                       # read only
                                if not may_skip(P, g, i, memo):
                                    progress = True
                                elif result_used(f, x, L, cond):
                                    progress = True
                                else:
                                    weak.append((x, d, g))
            if not weak:
                continue
            n_dep += 1
            ok = progress
            x, d, g = weak[0]
            vn = (f.unit.decl(d) or {}).get("n")
            ctx.ob(rule, "%s: the loop over `%s` makes progress on every iteration" % (short(f), expr_str(f, cond)[:60]), ok, f.loc(L),
                   "another write to the condition's variables guarantees progress" if ok else
                   "the only write to `%s` is `%s`, whose result is discarded, and %s() has a path that returns without "
                   "setting that parameter: for such inputs the condition never changes and the loop does not terminate" % (
                       vn, expr_str(f, x)[:70], g.n))
    return n_loops, n_dep


def param_type(f, call, i):
    d = f.decl(call) or {}
    ps = d.get("pt")
    if ps and i < len(ps):
        return f.unit.type(ps[i])
    return None


def writes_shallow(f, x, d):
    """like writes_in, for the node x alone"""
    k = x["k"]
    if k in ("BinaryOperator", "CompoundAssignOperator", "CXXOperatorCallExpr") and (x.get("op") or "").endswith("=") and \
            x.get("op") not in ("==", "!=", "<=", ">="):
        a = call_args(x) if k == "CXXOperatorCallExpr" else x["c"]
        if a and a[0] is not None and mentions(a[0], d):
            return True
    if k in ("UnaryOperator", "CXXOperatorCallExpr") and x.get("op") in ("++", "--") and mentions(x, d):
        return True
    if k == "CXXMemberCallExpr":
        o = member_call_object(x)
        if o is not None and mentions(o, d) and (f.decl(x) or {}).get("n") not in CONST_METHODS:
            return True
    if k in ("CallExpr", "CXXMemberCallExpr", "CXXConstructExpr", "CXXOperatorCallExpr"):
        for a in call_args(x) or []:
            a0 = strip_casts(a) if a is not None else None
            if a0 is not None and a0["k"] == "DeclRefExpr" and a0.get("d") == d:
                return "arg"
    return False


def result_used(f, call, loop, cond):
    """the value of the call is looked at: it is (part of) a condition, an initialiser, an operand or an argument"""
    if any(y is call for y in walk(cond)):
        return True
    p = f.parent(call)
    while p is not None and p["k"] in ("ExprWithCleanups", "ImplicitCastExpr", "ParenExpr", "MaterializeTemporaryExpr", "CXXBindTemporaryExpr"):
        p = f.parent(p)
    if p is None:
        return False
    return p["k"] not in ("CompoundStmt", "WhileStmt", "ForStmt", "DoStmt", "IfStmt", "FunctionBody", "CaseStmt", "DefaultStmt",
                          "LabelStmt") or (p["k"] == "IfStmt" and p["c"][0] is not None and any(y is call for y in walk(p["c"][0])))
