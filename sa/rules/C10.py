"""C10 - summaries agree with the sections (same-source clauses)."""
from rules import supprapp_rules as sa
from rules import atoms as at


def run(ctx):
    ctx.clause = ("each net counter is num - filtered of one container and its suppressed twin, each section skips "
                  "through the predicate that looks up that very suppressed set, and the summary is emitted before "
                  "any section and is not gated by --stat; the counters of filtered-out changes are computed only after every "
                  "category-writing pass has run")
    ctx.rules = ["R-NETPAIR", "R-SECTION", "R-STATFIRST", "R-CHGKIND/b", "R-APPLYALL", "R-CATORDER", "R-OPTGATE", "R-SORTALL"]
    P = ctx.program(at.UNITS)
    sa.check_netpair(ctx, P)
    sa.check_section(ctx, P)
    sa.check_statfirst(ctx, P)
    sa.check_chgkind_b(ctx, P)
    sa.check_catorder(ctx, P)
    sa.check_optgate(ctx, P)
    check_sortall(ctx, P)
    ctx.assume("arithmetic on the actual counts is runtime; it follows when count and listing provably use the same "
               "container and filter")



def check_sortall(ctx, P):
    """R-SORTALL: the summary counts the *maps* (sizes, minus what is filtered), the sections iterate the *sorted vectors*
    that the sort_* helpers of abg-comparison.cc derive from those maps.  Count and listing agree only if a helper copies
    every element: in each helper the push into the output vector runs on every iteration of its loop (no enclosing
    condition, no earlier continue / break).  21 sibling helpers, all unconditional on the tree this was written for."""
    from engine.facts import walk, member_call_object
    from rules.C11 import guards_of
    n = 0
    for f in sorted(P.all_funcs(), key=lambda x: (x.file, x.l0)):
        if f.dep or f.cfg() is None or not f.n.startswith("sort_") or not f.q.startswith("abigail::comparison"):
            continue
        outs = [p for p in f.r["params"] if (f.unit.type((f.unit.decl(p) or {}).get("t")) or {}).get("ref") and
                not (f.unit.type((f.unit.decl(p) or {}).get("t")) or {}).get("const")]
        pushes = [x for x in f.nodes() if x["k"] == "CXXMemberCallExpr" and (f.decl(x) or {}).get("n") in ("push_back", "emplace_back") and
                  any(y["k"] == "DeclRefExpr" and y.get("d") in outs for y in walk(member_call_object(x)))]
        for p in pushes:
            n += 1
            ctx.analysed(f)
            g = guards_of(f, p)
            sig = f.sig[f.sig.index("("):][:40]
            ctx.ob("R-SORTALL", "%s%s copies every element of its input" % (f.n, sig), not g, f.loc(p),
                   "unconditional push_back in the loop" if not g else
                   "the element is pushed only under %s: entries that the summary counts (the size of the map) are missing from "
                   "the sorted vector the report lists" % g)
    ctx.floor("R-SORTALL", "sort helpers that fill a vector", n, 18)
