"""C10 - summaries agree with the sections (same-source clauses)."""
from rules import supprapp_rules as sa
from rules import atoms as at


def run(ctx):
    ctx.clause = ("each net counter is num - filtered of one container and its suppressed twin, each section skips "
                  "through the predicate that looks up that very suppressed set, and the summary is emitted before "
                  "any section and is not gated by --stat; the counters of filtered-out changes are computed only after every "
                  "category-writing pass has run")
    ctx.rules = ["R-NETPAIR", "R-SECTION", "R-STATFIRST", "R-CHGKIND/b", "R-CATORDER", "R-OPTGATE"]
    P = ctx.program(at.UNITS)
    sa.check_netpair(ctx, P)
    sa.check_section(ctx, P)
    sa.check_statfirst(ctx, P)
    sa.check_chgkind_b(ctx, P)
    sa.check_catorder(ctx, P)
    sa.check_optgate(ctx, P)
    ctx.assume("arithmetic on the actual counts is runtime; it follows when count and listing provably use the same "
               "container and filter")
