"""C39 - INI configurations survive write/read round trips (token / escape tables of src/abg-ini.cc).

R-INITOK   production table: for every production of the INI grammar the structural tokens the
           writer emits (string / character literals of the serialising function, white space
           stripped) are exactly the tokens the parser compares against in the matching reading
           function:  section header  write_section ~ read_context::read_section,
           assignment  write_property ~ read_property,  list  list_property_value::as_string ~
           read_list_property_value,  tuple  tuple_property_value::as_string ~
           read_tuple_property_value.
R-INIDELIM every structural token of the writer is a delimiter for the reader
           (char_is_delimiter / char_is_comment_start tables), so that a value can never swallow it.
R-INIESC   inverse escaping: the parser un-escapes (read_context::handle_escape) and lets an
           escaped character into a value even when it is a terminator; the writer must then
           re-escape, on the value path, every character that terminates a value for the parser
           (the complement table of char_is_property_value_char, plus the backslash).  Decided from
           the call graph of write_property: some function reachable from it has to emit a
           backslash in front of those characters.
R-INIBARE  write_property emits ` = ` only under an emptiness test of the value (a value-less property is a
           bare name; `name = ` followed by a line end makes the parser read the next line as the value).
"""
from engine.facts import walk, call_args, expr_str
from engine.cfg import strip_casts
from engine.compdb import AnalysisBroken

UNITS = ["src/abg-ini.cc"]
NS = "abigail::ini::"
PRODUCTIONS = [
    ("section header", "write_section", "read_context::read_section"),
    ("assignment", "write_property", "read_context::read_property"),
    ("list", "list_property_value::as_string", "read_context::read_list_property_value"),
    ("tuple", "tuple_property_value::as_string", "read_context::read_tuple_property_value"),
]


def _fn(P, q):
    fs = [f for f in P.fn(NS + q) if not f.dep and f.cfg() is not None]
    if len(fs) != 1:
        raise AnalysisBroken("anchor vanished: %s%s (found %d definitions)" % (NS, q, len(fs)))
    return fs[0]


def _in_macro_noise(f, n):
    """literals of the ABG_ASSERT expansion (file name, function name, '__abg_cond__')"""
    for a in f.ancestors(n):
        if a["k"] == "CallExpr" and (f.decl(a) or {}).get("n") in ("__assert_fail", "abigail_assert_fail"):
            return True
    return False


def emitted_tokens(f):
    """characters of the string / character literals a serialising function emits, white space dropped"""
    toks = set()
    for n in f.nodes():
        if n["k"] == "StringLiteral" and n.get("s") is not None and not _in_macro_noise(f, n):
            toks |= {c for c in n["s"] if not c.isspace()}
        elif n["k"] == "CharacterLiteral" and not _in_macro_noise(f, n):
            c = chr(n["v"])
            if not c.isspace():
                toks.add(c)
    return toks


def compared_tokens(f):
    """character literals a parsing function compares a character against (== / != / case)"""
    toks = set()
    for n in f.nodes():
        if n["k"] == "BinaryOperator" and n.get("op") in ("==", "!="):
            for o in n["c"]:
                o = strip_casts(o)
                if o is not None and o["k"] == "CharacterLiteral":
                    toks.add(chr(o["v"]))
        if n["k"] == "CaseStmt" and n.get("v") is not None:
            toks.add(chr(n["v"]))
    return toks


def char_table(f):
    """characters a char_is_* predicate names directly"""
    return {chr(n["v"]) for n in f.nodes() if n["k"] == "CharacterLiteral"}


def show(s):
    return "{" + " ".join(repr(c)[1:-1] for c in sorted(s)) + "}"


def run(ctx):
    ctx.clause = ("the INI writer and parser agree on every structural token of the grammar, every such token is a "
                  "delimiter for the parser, and the writer re-escapes what the parser un-escapes")
    ctx.rules = ["R-INITOK", "R-INIDELIM", "R-INIESC", "R-INIBARE"]
    P = ctx.program(UNITS)
    delim = char_table(_fn(P, "char_is_delimiter")) | char_table(_fn(P, "char_is_comment_start"))
    all_tokens = set()
    for name, w, r in PRODUCTIONS:
        fw, fr = _fn(P, w), _fn(P, r)
        ctx.analysed(fw)
        ctx.analysed(fr)
        tw, tr = emitted_tokens(fw), compared_tokens(fr)
        all_tokens |= tw
        ctx.ob("R-INITOK", "%s: tokens of %s = tokens %s expects" % (name, w, r.split("::")[-1]), tw == tr and bool(tw),
               fw.loc(), "writer emits %s, parser compares against %s" % (show(tw), show(tr)))
    ctx.floor("R-INITOK", "grammar productions", len(PRODUCTIONS), 4)
    for c in sorted(all_tokens):
        ctx.ob("R-INIDELIM", "structural token %r is a delimiter for the parser" % c, c in delim, "",
               "char_is_delimiter / char_is_comment_start name %s" % show(delim))
    ctx.floor("R-INIDELIM", "structural tokens", len(all_tokens), 6)

    # ---- R-INIESC
    he = _fn(P, "read_context::handle_escape")
    ctx.analysed(he)
    unesc = compared_tokens(he)
    if "\\" not in unesc:
        raise AnalysisBroken("anchor vanished: handle_escape no longer tests for a backslash")
    pv = _fn(P, "char_is_property_value_char")
    # terminators of a value: what char_is_property_value_char rejects = its own literals + the delimiter table
    # restricted by the arguments it passes (white space, square brackets and '=' are allowed in values)
    allowed = set()
    for n in pv.nodes():
        if n["k"] == "CallExpr" and (pv.decl(n) or {}).get("n") == "char_is_delimiter":
            a = call_args(n)
            flags = [strip_casts(x) for x in a[1:]]
            if len(flags) >= 3:
                if flags[1] is not None and flags[1].get("v") == 0:
                    allowed |= {"[", "]"}
                if flags[2] is not None and flags[2].get("v") == 0:
                    allowed |= {"="}
    terminators = (delim - allowed) | char_table(pv) | {"\\"}
    wp = _fn(P, "write_property")
    ctx.analysed(wp)
    reach = P.reach([wp.u])
    escapers = []
    for u in reach:
        g = P.funcs.get(u)
        if g is None or g.dep or not g.q.startswith(NS):
            continue
        lits = emitted_tokens(g) | {chr(n["v"]) for n in g.nodes() if n["k"] == "CharacterLiteral"}
        if "\\" in lits:
            escapers.append((g, compared_tokens(g) | lits))
    covered = set()
    for g, t in escapers:
        covered |= t
    missing = terminators - covered if escapers else terminators
    ctx.ob("R-INIESC", "write_property re-escapes the characters that terminate a value for the parser", not missing,
           wp.loc(),
           "escaping function(s) %s cover %s" % (", ".join(g.n for g, _ in escapers), show(terminators)) if not missing else
           "the parser un-escapes a backslash sequence and keeps the escaped character in the value "
           "(handle_escape/read_string), but nothing reachable from write_property emits a backslash%s: a value "
           "holding one of %s is written bare and is cut / split / re-unescaped when the output is read back" % (
               "" if not escapers else " for %s" % show(missing), show(terminators)))
    # ---- R-INIBARE: a property without a value is written as a bare name.  After `=` the parser skips white space
    # across line ends, so `name = ` followed by a newline swallows the next line: the assignment token may only be
    # emitted when the serialised value is known to be non-empty (a test of .empty() on it, or on the property's
    # has_empty_value()), not on a pointer that the property model never leaves null.
    bare_ok = False
    why = "no insertion of the assignment token found"
    for n in wp.nodes():
        if n["k"] == "CXXOperatorCallExpr" and n.get("op") == "<<":
            a = strip_casts(call_args(n)[1])
            if a is not None and a["k"] == "StringLiteral" and "=" in (a.get("s") or ""):
                guards = [x for x in wp.ancestors(n) if x["k"] == "IfStmt"]
                txt = " && ".join(expr_str(wp, g["c"][0]) for g in guards)
                bare_ok = any(any(y["k"] == "CXXMemberCallExpr" and (wp.decl(y) or {}).get("n") in ("empty", "has_empty_value")
                                  for y in walk(g["c"][0])) for g in guards)
                why = "the `=` is emitted under `%s`" % (txt or "no condition")
    ctx.ob("R-INIBARE", "write_property emits the assignment only for a non-empty value", bare_ok, wp.loc(),
           why if bare_ok else why + ": that is not an emptiness test of the value, so a property without a value is written "
           "as `name = ` and the parser takes the next line for its value (or drops the property at the end of a section)")
    ctx.assume("that trimming, line/column bookkeeping and the value model (string vs list of one element) round-trip "
               "is runtime behaviour, not decided here")
