"""C37 - hash-table symbol lookup agrees with the symbol table: selection and sibling clauses.

R-HTKIND   elf_helpers::find_hash_table_section_index returns a kind *and* two section indexes through
           out-parameters.  The indexes handed out with kind K must come from a section whose sh_type was
           tested to be K's section type, on every path - not from "the last hash section seen".
           Small abstract interpretation of the function: the set of section types the current section can
           have (from the sh_type comparisons on the path), a tag for every value derived from the current
           section (tag = that set), flags set under such a test, and at each `return KIND` the tags of the
           reaching definitions of each out-parameter against the tags of the flags known true there.
R-CHAINEXIT in the two hash-table lookups, the walk of a chain is ended - or a candidate skipped - only by conditions about
           the chain itself (index bounds, terminator, stop bit), a libelf failure, the hash value or the name; no `break`,
           `continue` or `return` inside the walk is guarded by another field of the candidate symbol (st_shndx, st_info,
           st_other, st_value, st_size), directly or through a helper the symbol is handed to: a symbol that the linear
           symbol table walk would find must be found through the hash tables too.
R-SIBLOOKUP the three lookups (SysV hash, GNU hash, linear symbol table) build the elf_symbol they return
           from the same fields of the ELF symbol: the argument lists of their elf_symbol::create calls agree
           after renaming the symbol variable (one sibling reading another field reports different symbols
           for the same file).
"""
import re

from engine.cfg import forward, state_before, TOP, strip_casts
from engine.facts import walk, call_args, member_call_object, expr_str
from engine.compdb import AnalysisBroken
from rules.null_rules import short

UNITS = ["src/abg-elf-helpers.cc", "src/abg-dwarf-reader.cc"]
ANY = "any"
UNK = frozenset(["*"])


def _sh_type_test(f, c):
    """(macro name, is_equal) for `<x>->sh_type == SHT_FOO` / `!=`"""
    c = strip_casts(c)
    if c is None or c["k"] != "BinaryOperator" or c.get("op") not in ("==", "!="):
        return None
    a, b = strip_casts(c["c"][0]), strip_casts(c["c"][1])
    for m, lit in ((a, b), (b, a)):
        if m is not None and m["k"] == "MemberExpr" and (f.decl(m) or {}).get("n") == "sh_type" and \
                lit is not None and lit["k"] == "IntegerLiteral":
            name = f.macro(lit) or str(lit.get("v"))
            return name, c.get("op") == "=="
    return None


def _type_facts(f, cond, truth):
    """set of section types the condition evaluating to `truth` allows, or None (no information)"""
    c = strip_casts(cond)
    if c is None:
        return None
    if c["k"] == "UnaryOperator" and c.get("op") == "!":
        return _type_facts(f, c["c"][0], not truth)
    t = _sh_type_test(f, c)
    if t is not None:
        name, eq = t
        return frozenset([name]) if eq == truth else None
    if c["k"] == "BinaryOperator" and c.get("op") in ("&&", "||"):
        l, r = _type_facts(f, c["c"][0], truth), _type_facts(f, c["c"][1], truth)
        conj = (c["op"] == "&&") == truth          # both operands have the value `truth`
        if conj:
            if l is None:
                return r
            if r is None:
                return l
            return l & r
        if l is None or r is None:
            return None
        return l | r
    return None


def check_htkind(ctx, P):
    fs = [f for f in P.all_funcs() if f.n == "find_hash_table_section_index" and not f.dep and f.cfg() is not None]
    if len(fs) != 1:
        raise AnalysisBroken("anchor vanished: elf_helpers::find_hash_table_section_index")
    f = fs[0]
    ctx.analysed(f)
    cfg = f.cfg()
    outs = [p for p in f.r["params"] if (f.unit.type(f.unit.decl(p)["t"]) or {}).get("ref") and
            "const" not in (f.unit.type(f.unit.decl(p)["t"]) or {}).get("s", "")]
    if len(outs) < 2:
        raise AnalysisBroken("anchor vanished: the index out-parameters of find_hash_table_section_index")

    # ---- pass 1: possible section types at every point
    def t_transfer(st, n, blk):
        # a new current section: all knowledge about its type is gone
        tgt = None
        if n["k"] == "BinaryOperator" and n.get("op") == "=":
            l = strip_casts(n["c"][0])
            if l is not None and l["k"] == "DeclRefExpr":
                tgt = f.decl(l) or {}
        if n["k"] == "VarDecl":
            tgt = f.decl(n) or {}
        if tgt and "Elf_Scn" in ((f.unit.type(tgt.get("t")) or {}).get("s", "")) or \
                tgt and "GElf_Shdr" in ((f.unit.type(tgt.get("t")) or {}).get("s", "")):
            return UNK
        return st

    def t_edge(st, blk, idx):
        if cfg.branch(blk.id) is None:
            return st
        for c in cfg.branch_conds(blk.id):
            tf = _type_facts(f, c, idx == 0)
            if tf is not None:
                st = tf if st == UNK else (st & tf)
                if not st:
                    return TOP       # infeasible edge
        return st
    join = lambda a, b: UNK if (a == UNK or b == UNK) else (a | b)
    tins, _ = forward(cfg, UNK, t_transfer, t_edge, join=join)

    def types_at(node):
        st = state_before(cfg, tins, t_transfer, node)
        return None if (st is TOP or st == UNK) else st

    def tag_of(st):
        return frozenset([ANY]) if st is None else st

    # ---- tags of locals and flags (flow-insensitive union over their non-constant assignments)
    var_tags, flag_tags = {}, {}
    assigns = []
    for n in f.nodes():
        tgt = rhs = None
        if n["k"] == "BinaryOperator" and n.get("op") == "=":
            l = strip_casts(n["c"][0])
            if l is not None and l["k"] == "DeclRefExpr":
                tgt, rhs = l.get("d"), n["c"][1]
        elif n["k"] == "VarDecl" and n.get("c") and n["c"][0] is not None:
            tgt, rhs = n.get("d"), n["c"][0]
        if tgt is None:
            continue
        assigns.append((n, tgt, rhs))
    for n, tgt, rhs in assigns:
        r = strip_casts(rhs)
        if r is not None and r["k"] == "CXXBoolLiteralExpr":
            if r.get("v") == 1:
                flag_tags.setdefault(tgt, set()).update(tag_of(types_at(n)))
            continue
        if r is not None and r["k"] == "IntegerLiteral":
            continue
        if tgt in outs:
            continue
        tt = f.unit.type((f.unit.decl(tgt) or {}).get("t")) or {}
        if not tt.get("arith"):
            continue      # the current section / its header: their type is a path fact, not a tag
        if any(x["k"] == "DeclRefExpr" and x.get("d") in var_tags for x in walk(rhs)):
            for x in walk(rhs):
                if x["k"] == "DeclRefExpr" and x.get("d") in var_tags:
                    var_tags.setdefault(tgt, set()).update(var_tags[x["d"]])
        else:
            var_tags.setdefault(tgt, set()).update(tag_of(types_at(n)))

    # ---- pass 2: reaching tags of the out-parameters + flags known true
    def o_transfer(st, n, blk):
        if n["k"] == "BinaryOperator" and n.get("op") == "=":
            l = strip_casts(n["c"][0])
            if l is not None and l["k"] == "DeclRefExpr" and l.get("d") in outs:
                r = strip_casts(n["c"][1])
                if r is not None and r["k"] == "DeclRefExpr" and r.get("d") in var_tags:
                    tags = frozenset(var_tags[r["d"]])
                else:
                    tags = tag_of(types_at(n))
                st = frozenset(x for x in st if not (x[0] == "out" and x[1] == l["d"]))
                st = st | frozenset(("out", l["d"], t) for t in tags)
        return st

    def o_edge(st, blk, idx):
        if cfg.branch(blk.id) is None:
            return st
        for c in cfg.branch_conds(blk.id):
            c0, truth = strip_casts(c), idx == 0
            while c0 is not None and c0["k"] == "UnaryOperator" and c0.get("op") == "!":
                c0, truth = strip_casts(c0["c"][0]), not truth
            if c0 is not None and c0["k"] == "DeclRefExpr" and c0.get("d") in flag_tags:
                st = frozenset(x for x in st if not (x[0] == "flag" and x[1] == c0["d"]))
                st = st | {("flag", c0["d"], truth)}
        return st
    oins, _ = forward(cfg, frozenset(), o_transfer, o_edge, join=lambda a, b: frozenset(
        [x for x in a | b if x[0] == "out"] + [x for x in a & b if x[0] == "flag"]))
    n_ret = 0
    for r in f.nodes():
        if r["k"] != "ReturnStmt" or not r.get("c"):
            continue
        v = strip_casts(r["c"][0])
        d = f.decl(v) if v is not None and v["k"] == "DeclRefExpr" else None
        if not d or d.get("k") != "EnumConstant" or d["n"].startswith("NO_"):
            continue
        st = state_before(cfg, oins, o_transfer, r)
        if st is TOP:
            continue
        need = None
        for x in st:
            if x[0] == "flag" and x[2]:
                need = set(flag_tags[x[1]]) if need is None else need & set(flag_tags[x[1]])
        for p in outs:
            n_ret += 1
            have = {x[2] for x in st if x[0] == "out" and x[1] == p}
            pname = f.unit.decl(p)["n"]
            ok = bool(have) and need is not None and have == need and ANY not in have
            ctx.ob("R-HTKIND", "find_hash_table_section_index: `%s` returned with %s comes from a section of that kind" % (
                pname, d["n"]), ok, f.loc(r),
                "on every path %s was last assigned from a section tested to be %s" % (pname, sorted(need)) if ok else
                "%s can hold a value taken from a section of type %s while the kind returned was decided by a flag set "
                "for %s: with both hash sections present the index of whichever comes last is returned with the kind of "
                "the preferred one - the wrong table is walked" % (
                    pname, sorted(have) or "<never assigned>", sorted(need) if need else "<no flag>"))
    ctx.floor("R-HTKIND", "(return kind, out-parameter) pairs", n_ret, 4)


def _norm_args(f, call):
    out = []
    for a in call_args(call):
        t = expr_str(f, a)
        t = re.sub(r"\b(symbol\.|sym->|sym\.)", "SYM.", t)
        t = re.sub(r"\b(symbol_index|i)\b", "IDX", t)
        out.append(t)
    return out


def check_siblookup(ctx, P):
    names = ("lookup_symbol_from_sysv_hash_tab", "lookup_symbol_from_gnu_hash_tab", "lookup_symbol_from_symtab")
    rows = {}
    for nm in names:
        fs = [f for f in P.all_funcs() if f.n == nm and not f.dep]
        if len(fs) != 1:
            raise AnalysisBroken("anchor vanished: %s" % nm)
        f = fs[0]
        ctx.analysed(f)
        creates = [n for n, d in f.calls() if d["n"] == "create" and "elf_symbol" in (d.get("cls") or d.get("q", ""))]
        if len(creates) != 1:
            raise AnalysisBroken("anchor vanished: the elf_symbol::create call of %s" % nm)
        # resolve locals that only forward a field of the ELF symbol (sym_size = symbol.st_size, ...)
        args = []
        for a in call_args(creates[0]):
            a0 = strip_casts(a)
            while a0 is not None and a0["k"] == "DeclRefExpr" and (f.decl(a0) or {}).get("st") == "local":
                defs = [x for x in f.nodes() if (x["k"] == "VarDecl" and x.get("d") == a0.get("d") and x.get("c")
                                                 and x["c"][0] is not None)]
                asg = [x for x in f.nodes() if x["k"] == "BinaryOperator" and x.get("op") == "=" and
                       strip_casts(x["c"][0]) is not None and strip_casts(x["c"][0])["k"] == "DeclRefExpr" and
                       strip_casts(x["c"][0]).get("d") == a0.get("d")]
                srcs = [x["c"][0] for x in defs] + [x["c"][1] for x in asg]
                stepped = any(x["k"] == "UnaryOperator" and x.get("op") in ("++", "--") and
                              strip_casts(x["c"][0]) is not None and strip_casts(x["c"][0]).get("d") == a0.get("d")
                              for x in f.nodes())
                if len(srcs) != 1 or stepped:
                    break
                a0 = strip_casts(srcs[0])
            t = expr_str(f, a0) if a0 is not None else "?"
            t = re.sub(r"\b(symbol\.|sym->|sym\.)", "SYM.", t)
            t = re.sub(r"\b(symbol_index|i)\b", "IDX", t)
            t = re.sub(r"\bsym_name_str\b|\bname_str\b", "NAME", t)
            args.append(t)
        rows[nm] = (f, creates[0], args)
    ref = rows[names[2]][2]
    for nm in names[:2]:
        f, c, args = rows[nm]
        diffs = [(i, a, b) for i, (a, b) in enumerate(zip(args, ref)) if a != b]
        ok = len(args) == len(ref) and not diffs
        ctx.ob("R-SIBLOOKUP", "%s builds the symbol it returns like lookup_symbol_from_symtab" % nm, ok, f.loc(c),
               "elf_symbol::create(%s)" % ", ".join(args) if ok else
               "argument(s) %s differ from the linear lookup's (%s): the same file yields different symbols depending on "
               "the hash table used" % (["#%d `%s`" % (i, a) for i, a, b in diffs], ["`%s`" % b for i, a, b in diffs]))
    ctx.floor("R-SIBLOOKUP", "lookup siblings", len(rows), 3)


def run(ctx):
    ctx.clause = ("the hash section indexes handed out belong to the kind of table announced (whatever the order of the "
                  "sections), and the SysV / GNU / linear lookups build the symbol they return from the same fields")
    ctx.rules = ["R-HTKIND", "R-SIBLOOKUP", "R-NAMECMP", "R-CHAINEXIT"]
    P = ctx.program(UNITS)
    check_htkind(ctx, P)
    check_siblookup(ctx, P)
    check_namecmp(ctx, P)
    check_chainexit(ctx, P)
    ctx.assume("the walks of the two hash tables themselves (hash functions, bloom filter, chains) are algorithmic and not "
               "decided; their memory safety on corrupted tables is decided under C34")



def check_namecmp(ctx, P):
    """R-NAMECMP: compare_symbol_name - the one name test shared by the three lookups - decides *equality* of whole
    names.  A length-bounded comparison (strncmp / memcmp / string::compare(pos, n, ..)) answers "is a prefix of" unless
    the function also tests that the two lengths are equal: looking `sym_2` up would then find `sym_282`."""
    fs = [f for f in P.all_funcs() if f.n == "compare_symbol_name" and not f.dep and f.cfg() is not None]
    if len(fs) != 1:
        raise AnalysisBroken("anchor vanished: compare_symbol_name (src/abg-dwarf-reader.cc)")
    f = fs[0]
    ctx.analysed(f)
    bounded = []
    for n in f.nodes():
        if n["k"] == "CallExpr" and (f.decl(n) or {}).get("n") in ("strncmp", "memcmp", "strncasecmp"):
            bounded.append(n)
        if n["k"] == "CXXMemberCallExpr" and (f.decl(n) or {}).get("n") == "compare" and len(call_args(n)) >= 3:
            bounded.append(n)
    len_eq = False
    for n in f.nodes():
        if n["k"] == "BinaryOperator" and n.get("op") in ("==", "!="):
            txt = expr_str(f, n)
            if any(w in txt for w in ("size()", "length()", "strlen(")) and txt.count("size()") + txt.count("length()") + txt.count("strlen(") >= 2:
                len_eq = True
    rets = [n for n in f.nodes() if n["k"] == "ReturnStmt" and n.get("c")]
    ctx.floor("R-NAMECMP", "returns of compare_symbol_name", len(rets), 1)
    ok = not bounded or len_eq
    ctx.ob("R-NAMECMP", "compare_symbol_name compares whole names", ok, f.loc(bounded[0]) if bounded else f.loc(),
           "no length-bounded comparison (or the lengths are compared too)" if ok else
           "`%s` compares at most as many characters as one of the names has and the lengths are never compared: a name "
           "that is a proper prefix of a symbol in the same hash bucket is reported as found" % expr_str(f, bounded[0])[:70])



SYM_FIELDS = ("st_shndx", "st_info", "st_other", "st_value", "st_size")
SYM_OK_CALLEES = ("elf_strptr", "compare_symbol_name", "gelf_getsym", "stt_to_elf_symbol_type", "stb_to_elf_symbol_binding",
                  "stv_to_elf_symbol_visibility", "create", "get_version_for_symbol")


def check_chainexit(ctx, P):
    n = 0
    for name in ("lookup_symbol_from_sysv_hash_tab", "lookup_symbol_from_gnu_hash_tab"):
        fs = [f for f in P.all_funcs() if f.n == name and not f.dep and f.cfg() is not None]
        if len(fs) != 1:
            raise AnalysisBroken("anchor vanished: %s" % name)
        f = fs[0]
        ctx.analysed(f)
        symvars = {x.get("d") for x in f.nodes() if x["k"] == "VarDecl" and
                   "GElf_Sym" in ((f.unit.type((f.unit.decl(x.get("d")) or {}).get("t")) or {}).get("s") or "")}
        loops = [x for x in f.nodes() if x["k"] in ("DoStmt", "WhileStmt", "ForStmt") and
                 any(y["k"] == "CallExpr" and (f.decl(y) or {}).get("n") == "gelf_getsym" for y in walk(x))]
        if not loops or not symvars:
            raise AnalysisBroken("anchor vanished: the chain walk of %s" % name)

        def depends_on_symbol(cond):
            for y in walk(cond):
                if y["k"] == "MemberExpr" and (f.decl(y) or {}).get("n") in SYM_FIELDS:
                    return "field %s" % f.decl(y)["n"]
                if y["k"] in ("CallExpr", "CXXMemberCallExpr") and (f.decl(y) or {}).get("n") not in SYM_OK_CALLEES:
                    for a in call_args(y):
                        if any(z["k"] == "DeclRefExpr" and z.get("d") in symvars for z in walk(a)):
                            return "%s(.., symbol, ..)" % (f.decl(y) or {}).get("n")
            return None
        for loop in loops:
            for x in walk(loop):
                if x["k"] not in ("BreakStmt", "ContinueStmt", "ReturnStmt"):
                    continue
                guards = [a for a in f.ancestors(x) if a["k"] == "IfStmt" and a["c"][0] is not None and any(z is a for z in walk(loop))]
                n += 1
                why = None
                for g in guards:
                    why = why or depends_on_symbol(g["c"][0])
                k = sum(1 for o in ctx.obligations if o["rule"] == "R-CHAINEXIT" and o["entity"].startswith(name))
                ctx.ob("R-CHAINEXIT", "%s: early exit #%d of the chain walk does not depend on the candidate's other fields" % (name, k + 1),
                       why is None, f.loc(x), "guarded by %s" % (" && ".join(expr_str(f, g["c"][0])[:50] for g in guards) or "nothing") if why is None else
                       "`%s` under `%s` depends on %s: a defined symbol (e.g. an absolute one, st_shndx = SHN_ABS) ends the walk or is "
                       "skipped, and symbols further down the chain are not found although the symbol table has them" % (
                           x["k"].replace("Stmt", "").lower(), expr_str(f, guards[0]["c"][0])[:60] if guards else "", why))
    ctx.floor("R-CHAINEXIT", "early exits in the chain walks", n, 4)
