"""C08 - exit status obeys the documented bit-field and agrees with the report.

R-STATUS S1-S4: abstract interpretation of every value that can reach the exit status of abidiff,
abicompat and abipkgdiff.  R-ATOMS: lemma L1 (has_incompatible_changes => diff_has_net_changes, per
reporter) and agreement between each reporter's net-change predicate and the counters printed by
emit_diff_stats on that reporter's branch.
"""
from rules import status_rules as sr
from rules import atoms as at
from engine.compdb import AnalysisBroken


def check_atoms(ctx):
    """returns True iff L1 may be used to prune (INCOMPAT without CHANGE) worlds"""
    P = ctx.program(at.UNITS)
    pairs = at.netpairs(ctx, P)
    pbp = {p: name for name, (p, _) in pairs.items() if p}
    exc = at.load_exceptions()
    inc = P.fn1("abigail::comparison::corpus_diff::has_incompatible_changes")
    ctx.analysed(inc)
    inc_dis, _ = at.verdict_disjuncts(inc, pbp)
    reporters = {}
    for f in P.all_funcs():
        if f.n == "diff_has_net_changes" and f.cls and len(f.r["params"]) == 1 and not f.dep:
            pt = f.unit.type(f.params()[0]["t"])["c"]
            if "corpus_diff" in pt and f.cls != "abigail::comparison::reporter_base":
                reporters[f.cls] = f
    ctx.floor("R-ATOMS", "reporters overriding diff_has_net_changes(const corpus_diff*)", len(reporters), 2)
    sf, leaf, dflt, common, flags = at.summary_atoms(P, pbp)
    ctx.analysed(sf)
    l1_all = True
    for cls, f in sorted(reporters.items()):
        ctx.analysed(f)
        short = cls.split("::")[-1]
        dis, _ = at.verdict_disjuncts(f, pbp)
        have = set()
        for conj in dis:
            if len(conj) == 1:
                have.add(conj[0])
        # L1
        for conj in inc_dis:
            text = " && ".join(a[1] for a in conj)
            implied = any(a in have for a in conj)
            status = "discharged"
            if not implied:
                for e in exc["L1"]:
                    if e["reporter"] == cls and any(a == ("net", e["atom"]) for a in conj) and \
                            all(("net", x) in have for x in e["implied_by"]):
                        implied, status = True, "assumed"
                        ctx.assume("L1 for %s, disjunct `%s`: %s" % (short, text, e["reason"]))
            l1_all &= ctx.ob("R-ATOMS/L1", "%s: has_incompatible_changes disjunct `%s`" % (short, text), implied,
                             inc.loc(), "implied by a disjunct of %s::diff_has_net_changes (%s)" % (short, status)
                             if implied else "no disjunct of %s::diff_has_net_changes is implied by it: the "
                             "INCOMPATIBLE bit can be set without the CHANGE bit" % short)
        # (ii) = (iii)
        is_leaf = "leaf" in short
        printed = (leaf if is_leaf else dflt) | common
        want = {("net", a) for a in printed} | {("flag", x) for x in flags}
        for a in sorted(want | have):
            ctx.ob("R-ATOMS/SUMMARY", "%s: %s" % (short, a[1]), a in want and a in have, f.loc(),
                   "counter is %s by emit_diff_stats (%s branch) and %s by %s::diff_has_net_changes" % (
                       "printed" if a in want else "NOT printed", "leaf" if is_leaf else "default",
                       "tested" if a in have else "NOT tested", short))
    # L1': has_incompatible_changes => has_changes (used by abipkgdiff's self comparison)
    _, feed = at.feed_table(ctx, P)
    hc, conts, hflags = at.has_changes_containers(ctx, P)
    l1p_all = True
    for conj in inc_dis:
        text = " && ".join(a[1] for a in conj)
        implied, why = False, ""
        for kind, a in conj:
            if kind == "flag" and a in hflags:
                implied, why = True, "has_changes tests %s" % a
            if kind == "net":
                pair = pairs.get(a, (None, None))[0]
                if pair:
                    src = feed.get(pair[0], set())
                    hit = sorted(src & conts)
                    if src and hit:
                        implied, why = True, "%s = %s - %s, %s is fed from %s, has_changes tests !%s.empty()" % (
                            a, pair[0], pair[1], pair[0], "/".join(sorted(src)), hit[0])
        l1p_all &= ctx.ob("R-ATOMS/L1'", "has_changes covers incompatible disjunct `%s`" % text, implied, hc.loc(),
                          why or "no container feeding this counter is tested by corpus_diff::has_changes")
    global L1P
    L1P = l1p_all
    ctx.floor("R-ATOMS/L1", "disjuncts of has_incompatible_changes", len(inc_dis), 9)
    ctx.floor("R-ATOMS/SUMMARY", "net counters printed by emit_diff_stats", len(leaf | dflt | common), 16)
    return l1_all


L1P = False


def l1_prune(w):
    inc = {k[1] for k, v in w.preds if k[0] == "has_incompatible_changes" and v}
    nonet = {k[1] for k, v in w.preds if k[0] == "has_net_changes" and not v}
    noraw = {k[1] for k, v in w.preds if k[0] == "has_changes" and not v} if L1P else set()
    return bool(inc & (nonet | noraw))


def run(ctx):
    ctx.clause = ("every value that can reach the exit status of abidiff/abicompat/abipkgdiff is a combination of "
                  "the documented bits with INCOMPATIBLE=>CHANGE and USAGE=>ERROR; the INCOMPATIBLE predicate implies "
                  "each reporter's net-change predicate; each reporter's net-change predicate tests exactly the "
                  "counters its summary prints; every section of the report and the filtered-out counter behind the verdict "
                  "are switched off by the same show_* options")
    ctx.rules = ["R-STATUS/S1-S4", "R-ATOMS/L1", "R-ATOMS/L1'", "R-ATOMS/SUMMARY", "R-OPTGATE"]
    l1 = check_atoms(ctx)
    from rules import supprapp_rules
    supprapp_rules.check_optgate(ctx, ctx.program(at.UNITS))
    total = 0
    for tool in ("abidiff", "abicompat", "abipkgdiff"):
        P, I, main, rets = sr.analyse_tool(ctx, tool, infeasible=l1_prune if l1 else None)
        total += sr.check_exit_values(ctx, tool, main, rets)
    ctx.floor("R-STATUS", "distinct (return site, value) pairs of the three mains", total, 60)
    ctx.assume("worlds with has_incompatible_changes() true and has_net_changes() false on the same corpus_diff are "
               "pruned using lemma L1 (discharged for the default reporter, assumed for the leaf reporter)")
