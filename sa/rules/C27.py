"""C27 - whitelists select exactly the named interfaces: R-RXESC (literal-pattern clause).

 E1  regex::generate_from_strings: every element of the input vector reaches the pattern only
     as the operand of regex::escape (no raw insertion of *i / strs[k]); the pattern is anchored
     (^( ... )$) and alternatives are separated by '|'.
 E2  operator<<(ostream&, const escape&): the set of characters that get a backslash (the
     `specials` literal) contains every POSIX ERE metacharacter  ^ . [ ] $ ( ) | * + ? { } \\ ,
     the backslash insertion is control-dependent on membership in that set, and the character
     itself is inserted on every iteration.
 E3  gen_suppr_spec_from_kernel_abi_whitelists: the collected names flow into the suppression's
     regex string only through generate_from_strings.
"""
from engine.facts import walk, call_args, member_call_object, expr_str
from engine.cfg import strip_casts
from engine.compdb import AnalysisBroken

UNITS = ["src/abg-regex.cc", "src/abg-tools-utils.cc"]
ERE_META = "^.[]$()|*+?{}\\"


def run(ctx):
    ctx.clause = ("names taken from a whitelist become literal, anchored alternatives of the generated pattern: every "
                  "ERE metacharacter is escaped and no name reaches the pattern unescaped")
    ctx.rules = ["R-RXESC/E1", "R-RXESC/E2", "R-RXESC/E3", "R-OPTARITY", "R-KEEPDROP", "R-WLONCE"]
    P = ctx.program(UNITS)
    g = P.fn1("abigail::regex::generate_from_strings")
    ctx.analysed(g)
    ins = [n for n in g.nodes() if n["k"] == "CXXOperatorCallExpr" and n.get("op") == "<<"]
    ctx.floor("R-RXESC/E1", "stream insertions in generate_from_strings", len(ins), 4)
    raw, escaped, lits = [], 0, []
    for n in ins:
        a = strip_casts(call_args(n)[1])
        while a is not None and a["k"] in ("CXXConstructExpr", "CXXTemporaryObjectExpr", "CXXFunctionalCastExpr") \
                and a.get("c"):
            d = g.decl(a)
            if d is not None and d.get("cls", "").endswith("regex::escape"):
                break
            a = strip_casts(a["c"][0])
        if a is None:
            continue
        if a["k"] == "StringLiteral":
            lits.append(a.get("s", ""))
            continue
        d = g.decl(a)
        if a["k"] in ("CXXConstructExpr", "CXXTemporaryObjectExpr", "CXXFunctionalCastExpr") and d is not None and \
                d.get("cls", "").endswith("regex::escape"):
            escaped += 1
            continue
        t = g.type(a)
        if t is not None and "basic_string" in t["c"]:
            raw.append(n)
    ctx.ob("R-RXESC/E1", "generate_from_strings: no element is inserted unescaped", not raw and escaped >= 2, g.loc(),
           "%d insertion(s) through regex::escape, %d raw string insertion(s)%s" % (
               escaped, len(raw), "" if not raw else " at " + ", ".join(g.loc(x) for x in raw)))
    ctx.ob("R-RXESC/E1", "generate_from_strings: pattern is anchored and alternated",
           any(l.startswith("^(") for l in lits) and any(l.endswith(")$") for l in lits) and "|" in lits, g.loc(),
           "literals inserted: %s" % lits)
    # ---- E2
    es = [f for f in P.fn("abigail::regex::operator<<") if any("escape" in (f.unit.type(p.get("t")) or {}).get("c", "")
                                                              for p in f.params())]
    if len(es) != 1:
        raise AnalysisBroken("anchor vanished: operator<<(ostream&, const regex::escape&)")
    e = es[0]
    ctx.analysed(e)
    specials = None
    for n in e.nodes():
        if n["k"] == "VarDecl" and n.get("c"):
            for x in walk(n["c"][0]):
                if x["k"] == "StringLiteral":
                    specials = x.get("s")
    missing = [c for c in ERE_META if specials is None or c not in specials]
    ctx.ob("R-RXESC/E2", "escape: specials covers every ERE metacharacter", not missing, e.loc(),
           "specials = %r; missing: %s" % (specials, missing or "none"))
    # Two recognised implementations of the copy loop; anything else is "analysis broken" (the rule cannot read it),
    # never a violation:
    #  A. per character:  for each c: if (specials.find(c) != npos) os << '\\'; os << c;
    #  B. chunked:        pos = str.find_first_of(specials[, resume]); write(run before pos); os << '\\' << str[pos];
    #                     start = pos + 1; ...; write(tail from start)
    loops = [n for n in e.nodes() if n["k"] in ("ForStmt", "CXXForRangeStmt", "WhileStmt")]
    finds = [y for y in e.nodes() if y["k"] == "CXXMemberCallExpr" and (e.decl(y) or {}).get("n") == "find_first_of"]
    if finds:
        _escape_chunked(ctx, e, finds)
    else:
        ok_guard = ok_char = False
        for lp in loops:
            body = lp["c"][-1]
            for x in walk(body):
                if x["k"] == "IfStmt":
                    cond = x["c"][0]
                    has_find = any(y["k"] == "CXXMemberCallExpr" and (e.decl(y) or {}).get("n") == "find"
                                   for y in walk(cond))
                    bs = any(y["k"] == "CharacterLiteral" and y.get("v") == 92 for y in walk(x["c"][1])) or \
                        any(y["k"] == "StringLiteral" and y.get("s") == "\\" for y in walk(x["c"][1]))
                    if has_find and bs:
                        ok_guard = True
            stmts = body.get("c", []) if body["k"] == "CompoundStmt" else [body]
            for s_ in stmts:
                if s_ is not None and s_["k"] == "CXXOperatorCallExpr" and s_.get("op") == "<<":
                    a = strip_casts(call_args(s_)[1])
                    if a is not None and a["k"] in ("CXXOperatorCallExpr", "UnaryOperator", "DeclRefExpr"):
                        ok_char = True
        if not loops:
            raise AnalysisBroken("operator<<(ostream&, const escape&): no loop over the string found - the copy idiom is "
                                 "not one the rule can read")
        ctx.ob("R-RXESC/E2", "escape: backslash inserted exactly for members of specials", ok_guard, e.loc(),
               "the `\\\\` insertion is guarded by a lookup in specials")
        ctx.ob("R-RXESC/E2", "escape: every character is copied", ok_char, e.loc(),
               "the character itself is inserted on every iteration")
    # ---- E3
    w = P.fn1("abigail::tools_utils::gen_suppr_spec_from_kernel_abi_whitelists")
    ctx.analysed(w)
    setters = [n for n in w.nodes() if n["k"] == "CXXMemberCallExpr" and
               (w.decl(n) or {}).get("n", "").endswith("_regex_str") and (w.decl(n) or {}).get("n", "").startswith("set_")]
    ctx.floor("R-RXESC/E3", "regex-string setters in gen_suppr_spec_from_kernel_abi_whitelists", len(setters), 2)
    gen_locals = set()
    for n in w.nodes():
        if n["k"] == "VarDecl" and n.get("c"):
            if any(x["k"] == "CallExpr" and (w.decl(x) or {}).get("n") == "generate_from_strings" for x in walk(n["c"][0])):
                gen_locals.add(n.get("d"))
    for n in setters:
        a = strip_casts(call_args(n)[0])
        ok = a is not None and ((a["k"] == "DeclRefExpr" and a.get("d") in gen_locals) or
                                any(x["k"] == "CallExpr" and (w.decl(x) or {}).get("n") == "generate_from_strings"
                                    for x in walk(a)))
        ctx.ob("R-RXESC/E3", "whitelist: %s(<generate_from_strings>)" % w.decl(n)["n"], ok, w.loc(n),
               "argument `%s` is the generated pattern" % expr_str(w, a) if ok else
               "a regex string is set from `%s`, which does not come from generate_from_strings" % expr_str(w, a))
    check_keepdrop(ctx)
    check_wlonce(ctx)
    ctx.assume("keep/drop selection semantics (which declarations the compiled pattern then matches) is runtime; "
               "user-supplied --keep/--drop patterns are compiled unmodified by design")



def check_wlonce(ctx):
    """R-WLONCE: what gen_suppr_spec_from_kernel_abi_whitelists() returns are *negative* suppressions - "drop every
    function (variable) whose name is not one of these" - and the readers drop an artifact as soon as one suppression
    matches.  Several whitelists therefore select the union of their names only if all the files go into *one* call: every
    call of the generator, in the tools and in the library, (a) is handed a whole vector that lives outside the call (an
    option field, a parameter, a variable - not a vector built in the argument), and (b) is not inside a loop.  One call
    per file yields one "drop the rest" rule per file: a name survives only if every file lists it."""
    P = ctx.program(["tools/abidiff.cc", "tools/abidw.cc", "tools/kmidiff.cc", "tools/abipkgdiff.cc", "src/abg-tools-utils.cc"])
    n = 0
    seen = {}
    for f in sorted(P.all_funcs(), key=lambda x: (x.file, x.l0)):
        if f.dep:
            continue
        for x in f.nodes():
            if x["k"] != "CallExpr" or (f.decl(x) or {}).get("n") != "gen_suppr_spec_from_kernel_abi_whitelists":
                continue
            n += 1
            ctx.analysed(f)
            a = call_args(x)
            a0 = strip_casts(a[0]) if a else None
            while a0 is not None and a0["k"] in ("MaterializeTemporaryExpr", "CXXBindTemporaryExpr", "ExprWithCleanups") and a0.get("c"):
                a0 = strip_casts(a0["c"][0])
            whole = a0 is not None and a0["k"] in ("DeclRefExpr", "MemberExpr")
            loop = next((p["k"] for p in f.ancestors(x) if p["k"] in ("ForStmt", "WhileStmt", "DoStmt", "CXXForRangeStmt")), None)
            ok = whole and loop is None
            tool = f.relfile.split("/")[-1]
            ent = "%s %s: the whitelist suppressions are generated from all the whitelist files at once" % (tool, f.n)
            seen[ent] = seen.get(ent, 0) + 1
            if seen[ent] > 1:
                ent += " #%d" % seen[ent]
            ctx.ob("R-WLONCE", ent, ok, f.loc(x),
                   "one call, handed `%s`" % expr_str(f, a0) if ok else
                   "the generator is called %s%s: each call yields its own `drop whatever is not listed here` suppressions, and a "
                   "name that is not in every file is dropped - the intersection of the whitelists instead of their union" % (
                       "inside a %s " % loop if loop else "", "with a vector built for the call (`%s`)" % expr_str(f, a0)[:50] if not whole else ""))
    ctx.floor("R-WLONCE", "calls of gen_suppr_spec_from_kernel_abi_whitelists", n, 3)


def _escape_chunked(ctx, e, finds):
    """idiom B.  Obligations: (1) every search for the next special resumes at the first character not yet written
    (the variable that was set to `pos + 1` - not one past it, not `pos`), (2) the run before the special and the
    tail are written from that same variable, (3) the special itself is written after a backslash."""
    def var(n):
        n = strip_casts(n)
        return n.get("d") if n is not None and n["k"] == "DeclRefExpr" else None
    # pos: the variable(s) receiving find_first_of
    pos_vars = set()
    for n in e.nodes():
        if n["k"] == "VarDecl" and n.get("c") and n["c"][0] is not None and any(x["i"] in {f_["i"] for f_ in finds} for x in walk(n["c"][0])):
            pos_vars.add(n.get("d"))
        if n["k"] == "BinaryOperator" and n.get("op") == "=" and any(x["i"] in {f_["i"] for f_ in finds} for x in walk(n["c"][1])):
            pos_vars.add(var(n["c"][0]))
    # start: variables assigned `pos + 1`
    start_vars = set()
    for n in e.nodes():
        if n["k"] == "BinaryOperator" and n.get("op") == "=":
            r = strip_casts(n["c"][1])
            if r is not None and r["k"] == "BinaryOperator" and r.get("op") == "+" and var(r["c"][0]) in pos_vars and \
                    strip_casts(r["c"][1]) is not None and strip_casts(r["c"][1]).get("v") == 1:
                start_vars.add(var(n["c"][0]))
    if not pos_vars or not start_vars:
        raise AnalysisBroken("operator<<(ostream&, const escape&): find_first_of is used but the pos / start variables of "
                             "the chunked copy idiom could not be identified")
    seen = 0
    for f_ in finds:
        a = call_args(f_)
        if len(a) < 2 or (strip_casts(a[1]) or {}).get("k") == "CXXDefaultArgExpr" or \
                (strip_casts(a[1]) or {}).get("v") == 0:
            continue          # the initial search from the beginning
        seen += 1
        r = strip_casts(a[1])
        ok = var(r) in start_vars
        ctx.ob("R-RXESC/E2", "escape: the search for the next special resumes at the first unwritten character", ok,
               e.loc(f_), "resumes at `%s`" % expr_str(e, r) if ok else
               "the next search starts at `%s`, not at the variable set to pos + 1: the character right after a special "
               "is never examined, so two adjacent metacharacters leave the second one unescaped" % expr_str(e, r))
    if not seen:
        raise AnalysisBroken("operator<<(ostream&, const escape&): no resumed find_first_of(specials, from) call")
    writes = [n for n in e.nodes() if n["k"] == "CXXMemberCallExpr" and (e.decl(n) or {}).get("n") == "write"]
    okw = len(writes) >= 2 and all(any(x["k"] == "DeclRefExpr" and x.get("d") in start_vars for x in walk(call_args(w)[0]))
                                   for w in writes)
    ctx.ob("R-RXESC/E2", "escape: every character is copied", okw, e.loc(),
           "%d write() call(s), each starting at the resume variable (run before a special, and the tail)" % len(writes))
    bs = False
    for n in e.nodes():
        if n["k"] == "CXXOperatorCallExpr" and n.get("op") == "<<":
            txt = expr_str(e, n)
            if "'\\\\'" in txt or "92" in txt:
                if any(x["k"] == "ArraySubscriptExpr" or (x["k"] == "CXXOperatorCallExpr" and x.get("op") == "[]")
                       for x in walk(n)):
                    bs = True
    ctx.ob("R-RXESC/E2", "escape: backslash inserted exactly for members of specials", bs, e.loc(),
           "each position found by find_first_of(specials) is written as a backslash followed by str[pos]")



def check_keepdrop(ctx):
    """R-OPTARITY over the tools + R-KEEPDROP: in abidiff every path from a store into a corpus' keep / drop pattern
    vectors (get_regex_patterns_of_{fns,vars}_to_{keep,suppress}) reaches corpus::maybe_drop_some_exported_decls()
    before the function returns - the exported sets were built at load time, before the patterns were known."""
    from rules import optarity_rule
    from rules.idref_rule import _passes_on_all_paths
    P = ctx.program(None)
    n = optarity_rule.check(ctx, P)
    ctx.floor("R-OPTARITY", "option branches that read an operand", n, 40)
    unit = P.units["tools/abidiff.cc"]
    fs = [f for f in unit.functions if not f.dep and f.cfg() is not None and any(
        (f.decl(x) or {}).get("n", "").startswith("get_regex_patterns_of_") for x in f.nodes() if x["k"] == "CXXMemberCallExpr")]
    n_st = 0
    for f in fs:
        ctx.analysed(f)
        for x in f.nodes():
            if x["k"] == "CXXMemberCallExpr" and (f.decl(x) or {}).get("n") in ("assign", "push_back", "insert"):
                o = strip_casts(member_call_object(x))
                if o is None or o["k"] != "DeclRefExpr":
                    continue
                init = None
                for v in f.nodes():
                    if v["k"] == "VarDecl" and v.get("d") == o.get("d") and v.get("c") and v["c"][0] is not None:
                        init = v["c"][0]
                if init is None or not any((f.decl(y) or {}).get("n", "").startswith("get_regex_patterns_of_")
                                           for y in walk(init) if y["k"] == "CXXMemberCallExpr"):
                    continue
                n_st += 1
                getter = next((f.decl(y) or {}).get("n") for y in walk(init) if y["k"] == "CXXMemberCallExpr" and
                              (f.decl(y) or {}).get("n", "").startswith("get_regex_patterns_of_"))
                ok = _reaches_on_all_feasible_paths(f, x, lambda e: e["k"] == "CXXMemberCallExpr" and
                                                    (f.decl(e) or {}).get("n") == "maybe_drop_some_exported_decls")
                ctx.ob("R-KEEPDROP", "abidiff %s: patterns stored through %s() are applied to the exported declarations" % (
                    f.n, getter), ok, f.loc(x),
                    "every path from the store reaches corpus::maybe_drop_some_exported_decls()" if ok else
                    "the patterns are stored into the corpus after its exported functions / variables were built and "
                    "nothing re-applies them: the option has no effect on what is compared")
    ctx.floor("R-KEEPDROP", "stores into the keep/drop pattern vectors in abidiff", n_st, 4)



def _reaches_on_all_feasible_paths(f, start, pred):
    """must-pass-through from `start` to the exit with correlated-branch pruning: the conditions that enclose `start`
    (it sits in their then-branch) are known true, so a later branch whose condition has one of them as a disjunct can
    only take its true edge (the tested objects are the read-only option vectors)."""
    cfg = f.cfg()
    known = set()
    prev = start
    for a in f.ancestors(start):
        if a["k"] == "IfStmt" and a["c"][1] is not None and any(z["i"] == prev["i"] for z in walk(a["c"][1])):
            known.add(expr_str(f, a["c"][0]).replace(" ", ""))
        prev = a

    def disjuncts(c):
        c = strip_casts(c)
        if c is not None and c["k"] == "BinaryOperator" and c.get("op") == "||":
            return disjuncts(c["c"][0]) + disjuncts(c["c"][1])
        return [expr_str(f, c).replace(" ", "")] if c is not None else []
    w = cfg.where(start)
    if w is None:
        return False
    seen, stack = set(), [(w[0], w[1] + 1)]
    while stack:
        b, i = stack.pop()
        blk = cfg.blocks[b]
        if any(pred(e) for e in blk.elems[i:]):
            continue
        if b == cfg.exit:
            return False
        succs = [(idx, s_) for idx, s_ in enumerate(blk.succs) if s_ is not None and s_ in cfg.blocks]
        br = cfg.branch(b)
        if br is not None:
            forced = None
            for c in cfg.branch_conds(b):
                # in clang's split form each operand of || is a branch of its own: operand true -> true edge
                if any(d in known for d in disjuncts(c)):
                    forced = 0
            if forced is not None:
                succs = [(idx, s_) for idx, s_ in succs if idx == forced]
        if not succs and b != cfg.exit:
            continue
        for idx, s_ in succs:
            if (s_, 0) not in seen:
                seen.add((s_, 0))
                stack.append((s_, 0))
    return True
