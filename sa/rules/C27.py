"""C27 - whitelists select exactly the named interfaces: R-RXESC (literal-pattern clause).

 E1  regex::generate_from_strings: every element of the input vector reaches the pattern only
     as the operand of regex::escape (no raw insertion of *i / strs[k]); the pattern is anchored
     (^( ... )$) and alternatives are separated by '|'.
 E2  operator<<(ostream&, const escape&): the set of characters that get a backslash (the
     `specials` literal) contains every POSIX ERE metacharacter  ^ . [ ] $ ( ) | * + ? { } \\ ,
     the backslash insertion is control-dependent on membership in that set, and the character
     itself is inserted on every iteration.
 E3  gen_suppr_spec_from_kernel_abi_whitelists: the collected names flow into the suppression's
     regex string only through generate_from_strings.
"""
from engine.facts import walk, call_args, member_call_object, expr_str
from engine.cfg import strip_casts
from engine.compdb import AnalysisBroken

UNITS = ["src/abg-regex.cc", "src/abg-tools-utils.cc"]
ERE_META = "^.[]$()|*+?{}\\"


def run(ctx):
    ctx.clause = ("names taken from a whitelist become literal, anchored alternatives of the generated pattern: every "
                  "ERE metacharacter is escaped and no name reaches the pattern unescaped")
    ctx.rules = ["R-RXESC/E1", "R-RXESC/E2", "R-RXESC/E3"]
    P = ctx.program(UNITS)
    g = P.fn1("abigail::regex::generate_from_strings")
    ctx.analysed(g)
    ins = [n for n in g.nodes() if n["k"] == "CXXOperatorCallExpr" and n.get("op") == "<<"]
    ctx.floor("R-RXESC/E1", "stream insertions in generate_from_strings", len(ins), 4)
    raw, escaped, lits = [], 0, []
    for n in ins:
        a = strip_casts(call_args(n)[1])
        while a is not None and a["k"] in ("CXXConstructExpr", "CXXTemporaryObjectExpr", "CXXFunctionalCastExpr") \
                and a.get("c"):
            d = g.decl(a)
            if d is not None and d.get("cls", "").endswith("regex::escape"):
                break
            a = strip_casts(a["c"][0])
        if a is None:
            continue
        if a["k"] == "StringLiteral":
            lits.append(a.get("s", ""))
            continue
        d = g.decl(a)
        if a["k"] in ("CXXConstructExpr", "CXXTemporaryObjectExpr", "CXXFunctionalCastExpr") and d is not None and \
                d.get("cls", "").endswith("regex::escape"):
            escaped += 1
            continue
        t = g.type(a)
        if t is not None and "basic_string" in t["c"]:
            raw.append(n)
    ctx.ob("R-RXESC/E1", "generate_from_strings: no element is inserted unescaped", not raw and escaped >= 2, g.loc(),
           "%d insertion(s) through regex::escape, %d raw string insertion(s)%s" % (
               escaped, len(raw), "" if not raw else " at " + ", ".join(g.loc(x) for x in raw)))
    ctx.ob("R-RXESC/E1", "generate_from_strings: pattern is anchored and alternated",
           any(l.startswith("^(") for l in lits) and any(l.endswith(")$") for l in lits) and "|" in lits, g.loc(),
           "literals inserted: %s" % lits)
    # ---- E2
    es = [f for f in P.fn("abigail::regex::operator<<") if any("escape" in (f.unit.type(p.get("t")) or {}).get("c", "")
                                                              for p in f.params())]
    if len(es) != 1:
        raise AnalysisBroken("anchor vanished: operator<<(ostream&, const regex::escape&)")
    e = es[0]
    ctx.analysed(e)
    specials = None
    for n in e.nodes():
        if n["k"] == "VarDecl" and n.get("c"):
            for x in walk(n["c"][0]):
                if x["k"] == "StringLiteral":
                    specials = x.get("s")
    missing = [c for c in ERE_META if specials is None or c not in specials]
    ctx.ob("R-RXESC/E2", "escape: specials covers every ERE metacharacter", not missing, e.loc(),
           "specials = %r; missing: %s" % (specials, missing or "none"))
    # backslash insertion guarded by find(...) != npos ; the character inserted unconditionally in the loop
    loops = [n for n in e.nodes() if n["k"] in ("ForStmt", "CXXForRangeStmt", "WhileStmt")]
    ok_guard = ok_char = False
    for lp in loops:
        body = lp["c"][-1]
        for x in walk(body):
            if x["k"] == "IfStmt":
                cond = x["c"][0]
                has_find = any(y["k"] == "CXXMemberCallExpr" and (e.decl(y) or {}).get("n") in ("find", "find_first_of")
                               for y in walk(cond))
                bs = any(y["k"] == "CharacterLiteral" and y.get("v") == 92 for y in walk(x["c"][1])) or \
                    any(y["k"] == "StringLiteral" and y.get("s") == "\\" for y in walk(x["c"][1]))
                if has_find and bs:
                    ok_guard = True
        # an insertion of *i that is a direct statement of the loop body (not under the if)
        stmts = body.get("c", []) if body["k"] == "CompoundStmt" else [body]
        for s in stmts:
            if s is not None and s["k"] == "CXXOperatorCallExpr" and s.get("op") == "<<":
                a = strip_casts(call_args(s)[1])
                if a is not None and a["k"] in ("CXXOperatorCallExpr", "UnaryOperator", "DeclRefExpr"):
                    ok_char = True
    ctx.ob("R-RXESC/E2", "escape: backslash inserted exactly for members of specials", ok_guard, e.loc(),
           "the `\\\\` insertion is guarded by a lookup in specials")
    ctx.ob("R-RXESC/E2", "escape: every character is copied", ok_char, e.loc(),
           "the character itself is inserted on every iteration")
    # ---- E3
    w = P.fn1("abigail::tools_utils::gen_suppr_spec_from_kernel_abi_whitelists")
    ctx.analysed(w)
    setters = [n for n in w.nodes() if n["k"] == "CXXMemberCallExpr" and
               (w.decl(n) or {}).get("n", "").endswith("_regex_str") and (w.decl(n) or {}).get("n", "").startswith("set_")]
    ctx.floor("R-RXESC/E3", "regex-string setters in gen_suppr_spec_from_kernel_abi_whitelists", len(setters), 2)
    gen_locals = set()
    for n in w.nodes():
        if n["k"] == "VarDecl" and n.get("c"):
            if any(x["k"] == "CallExpr" and (w.decl(x) or {}).get("n") == "generate_from_strings" for x in walk(n["c"][0])):
                gen_locals.add(n.get("d"))
    for n in setters:
        a = strip_casts(call_args(n)[0])
        ok = a is not None and ((a["k"] == "DeclRefExpr" and a.get("d") in gen_locals) or
                                any(x["k"] == "CallExpr" and (w.decl(x) or {}).get("n") == "generate_from_strings"
                                    for x in walk(a)))
        ctx.ob("R-RXESC/E3", "whitelist: %s(<generate_from_strings>)" % w.decl(n)["n"], ok, w.loc(n),
               "argument `%s` is the generated pattern" % expr_str(w, a) if ok else
               "a regex string is set from `%s`, which does not come from generate_from_strings" % expr_str(w, a))
    ctx.assume("keep/drop selection semantics (which declarations the compiled pattern then matches) is runtime; "
               "user-supplied --keep/--drop patterns are compiled unmodified by design")
