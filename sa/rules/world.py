"""Finite-world interpretation of small decision functions.

A *world* fixes the value of a few atoms (a predicate of the symbol, the value of a header field, whether a
pointer is null).  `World(f, atom)` evaluates expressions of function f in that world and explores the paths of
its CFG, pruning the branches the world decides; conditions over anything else are explored both ways.  Values
are Python values (bool / int / str tokens / None for a null pointer); UNK is "any boolean".
"""
from engine.cfg import strip_casts
from engine.facts import call_args

class Lin(object):
    """a linear form  c0 + sum(ci * xi)  over named symbols (hashable, immutable)"""
    __slots__ = ("t", "c")

    def __init__(self, terms=(), c=0):
        d = {}
        for k, v in (terms.items() if isinstance(terms, dict) else terms):
            if v:
                d[k] = d.get(k, 0) + v
        self.t = tuple(sorted((k, v) for k, v in d.items() if v))
        self.c = c

    @staticmethod
    def sym(name):
        return Lin({name: 1})

    @staticmethod
    def of(v):
        if isinstance(v, Lin):
            return v
        if isinstance(v, bool):
            return None
        if isinstance(v, int):
            return Lin((), v)
        return None

    def __add__(self, o):
        d = dict(self.t)
        for k, v in o.t:
            d[k] = d.get(k, 0) + v
        return Lin(d, self.c + o.c)

    def __neg__(self):
        return Lin({k: -v for k, v in self.t}, -self.c)

    def __sub__(self, o):
        return self + (-o)

    def scale(self, n):
        return Lin({k: v * n for k, v in self.t}, self.c * n)

    def __eq__(self, o):
        return isinstance(o, Lin) and self.t == o.t and self.c == o.c

    def __hash__(self):
        return hash((self.t, self.c))

    def __bool__(self):
        return True

    def __repr__(self):
        parts = ["%s%s" % ("" if v == 1 else "%d*" % v, k) for k, v in self.t]
        if self.c or not parts:
            parts.append(str(self.c))
        return " + ".join(parts).replace("+ -", "- ")


def _arith(op, x, y):
    a, b = Lin.of(x), Lin.of(y)
    if a is None or b is None:
        return ANY
    if op == "+":
        return a + b
    if op == "-":
        return a - b
    if op == "*":
        if not a.t:
            return b.scale(a.c)
        if not b.t:
            return a.scale(b.c)
    return ANY


ANY = "?"                          # a value the world does not fix
POS = "positive"                   # some positive integer (a counter after ++)
UNK = frozenset([ANY])
TRANSPARENT = ("ParenExpr", "ExprWithCleanups", "ImplicitCastExpr", "MaterializeTemporaryExpr", "CXXBindTemporaryExpr",
               "ConstantExpr", "CXXFunctionalCastExpr", "CStyleCastExpr", "CXXStaticCastExpr")


def truth(vals):
    out = set()
    for v in vals:
        out |= {True, False} if v == ANY else {bool(v)}
    return frozenset(out)


class World(object):
    def __init__(self, f, atom, effect=None):
        """atom(e) -> iterable of possible values of (cast-stripped) expression e in this world, or None;
        effect(e, env) may update the tracked variables of run_env after element e was evaluated (out-parameters)"""
        self.f = f
        self.atom = atom
        self.effect = effect

    def ev(self, e):
        e = strip_casts(e)
        if e is None:
            return UNK
        a = self.atom(e)
        if a is not None:
            return frozenset(a)
        k = e["k"]
        if k == "CXXBoolLiteralExpr":
            return frozenset([bool(e.get("v"))])
        if k == "IntegerLiteral" and e.get("v") is not None:
            return frozenset([e["v"]])
        if k == "CXXDefaultArgExpr" and e.get("v") is not None:
            return frozenset([e["v"]])
        if k in ("CXXNullPtrLiteralExpr", "GNUNullExpr"):
            return frozenset([None])
        if k == "DeclRefExpr" and e.get("v") is not None:          # enumerator
            return frozenset([e["v"]])
        if k in TRANSPARENT and e.get("c"):
            return self.ev(e["c"][0])
        if k == "CXXConstructExpr" and len([c for c in e.get("c", []) if c is not None]) == 1:
            return self.ev([c for c in e["c"] if c is not None][0])        # copy / move / converting construction
        if k == "CXXMemberCallExpr" and e.get("c") and e["c"][0] is not None and e["c"][0]["k"] == "MemberExpr" and \
                ((self.f.decl(e) or {}).get("n") or "").startswith("operator bool"):
            return truth(self.ev(e["c"][0]["c"][0])) if e["c"][0].get("c") else UNK
        if k == "UnaryOperator" and e.get("op") in ("&", "*") and e.get("c"):
            return self.ev(e["c"][0])
        if k in ("UnaryOperator", "CXXOperatorCallExpr") and e.get("op") == "!":
            return frozenset(not v for v in truth(self.ev((call_args(e) if k == "CXXOperatorCallExpr" else e["c"])[-1])))
        if k == "BinaryOperator" and e.get("op") in ("&&", "||"):
            a, b = truth(self.ev(e["c"][0])), truth(self.ev(e["c"][1]))
            out = set()
            for x in a:
                if e["op"] == "&&":
                    out |= {False} if not x else set(b)
                else:
                    out |= {True} if x else set(b)
            return frozenset(out)
        if k == "BinaryOperator" and e.get("op") in ("+", "-", "*"):
            a, b = self.ev(e["c"][0]), self.ev(e["c"][1])
            return frozenset(ANY if (x == ANY or y == ANY) else _arith(e["op"], x, y) for x in a for y in b)
        if k == "BinaryOperator" and e.get("op") in ("==", "!="):
            a, b = self.ev(e["c"][0]), self.ev(e["c"][1])
            out = set()
            for x in a:
                for y in b:
                    if x == ANY or y == ANY:
                        out |= {True, False}
                    else:
                        out.add((x == y) if e["op"] == "==" else (x != y))
            return frozenset(out)
        if k == "ConditionalOperator":
            c = truth(self.ev(e["c"][0]))
            out = set()
            if True in c:
                out |= set(self.ev(e["c"][1]))
            if False in c:
                out |= set(self.ev(e["c"][2]))
            return frozenset(out)
        return UNK

    def feasible_succs(self, b):
        """successors of block b that this world does not rule out (two-way branches and switches over a decided value)"""
        cfg = self.f.cfg()
        blk = cfg.blocks[b]
        succs = [s for s in blk.succs if s is not None]
        t = blk.term
        if t is not None and t["k"] == "CXXForRangeStmt" and len(blk.succs) == 2:
            a = self.atom(t)
            if a is not None and list(a) == [False]:
                return [blk.succs[1]] if blk.succs[1] is not None else []
            return succs
        if t is not None and t["k"] == "SwitchStmt" and t.get("c") and t["c"][0] is not None:
            v = self.ev(t["c"][0])
            if len(v) == 1 and ANY not in v:
                val = next(iter(v))
                hit, default = [], []
                for s in succs:
                    lb = cfg.blocks[s].label if s in cfg.blocks else None
                    # a case label may be nested: case A: case B: ...
                    labs = []
                    while lb is not None and lb["k"] in ("CaseStmt", "DefaultStmt"):
                        labs.append(lb)
                        lb = lb["c"][-1] if lb.get("c") else None
                    if any(l["k"] == "CaseStmt" and l.get("v") == val for l in labs):
                        hit.append(s)
                    elif any(l["k"] == "DefaultStmt" for l in labs) or not labs:
                        default.append(s)
                return hit or default
            return succs
        if cfg.branch(b) is not None:
            for c in cfg.branch_conds(b):
                v = truth(self.ev(c))
                if len(v) == 1:
                    s = blk.succs[0 if next(iter(v)) else 1]
                    return [s] if s is not None else []
        return succs

    def blocks(self):
        """blocks reachable in this world, and the set of values returned"""
        f = self.f
        cfg = f.cfg()
        seen, stack, rets = set(), [cfg.entry], set()
        while stack:
            b = stack.pop()
            if b in seen or b not in cfg.blocks:
                continue
            seen.add(b)
            blk = cfg.blocks[b]
            done = False
            for e in blk.elems:
                if e["k"] == "ReturnStmt":
                    rets |= set(self.ev(e["c"][0])) if e.get("c") and e["c"][0] is not None else {None}
                    done = True
                    break
            if done:
                continue
            stack.extend(self.feasible_succs(b))
        return seen, rets

    def returns(self):
        return self.blocks()[1]

    def must_pass(self, pred):
        """True iff every path of this world from the entry to a return (or the exit) evaluates an element e with pred(e)"""
        f = self.f
        cfg = f.cfg()
        seen, stack = set(), [(cfg.entry, False)]
        while stack:
            b, got = stack.pop()
            if (b, got) in seen or b not in cfg.blocks:
                continue
            seen.add((b, got))
            blk = cfg.blocks[b]
            ended = False
            for e in blk.elems:
                if not got and pred(e):
                    got = True
                if e["k"] == "ReturnStmt":
                    if not got:
                        return False
                    ended = True
                    break
            if ended:
                continue
            if b == cfg.exit:
                if not got:
                    return False
                continue
            if blk.noret:
                continue
            stack.extend((s, got) for s in self.feasible_succs(b))
        return True

    def run_env(self, track):
        """Path-sensitive exploration that also follows the values of the local variables in `track` (decl ids) through
        their initialisers and plain assignments.  Returns the set of returned values.  A range-for statement is offered
        to atom() as a node: answering [False] means its range is empty in this world."""
        f = self.f
        cfg = f.cfg()
        outer = self.atom
        env_box = [{}]

        def atom(e):
            a = outer(e)
            if a is not None:
                return a
            if e["k"] == "DeclRefExpr" and e.get("d") in track and e.get("d") in env_box[0]:
                return env_box[0][e["d"]]
            return None
        self.atom = atom
        rets = set()
        self.reached_elems = set()
        self.ret_envs = []
        self.exit_envs = []          # environments in which control falls off the end of the function
        try:
            seen = set()
            stack = [(cfg.entry, ())]
            steps = 0
            while stack:
                b, envt = stack.pop()
                if (b, envt) in seen or b not in cfg.blocks:
                    continue
                seen.add((b, envt))
                steps += 1
                if steps > 20000:
                    rets.add(ANY)
                    break
                env = dict(envt)
                env_box[0] = env
                blk = cfg.blocks[b]
                if b == cfg.exit:
                    self.exit_envs.append(dict(env))
                done = False
                for e in blk.elems:
                    self.reached_elems.add(e["i"])
                    if e["k"] == "VarDecl" and e.get("d") in track:
                        env[e["d"]] = self.ev(e["c"][0]) if e.get("c") and e["c"][0] is not None else UNK
                    elif e["k"] in ("BinaryOperator", "CXXOperatorCallExpr") and e.get("op") == "=":
                        a = call_args(e) if e["k"] == "CXXOperatorCallExpr" else e["c"]
                        l = strip_casts(a[0])
                        if l is not None and l["k"] == "DeclRefExpr" and l.get("d") in track:
                            env[l["d"]] = self.ev(a[1])
                    elif e["k"] == "CompoundAssignOperator" and e.get("op") in ("+=", "-=", "*=") and \
                            strip_casts(e["c"][0]) is not None and strip_casts(e["c"][0])["k"] == "DeclRefExpr" and \
                            strip_casts(e["c"][0]).get("d") in track:
                        d_ = strip_casts(e["c"][0]).get("d")
                        cur = env.get(d_, UNK)
                        rhs = self.ev(e["c"][1])
                        env[d_] = frozenset(ANY if (x == ANY or y == ANY) else _arith(e["op"][0], x, y) for x in cur for y in rhs)
                    elif e["k"] == "CompoundAssignOperator" or (e["k"] == "UnaryOperator" and e.get("op") in ("++", "--")):
                        for y in e.get("c", [])[:1]:
                            y = strip_casts(y)
                            if y is not None and y["k"] == "DeclRefExpr" and y.get("d") in track:
                                cur = env.get(y["d"], UNK)
                                if e["k"] == "UnaryOperator" and e.get("op") == "++" and cur and all(
                                        v == POS or (isinstance(v, int) and not isinstance(v, bool) and v >= 0) for v in cur):
                                    env[y["d"]] = frozenset([POS])       # a counter that was incremented: positive
                                else:
                                    env[y["d"]] = UNK
                    elif e["k"] == "ReturnStmt":
                        rv = set(self.ev(e["c"][0])) if e.get("c") and e["c"][0] is not None else {None}
                        rets |= rv
                        self.ret_envs.append((frozenset(rv), dict(env)))
                        done = True
                        break
                    if self.effect is not None:
                        self.effect(e, env)
                if done:
                    continue
                succs = self.feasible_succs(b)
                envt2 = tuple(sorted(env.items(), key=lambda kv: kv[0]))
                stack.extend((s, envt2) for s in succs if s is not None)
        finally:
            self.atom = outer
        return rets

    def elems(self):
        cfg = self.f.cfg()
        seen, _ = self.blocks()
        for b in sorted(seen):
            for e in cfg.blocks[b].elems:
                yield e
