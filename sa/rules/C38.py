"""C38 - edit scripts are computed with the caller's equality predicate only: R-EQFUNCTOR.

In every instantiation of the diff_utils templates reachable from compute_diff<..., EqualityFunctor>
no == / != is applied to a sequence element (a_begin[i], *it, a_base[i]); every element comparison
is a call of the EqualityFunctor object.  is_match_point / print_snake (which use raw ==) must stay
unreachable from compute_diff.
"""
from engine.facts import walk, call_args, expr_str
from engine.cfg import strip_casts
from engine.compdb import AnalysisBroken

UNITS = ["src/abg-comparison.cc", "src/abg-diff-utils.cc", "src/abg-corpus.cc", "src/abg-ir.cc"]


def element_access(n):
    n = strip_casts(n)
    if n is None:
        return False
    if n["k"] == "ArraySubscriptExpr":
        return True
    if n["k"] == "CXXOperatorCallExpr" and n.get("op") in ("[]", "*"):
        return True
    if n["k"] == "UnaryOperator" and n.get("op") == "*":
        return True
    return False


def run(ctx):
    ctx.clause = ("inside the Myers diff implementation every comparison of two sequence elements goes through the "
                  "caller's equality functor; no raw == on elements is reachable from compute_diff")
    ctx.rules = ["R-EQFUNCTOR", "R-TRACELCS", "R-WINDOW", "R-EQFORWARD"]
    P = ctx.program(UNITS)
    roots = [u for u, f in P.funcs.items() if f.q == "abigail::diff_utils::compute_diff" and f.inst]
    ctx.floor("R-EQFUNCTOR", "instantiations of diff_utils::compute_diff", len(roots), 10)
    seen = P.reach(roots)
    du = [P.funcs[u] for u in seen if u in P.funcs and P.funcs[u].q.startswith("abigail::diff_utils::")
          and P.funcs[u].inst and P.funcs[u].n != "operator()"]
    names = sorted({f.n for f in du})
    n_eq = 0
    for f in sorted(du, key=lambda x: (x.n, x.sig)):
        ctx.analysed(f)
        bad = []
        for n in f.nodes():
            if n["k"] in ("BinaryOperator", "CXXOperatorCallExpr") and n.get("op") in ("==", "!="):
                ops = call_args(n) if n["k"] == "CXXOperatorCallExpr" else n["c"]
                if any(element_access(o) for o in ops):
                    bad.append(n)
            if n["k"] == "CXXOperatorCallExpr" and n.get("op") == "()":
                d = f.decl(n)
                a = call_args(n)
                if d is not None and len(a) == 3 and (element_access(a[1]) or element_access(a[2])):
                    n_eq += 1
        ctx.ob("R-EQFUNCTOR", "%s: no raw element comparison" % f.sig.replace("abigail::diff_utils::", "")[:150],
               not bad, f.loc(bad[0]) if bad else f.loc(),
               "element comparisons only through the EqualityFunctor" if not bad else
               "`%s` compares sequence elements with a built-in / overloaded == instead of the caller's predicate"
               % expr_str(f, bad[0]))
    for forbidden in ("is_match_point", "print_snake"):
        ctx.ob("R-EQFUNCTOR", "%s is not reachable from compute_diff" % forbidden, forbidden not in names, "",
               "diff_utils functions reachable from compute_diff: %s" % names)
    ctx.floor("R-EQFUNCTOR", "functor calls on sequence elements", n_eq, 4)
    check_tracelcs(ctx, P, du)
    check_eqforward(ctx, P)
    nw = check_window(ctx, P, du)
    ctx.note("R-WINDOW: %d two-ended window(s) in the diff_utils functions reachable from compute_diff (0 is expected "
             "today; the seeded variant C38-common-head-and-tail-stripped is the positive example of the thorough tier)" % nw)
    ctx.assume("correctness and minimality of the edit script are not decided")


def check_eqforward(ctx, P):
    """R-EQFORWARD: the caller's predicate is handed on.  The equality functor of the diff_utils templates is a type
    template parameter that no function parameter mentions (it cannot be deduced; an instance is built where elements are
    compared).  Looking at the template definitions themselves - libabigail instantiates only some of the overloads, the
    others are API: inside a function template that has such a parameter T, every call of a diff_utils function
    template of which some overload has a non-deducible parameter names T explicitly in that position.  A call that
    leaves it out resolves - silently - to the overload hard-wired to default_eq_functor and the script is computed with
    == instead of the predicate the caller gave."""
    import re
    pats = {}
    for f in P.all_funcs():
        if f.dep and f.q.startswith("abigail::diff_utils::") and f.r.get("tp") and not f.cls:
            pats.setdefault((f.file, f.l0), f)

    def nondeduced(f):
        ptypes = " ".join((f.unit.type(p["t"]) or {}).get("s", "") for p in f.params() if p)
        return [i for i, t in enumerate(f.r["tp"]) if not re.search(r"\b%s\b" % re.escape(t), ptypes)]
    by_name = {}
    for f in pats.values():
        by_name.setdefault(f.n, []).append(f)
    n = 0
    for f in sorted(pats.values(), key=lambda x: x.l0):
        nd = nondeduced(f)
        if not nd:
            continue
        ctx.analysed(f)
        for x in f.nodes():
            if x["k"] != "UnresolvedLookupExpr" or x.get("n") not in by_name:
                continue
            pos = sorted({i for g in by_name[x["n"]] for i in nondeduced(g)})
            if not pos:
                continue
            n += 1
            ta = x.get("ta") or []
            mine = [f.r["tp"][i] for i in nd]
            ok = all(i < len(ta) and ta[i] in mine for i in pos)
            k = sum(1 for y in f.nodes() if y["k"] == "UnresolvedLookupExpr" and y.get("n") == x["n"] and y["i"] < x["i"])
            ctx.ob("R-EQFORWARD", "%s(%s): call of %s%s" % (f.n, ", ".join((p or {}).get("n", "?") for p in f.params()), x["n"],
                                                            "" if k == 0 else " #%d" % (k + 1)),
                   ok, f.loc(x),
                   "%s<%s>: the predicate parameter is named explicitly" % (x["n"], ", ".join(ta)) if ok else
                   "%s<%s>(...) does not name `%s`: overload resolution falls back to the overload that compares with "
                   "default_eq_functor, and the predicate given to %s is ignored" % (x["n"], ", ".join(ta), "/".join(mine), f.n))
    ctx.floor("R-EQFORWARD", "calls between diff_utils templates that carry the predicate", n, 8)


def _decl_of(f, n):
    n = strip_casts(n)
    return n.get("d") if n is not None and n["k"] == "DeclRefExpr" else None


def check_tracelcs(ctx, P, du):
    """R-TRACELCS: in the core compute_diff (the overload that returns the lcs), a local vector that receives the points of
    the middle snake (`trace`) is copied into the `lcs` out-parameter on every branch of the dispatch on `d` that fills or
    uses it; a branch that (re)fills it and leaves without copying computes a dead value - the reported common
    subsequence misses those points (sibling agreement of the d > 1 / d == 1 / d == 0 branches + dead-store)."""
    cores = {}
    for f in du:
        if f.n != "compute_diff" or f.cfg() is None:
            continue
        ps = f.params()
        if len(ps) == 9 and any("vector<" in (f.unit.type(p["t"]) or {}).get("c", "") and "point" in
                                (f.unit.type(p["t"]) or {}).get("c", "") for p in ps):
            cores.setdefault((f.file, f.l0), f)       # one obligation per template definition, not per instantiation
    ctx.floor("R-TRACELCS", "core compute_diff definitions (lcs + ses + length)", len(cores), 1)
    for f in cores.values():
        ctx.analysed(f)
        lcs_p = next(f.r["params"][i] for i, p in enumerate(f.params())
                     if "point" in (f.unit.type(p["t"]) or {}).get("c", "") and "vector<" in (f.unit.type(p["t"]) or {}).get("c", ""))
        # the trace local: a local vector<point> that is push_back'ed
        traces = set()
        for n in f.nodes():
            if n["k"] == "CXXMemberCallExpr" and (f.decl(n) or {}).get("n") == "push_back":
                from engine.facts import member_call_object
                d = _decl_of(f, member_call_object(n))
                if d is not None and d not in f.r["params"] and "point" in (f.unit.type((f.unit.decl(d) or {}).get("t")) or {}).get("c", ""):
                    traces.add(d)
        if len(traces) != 1:
            raise AnalysisBroken("anchor vanished: the `trace` local of compute_diff")
        tr = next(iter(traces))

        def copies(n):
            """lcs.insert(.., trace.begin(), trace.end())"""
            if n["k"] != "CXXMemberCallExpr" or (f.decl(n) or {}).get("n") != "insert":
                return False
            from engine.facts import member_call_object
            return _decl_of(f, member_call_object(n)) == lcs_p and any(
                x["k"] == "DeclRefExpr" and x.get("d") == tr for a in call_args(n) for x in walk(a))
        # the branches of the dispatch on d:  if (d > 1) .. else if (d == 1) .. else if (d == 0) ..
        branches = []
        for n in f.nodes():
            if n["k"] != "IfStmt":
                continue
            c = strip_casts(n["c"][0])
            if c is None or c["k"] != "BinaryOperator" or c.get("op") not in ("==", ">", ">=", "<", "<="):
                continue
            l, r = strip_casts(c["c"][0]), strip_casts(c["c"][1])
            if l is None or l["k"] != "DeclRefExpr" or (f.unit.decl(l.get("d")) or {}).get("n") != "d" or \
                    r is None or r["k"] != "IntegerLiteral":
                continue
            branches.append(("d %s %s" % (c["op"], r.get("v")), n["c"][1]))
        if len(branches) < 3:
            raise AnalysisBroken("anchor vanished: the dispatch on d in compute_diff")
        for label, body in branches:
            has_copy = any(copies(x) for x in walk(body))
            ctx.ob("R-TRACELCS", "compute_diff: the `%s` branch copies the snake's points into the lcs" % label, has_copy,
                   f.loc(body),
                   "lcs.insert(lcs.end(), trace.begin(), trace.end())" if has_copy else
                   "the branch %s`trace` but never appends it to `lcs`: the points of the middle snake are missing from the "
                   "reported common subsequence (its siblings copy them)" % (
                       "re-fills " if any(x["k"] == "CXXMemberCallExpr" and (f.decl(x) or {}).get("n") == "push_back"
                                         for x in walk(body)) else "leaves "))


def check_window(ctx, P, du):
    """R-WINDOW: when a function narrows an iterator window from both ends by two counters (X_begin += h; X_end -= t),
    the loop that grows the second counter is bounded in terms of the first (or compares the two cursors): two counters
    that are each bounded by the same limit can overlap, the window inverts and common elements are matched twice."""
    n = 0
    seen_defs = set()
    for f in du:
        if f.cfg() is None or (f.file, f.l0) in seen_defs:
            continue
        adv, ret = [], []
        for x in f.nodes():
            if x["k"] in ("CompoundAssignOperator", "BinaryOperator", "CXXOperatorCallExpr") and x.get("op") in ("+=", "-="):
                ops = call_args(x) if x["k"] == "CXXOperatorCallExpr" else x["c"]
                if len(ops) != 2:
                    continue
                tgt, amt = _decl_of(f, ops[0]), _decl_of(f, ops[1])
                if tgt is None or amt is None:
                    continue
                t = f.unit.type((f.unit.decl(tgt) or {}).get("t")) or {}
                if not (t.get("ptr") or "iterator" in t.get("c", "")):
                    continue
                (adv if x["op"] == "+=" else ret).append((x, tgt, amt))
        if not adv or not ret:
            continue
        seen_defs.add((f.file, f.l0))
        for xa, ta, h in adv:
            for xr, trg, t_ in ret:
                na, nr = (f.unit.decl(ta) or {}).get("n", ""), (f.unit.decl(trg) or {}).get("n", "")
                if na.replace("begin", "") != nr.replace("end", ""):
                    continue          # not the two ends of one window
                n += 1
                # loops that increment the second counter
                related = False
                for lp in f.nodes():
                    if lp["k"] not in ("WhileStmt", "ForStmt", "DoStmt"):
                        continue
                    body_inc = any(y["k"] == "UnaryOperator" and y.get("op") == "++" and _decl_of(f, y["c"][0]) == t_
                                   for y in walk(lp))
                    if not body_inc:
                        continue
                    cond = lp["c"][0] if lp["k"] == "WhileStmt" else lp["c"][1]
                    if cond is not None and any(y["k"] == "DeclRefExpr" and y.get("d") in (h, ta) for y in walk(cond)):
                        related = True
                hn, tn = (f.unit.decl(h) or {}).get("n"), (f.unit.decl(t_) or {}).get("n")
                ctx.analysed(f)
                ctx.ob("R-WINDOW", "%s: window [%s, %s) narrowed by `%s` and `%s` cannot invert" % (f.n, na, nr, hn, tn),
                       related, f.loc(xr),
                       "the loop that grows `%s` is bounded in terms of `%s`" % (tn, hn) if related else
                       "`%s` and `%s` are grown independently (each against the same limit) and then %s += %s, %s -= %s: "
                       "when the common prefix and the common suffix overlap in the shorter sequence the window inverts and "
                       "the edit script comes out too short" % (hn, tn, na, hn, nr, tn))
    return n
