"""C38 - edit scripts are computed with the caller's equality predicate only: R-EQFUNCTOR.

In every instantiation of the diff_utils templates reachable from compute_diff<..., EqualityFunctor>
no == / != is applied to a sequence element (a_begin[i], *it, a_base[i]); every element comparison
is a call of the EqualityFunctor object.  is_match_point / print_snake (which use raw ==) must stay
unreachable from compute_diff.
"""
from engine.facts import walk, call_args, expr_str
from engine.cfg import strip_casts
from engine.compdb import AnalysisBroken

UNITS = ["src/abg-comparison.cc", "src/abg-diff-utils.cc", "src/abg-corpus.cc", "src/abg-ir.cc"]


def element_access(n):
    n = strip_casts(n)
    if n is None:
        return False
    if n["k"] == "ArraySubscriptExpr":
        return True
    if n["k"] == "CXXOperatorCallExpr" and n.get("op") in ("[]", "*"):
        return True
    if n["k"] == "UnaryOperator" and n.get("op") == "*":
        return True
    return False


def run(ctx):
    ctx.clause = ("inside the Myers diff implementation every comparison of two sequence elements goes through the "
                  "caller's equality functor; no raw == on elements is reachable from compute_diff")
    ctx.rules = ["R-EQFUNCTOR"]
    P = ctx.program(UNITS)
    roots = [u for u, f in P.funcs.items() if f.q == "abigail::diff_utils::compute_diff" and f.inst]
    ctx.floor("R-EQFUNCTOR", "instantiations of diff_utils::compute_diff", len(roots), 10)
    seen = P.reach(roots)
    du = [P.funcs[u] for u in seen if u in P.funcs and P.funcs[u].q.startswith("abigail::diff_utils::")
          and P.funcs[u].inst and P.funcs[u].n != "operator()"]
    names = sorted({f.n for f in du})
    n_eq = 0
    for f in sorted(du, key=lambda x: (x.n, x.sig)):
        ctx.analysed(f)
        bad = []
        for n in f.nodes():
            if n["k"] in ("BinaryOperator", "CXXOperatorCallExpr") and n.get("op") in ("==", "!="):
                ops = call_args(n) if n["k"] == "CXXOperatorCallExpr" else n["c"]
                if any(element_access(o) for o in ops):
                    bad.append(n)
            if n["k"] == "CXXOperatorCallExpr" and n.get("op") == "()":
                d = f.decl(n)
                a = call_args(n)
                if d is not None and len(a) == 3 and (element_access(a[1]) or element_access(a[2])):
                    n_eq += 1
        ctx.ob("R-EQFUNCTOR", "%s: no raw element comparison" % f.sig.replace("abigail::diff_utils::", "")[:150],
               not bad, f.loc(bad[0]) if bad else f.loc(),
               "element comparisons only through the EqualityFunctor" if not bad else
               "`%s` compares sequence elements with a built-in / overloaded == instead of the caller's predicate"
               % expr_str(f, bad[0]))
    for forbidden in ("is_match_point", "print_snake"):
        ctx.ob("R-EQFUNCTOR", "%s is not reachable from compute_diff" % forbidden, forbidden not in names, "",
               "diff_utils functions reachable from compute_diff: %s" % names)
    ctx.floor("R-EQFUNCTOR", "functor calls on sequence elements", n_eq, 4)
    ctx.assume("correctness and minimality of the edit script are not decided")
