"""R-IDREF: every type-id the writer emits as a *reference* is recorded with
record_type_as_referenced (the mechanism write_referenced_types relies on to emit
referenced-but-not-yet-emitted types), and every id emitted as a *definition* (`id=`) is
recorded as emitted.  Path rule: from the reference, every path to the function's exit passes
the matching record call."""
import json
import os
import re

from engine.facts import walk, call_args, member_call_object, expr_str
from engine.cfg import strip_casts
from engine.compdb import AnalysisBroken
from rules.esc_rule import Esc, NS

TABLES = os.path.join(os.path.dirname(os.path.dirname(os.path.abspath(__file__))), "tables")


def _passes_on_all_paths(f, start, pred):
    """True if every CFG path from element `start` to the exit passes an element satisfying pred."""
    cfg = f.cfg()
    w = cfg.where(start)
    if w is None:
        return False
    b0, i0 = w
    seen = set()
    stack = [(b0, i0 + 1)]
    while stack:
        b, i = stack.pop()
        blk = cfg.blocks[b]
        hit = False
        for e in blk.elems[i:]:
            if pred(e):
                hit = True
                break
        if hit:
            continue
        if b == cfg.exit:
            return False
        succs = [s for s in blk.succs if s is not None]
        if not succs and b != cfg.exit:
            continue            # noreturn
        for s in succs:
            if s not in seen:
                seen.add(s)
                stack.append((s, 0))
    return True


def _on_all_paths_before(f, node, pred):
    """True if every CFG path from the entry to `node` passes an element satisfying pred."""
    from engine.cfg import forward, state_before, TOP
    cfg = f.cfg()
    tr = lambda st, e, b: (st | {"hit"}) if pred(e) else st
    ins, _ = forward(cfg, frozenset(), tr)
    st = state_before(cfg, ins, tr, node)
    return st is not TOP and "hit" in st


def id_wrappers(E):
    """{usr: (param index, records)}: helpers whose result is get_id_for_type(<their parameter>); `records` when
    record_type_as_referenced(<that parameter>) is passed on every path through the helper."""
    out = {}
    for g in E.writer_funcs():
        if g.cfg() is None:
            continue
        rets = [n for n in g.nodes() if n["k"] == "ReturnStmt" and n.get("c")]
        if len(rets) != 1:
            continue
        v = strip_casts(rets[0]["c"][0])
        while v is not None:
            if v["k"] in ("CXXConstructExpr", "CXXBindTemporaryExpr", "MaterializeTemporaryExpr",
                          "ExprWithCleanups", "ImplicitCastExpr") and v.get("c"):
                v = strip_casts(v["c"][0])
            elif v["k"] == "CXXMemberCallExpr" and (g.decl(v) or {}).get("n", "").startswith("operator "):
                v = strip_casts(member_call_object(v))     # interned_string -> std::string conversion
            else:
                break
        if v is None or v["k"] != "CXXMemberCallExpr" or (g.decl(v) or {}).get("n") != "get_id_for_type":
            continue
        a = strip_casts(call_args(v)[0])
        if a is None or a["k"] != "DeclRefExpr" or a.get("d") not in g.r["params"]:
            continue
        k = g.r["params"].index(a["d"])
        pname = expr_str(g, a)
        rec = _on_all_paths_before(g, rets[0], lambda e: e["k"] == "CXXMemberCallExpr" and
                                   (g.decl(e) or {}).get("n") == "record_type_as_referenced" and
                                   expr_str(g, call_args(e)[0]) == pname)
        out[g.u] = (k, rec, g.n)
    return out


def run(ctx, P):
    with open(os.path.join(TABLES, "idref_exceptions.json")) as fh:
        tbl = json.load(fh)
        exc = {(e["function"], e["attribute"]): e for e in tbl["unrecorded_references"]}
        wrappers = {e["function"]: e for e in tbl["scope_wrappers"]}
    E = Esc(ctx, P)
    n_ref = n_def = 0
    used_exc = set()
    idw = id_wrappers(E)
    for u, (k, rec, nm) in idw.items():
        ctx.note("R-IDREF: %s(...) summarised as get_id_for_type(parameter #%d)%s" % (
            nm, k, " + record_type_as_referenced" if rec else ""))
    for f in sorted(E.writer_funcs(), key=lambda x: (x.l0, x.q)):
        if f.u in idw:
            continue
        gets = [n for n in f.nodes() if n["k"] == "CXXMemberCallExpr" and (f.decl(n) or {}).get("n") == "get_id_for_type"]
        wcalls = {n["i"]: idw[(f.decl(n) or {}).get("u")] for n in f.nodes()
                  if n["k"] == "CallExpr" and (f.decl(n) or {}).get("u") in idw}
        gets += [n for n in f.nodes() if n["i"] in wcalls]
        if not gets or f.cfg() is None:
            continue
        # ordered stream operands with the attribute name that precedes each
        sinks = [n for n in f.nodes() if n["k"] == "CXXOperatorCallExpr" and n.get("op") == "<<"
                 and E.is_xml_stream(f, E.stream_root(f, n))]
        order = []

        def flatten(n):
            left = strip_casts(call_args(n)[0])
            if left is not None and left["k"] == "CXXOperatorCallExpr" and left.get("op") == "<<":
                flatten(left)
            order.append(n)
        sink_ids = {n["i"] for n in sinks}

        def visit(n):
            if n is None:
                return
            if n["k"] == "CXXOperatorCallExpr" and n.get("op") == "<<" and n["i"] in sink_ids:
                flatten(n)
                return
            for k in ("init", "var"):
                if k in n:
                    visit(n[k])
            for c in n.get("c", ()):
                visit(c)
        visit(f.body)
        attr_of = {}
        last_attr = None
        for n in order:
            a = strip_casts(call_args(n)[1])
            if a is not None and a["k"] == "StringLiteral":
                m = re.search(r"([A-Za-z][\w-]*)='$", a.get("s", ""))
                last_attr = m.group(1) if m else None
                continue
            if a is not None and a["k"] == "DeclRefExpr" and last_attr is None:
                # attribute name held in a variable (id_attr_name): keep None but mark
                pass
            attr_of[n["i"]] = last_attr
            last_attr = None if last_attr else last_attr
        ctx.analysed(f)
        for g in gets:
            x = call_args(g)[wcalls[g["i"]][0]] if g["i"] in wcalls else call_args(g)[0]
            xs = expr_str(f, x)
            # where does the id go?
            attr = "?"
            p = f.parent(g)
            # climb conversions
            node = g
            while p is not None and p["k"] in ("CXXMemberCallExpr", "MemberExpr", "CXXConstructExpr", "CXXFunctionalCastExpr",
                                               "CXXBindTemporaryExpr", "MaterializeTemporaryExpr") \
                    and not (p["k"] == "CXXMemberCallExpr" and (f.decl(p) or {}).get("n") == "get_id_for_type"):
                node, p = p, f.parent(p)
            if p is not None and p["k"] == "CXXOperatorCallExpr" and p.get("op") == "<<" and p["i"] in attr_of:
                attr = attr_of[p["i"]]
            else:
                # stored in a local: find the insertion of that local
                local = None
                q = g
                for anc in f.ancestors(g):
                    if anc["k"] == "VarDecl":
                        local = anc.get("d")
                        break
                    if anc["k"] in ("BinaryOperator", "CXXOperatorCallExpr") and anc.get("op") == "=":
                        l = strip_casts(anc["c"][1] if anc["k"] == "CXXOperatorCallExpr" else anc["c"][0])
                        if l is not None and l["k"] == "DeclRefExpr":
                            local = l.get("d")
                        break
                    if anc["k"] in ("CompoundStmt", "ReturnStmt", "IfStmt"):
                        break
                if local is not None:
                    attr = "forwarded"
                    for n in order:
                        a = strip_casts(call_args(n)[1])
                        if a is not None and a["k"] == "DeclRefExpr" and a.get("d") == local:
                            attr = attr_of.get(n["i"])
                else:
                    attr = "not-emitted"
            if attr in ("forwarded", "not-emitted"):
                continue
            if attr == "id" or attr is None:
                # definition of the type being written
                n_def += 1
                def is_emit(e):
                    return e["k"] == "CXXMemberCallExpr" and (f.decl(e) or {}).get("n") in (
                        "record_type_as_emitted", "record_decl_as_emitted") and expr_str(f, call_args(e)[0]) == xs
                ok = _passes_on_all_paths(f, g, is_emit)
                detail = "id of `%s` emitted as a definition; record_type_as_emitted(%s) follows on every path" % (xs, xs)
                if not ok:
                    # the opening-tag helpers: the caller records the emission
                    callers = E.callsites_of(f)
                    okc = bool(callers)
                    for cf, call in callers:
                        if cf.n in wrappers:
                            ctx.note("%s called from scope wrapper %s: %s" % (f.n, cf.n, wrappers[cf.n]["reason"]))
                            continue
                        idx = [i for i, p_ in enumerate(f.params()) if p_["n"] == xs]
                        if not idx or cf.cfg() is None:
                            okc = False
                            break
                        arg = expr_str(cf, call_args(call)[idx[0]])
                        okc &= _passes_on_all_paths(
                            cf, call, lambda e: e["k"] == "CXXMemberCallExpr" and (cf.decl(e) or {}).get("n") in (
                                "record_type_as_emitted", "record_decl_as_emitted")
                            and expr_str(cf, call_args(e)[0]) == arg)
                    ok = okc
                    detail = ("id of `%s` emitted as a definition; emission is recorded by every caller (%s)"
                              % (xs, ", ".join(sorted({c.n for c, _ in callers})))) if ok else \
                        "id of `%s` is emitted under id= but the type is never recorded as emitted" % xs
                ctx.ob("R-IDREF/DEF", "%s: id='%s'" % (f.n, xs), ok, f.loc(g), detail)
                continue
            n_ref += 1
            def is_ref(e):
                return e["k"] == "CXXMemberCallExpr" and (f.decl(e) or {}).get("n") == "record_type_as_referenced" \
                    and expr_str(f, call_args(e)[0]) == xs
            ok = _passes_on_all_paths(f, g, is_ref) or _on_all_paths_before(f, g, is_ref) or \
                (g["i"] in wcalls and wcalls[g["i"]][1])
            ent = "%s: %s='%s'" % (f.n, attr, xs)
            if not ok and (f.n, attr) in exc:
                used_exc.add((f.n, attr))
                ctx.note("reference %s not recorded - frozen exception: %s" % (ent, exc[(f.n, attr)]["reason"]))
                ctx.ob("R-IDREF/REF", ent + " [listed exception]", True, f.loc(g), exc[(f.n, attr)]["reason"])
                continue
            ctx.ob("R-IDREF/REF", ent, ok, f.loc(g),
                   "reference to the id of `%s` is accompanied by record_type_as_referenced(%s) on every path" % (xs, xs)
                   if ok else "type-id of `%s` is written as a reference (%s=) but record_type_as_referenced(%s) "
                   "is missing on some path: the referenced type may never be emitted" % (xs, attr, xs))
    for k in exc:
        if k not in used_exc:
            ctx.note("exception %s/%s no longer needed (site vanished or now recorded)" % k)
    ctx.floor("R-IDREF/REF", "type-id reference sites", n_ref, 12)
    ctx.floor("R-IDREF/DEF", "id definition sites", n_def, 10)
