"""R-VERLOOKUP: the symbol re-lookup that decides whether a "deleted" interface is really gone
(corpus::lookup_*_symbol -> find_symbol_by_version) returns a symbol only when its version is the one
asked for, or when no version was asked for.

Path rule over the CFG of abigail::ir::find_symbol_by_version(version, symbols): every `return` of
something else than a default-constructed (nil) symbol is dominated by the true edge of
`version.is_empty()` or by the true edge of an equality test between the candidate's version and the
requested one (`get_version() == version`, `get_version().str() == version.str()`).  A return that is
reached without either hands back a symbol of *another* version: corpus_diff then believes the interface
still exists and drops the removal.
"""
from engine.cfg import forward, state_before, TOP, strip_casts
from engine.facts import walk, call_args, member_call_object, expr_str
from engine.compdb import AnalysisBroken
from rules.null_rules import short

UNITS = ["src/abg-corpus.cc"]


def check(ctx, P, rule="R-VERLOOKUP"):
    fs = [f for f in P.all_funcs() if f.n == "find_symbol_by_version" and not f.dep and f.cfg() is not None]
    if len(fs) != 1:
        raise AnalysisBroken("anchor vanished: find_symbol_by_version (src/abg-corpus.cc)")
    f = fs[0]
    ctx.analysed(f)
    cfg = f.cfg()
    vparam = f.r["params"][0]
    vname = f.unit.decl(vparam)["n"]

    def is_req(e):
        """e denotes the requested version (the parameter, or its str())"""
        e = strip_casts(e)
        if e is None:
            return False
        if e["k"] == "DeclRefExpr" and e.get("d") == vparam:
            return True
        if e["k"] == "CXXMemberCallExpr" and (f.decl(e) or {}).get("n") == "str":
            return is_req(member_call_object(e))
        return False

    def is_cand(e):
        """e denotes the version of a candidate symbol: <sym>->get_version() or its str()"""
        e = strip_casts(e)
        if e is None or e["k"] != "CXXMemberCallExpr":
            return False
        n = (f.decl(e) or {}).get("n")
        if n == "get_version":
            return True
        if n == "str":
            return is_cand(member_call_object(e))
        return False

    def facts_of(cond, truth):
        """facts established when `cond` evaluates to `truth`"""
        c = strip_casts(cond)
        if c is None:
            return set()
        if c["k"] in ("UnaryOperator", "CXXOperatorCallExpr") and c.get("op") == "!" :
            inner = c["c"][-1]
            return facts_of(inner, not truth)
        if c["k"] == "BinaryOperator" and c.get("op") == "&&" and truth:
            return facts_of(c["c"][0], True) | facts_of(c["c"][1], True)
        if c["k"] == "BinaryOperator" and c.get("op") == "||" and not truth:
            return facts_of(c["c"][0], False) | facts_of(c["c"][1], False)
        if c["k"] == "CXXMemberCallExpr" and (f.decl(c) or {}).get("n") == "is_empty" and is_req(member_call_object(c)):
            return {"ANY"} if truth else set()
        if c["k"] in ("BinaryOperator", "CXXOperatorCallExpr") and c.get("op") in ("==", "!="):
            ops = call_args(c) if c["k"] == "CXXOperatorCallExpr" else c["c"]
            if len(ops) == 2 and ((is_req(ops[0]) and is_cand(ops[1])) or (is_req(ops[1]) and is_cand(ops[0]))):
                if (c.get("op") == "==") == truth:
                    return {"EQ"}
        return set()

    def edge(st, blk, idx):
        if cfg.branch(blk.id) is None:
            return st
        add = set()
        for c in cfg.branch_conds(blk.id):
            add |= facts_of(c, idx == 0)
        # a fact about one candidate does not survive to the next iteration: EQ is dropped on loop back edges
        return st | frozenset(add)

    def transfer(st, n, blk):
        # advancing the iterator / rebinding the candidate invalidates EQ
        if n["k"] in ("UnaryOperator", "CXXOperatorCallExpr") and n.get("op") in ("++", "--"):
            return st - {"EQ"}
        return st
    ins, _ = forward(cfg, frozenset(), transfer, edge)
    n_ret = 0
    seen = {}
    for r in f.nodes():
        if r["k"] != "ReturnStmt" or not r.get("c"):
            continue
        v = strip_casts(r["c"][0])
        def unwrap(x):
            while x is not None:
                if x["k"] in ("ExprWithCleanups", "CXXBindTemporaryExpr", "MaterializeTemporaryExpr",
                              "ImplicitCastExpr", "CXXFunctionalCastExpr") and x.get("c"):
                    x = strip_casts(x["c"][0])
                elif x["k"] == "CXXConstructExpr" and len(call_args(x)) == 1 and \
                        (f.decl(x) or {}).get("n") == (f.decl(unwrap(call_args(x)[0])) or {}).get("n"):
                    x = unwrap(call_args(x)[0])      # copy / move of a temporary of the same class
                else:
                    break
            return x
        v0 = unwrap(v)
        if v0 is not None and v0["k"] in ("CXXTemporaryObjectExpr", "CXXConstructExpr") and not call_args(v0):
            continue     # nil
        st = state_before(cfg, ins, transfer, r)
        if st is TOP:
            continue
        n_ret += 1
        ent = "find_symbol_by_version: `return %s` only for the requested version" % expr_str(f, v)
        seen[ent] = seen.get(ent, 0) + 1
        if seen[ent] > 1:
            ent += " #%d" % seen[ent]
        ok = "ANY" in st or "EQ" in st
        ctx.ob(rule, ent, ok, f.loc(r),
               "reached only when no version was requested (%s.is_empty()) or after the candidate's version compared "
               "equal to `%s`" % (vname, vname) if ok else
               "a symbol is returned although `%s` names a version and the candidate's version was not compared with it: "
               "the lookup of foo@V1 answers with foo@@V2, and corpus_diff drops the removal of foo@V1" % vname)
    ctx.floor(rule, "non-nil returns of find_symbol_by_version", n_ret, 1)
