"""R-ELFBOUND (per pointer, with section provenance).

A *buffer pointer* is a local / field whose value derives from some Elf_Data's d_buf; its *origin* is that
Elf_Data (the text of the object whose d_buf was read; for struct fields assigned in another function the
origin travels with the field name).  A *size term* of origin O is O's d_size, a local computed from it, a
field assigned from it, or a local that was validated against such a term (it appears with one in a test
whose failing branch leaves the function / the loop).

Obligation per (function, buffer pointer p): the reads through p (subscripts, dereferences) are covered by a
test that
  - precedes the first read (or is the condition of a loop enclosing it), or is a call - in such a
    position - to a validator (a function that returns false under a size test: its tests count, with the
    field names they mention);
  - mentions a size term *of p's origin*; and
  - when some read uses a non-constant index: also mentions p itself, an index variable of those reads, or
    a variable / field the index is computed from (one step through initialisers).
A bound taken from another section (the symbol count for a walk through the hash section) does not count.
"""
from engine.cfg import strip_casts
from engine.facts import walk, call_args, member_call_object, expr_str
from rules.null_rules import short

SIZE_MEMBERS = ("d_size",)


def _obj_of(f, m):
    """text of the object a MemberExpr selects from"""
    c = m.get("c") or []
    return expr_str(f, c[0]) if c and c[0] is not None else "this"


class FnInfo(object):
    def __init__(self, f, field_ptr_origin, field_size_origin):
        self.f = f
        self.ptr = {}       # key -> origin   key = ('v', decl) | ('f', field name)
        self.size = {}      # key -> origin
        self.fpo, self.fso = field_ptr_origin, field_size_origin
        self._solve()

    def key_of(self, n):
        f = self.f
        n = strip_casts(n)
        while n is not None and n["k"] == "UnaryOperator" and n.get("op") == "&":
            n = strip_casts(n["c"][0])
        if n is not None and n["k"] == "ArraySubscriptExpr":
            return self.key_of(n["c"][0])
        if n is None:
            return None
        if n["k"] == "DeclRefExpr" and (f.decl(n) or {}).get("k") in ("Var", "ParmVar"):
            return ("v", n.get("d"))
        if n["k"] == "MemberExpr" and (f.decl(n) or {}).get("k") == "Field":
            return ("f", f.decl(n)["n"])
        return None

    def ptr_origin_of_expr(self, e):
        f = self.f
        for x in walk(e):
            if x["k"] == "MemberExpr" and (f.decl(x) or {}).get("n") == "d_buf":
                return "%s:%s" % (short(f), _obj_of(f, x))
            k = self.key_of(x) if x["k"] in ("DeclRefExpr", "MemberExpr") else None
            if k in self.ptr:
                return self.ptr[k]
            if k is not None and k[0] == "f" and k[1] in self.fpo:
                return self.fpo[k[1]]
        return None

    def size_origin_of_expr(self, e):
        f = self.f
        for x in walk(e):
            if x["k"] == "MemberExpr" and (f.decl(x) or {}).get("n") in SIZE_MEMBERS:
                return "%s:%s" % (short(f), _obj_of(f, x))
            k = self.key_of(x) if x["k"] in ("DeclRefExpr", "MemberExpr") else None
            if k in self.size:
                return self.size[k]
            if k is not None and k[0] == "f" and k[1] in self.fso:
                return self.fso[k[1]]
        return None

    def _solve(self):
        f = self.f
        changed = True
        while changed:
            changed = False
            for n in f.nodes():
                lhs = rhs = None
                if n["k"] == "VarDecl" and n.get("c") and n["c"][0] is not None:
                    lhs, rhs = ("v", n.get("d")), n["c"][0]
                    t = f.unit.type((f.decl(n) or {}).get("t"))
                elif n["k"] == "BinaryOperator" and n.get("op") == "=":
                    lhs, rhs = self.key_of(n["c"][0]), n["c"][1]
                    t = f.type(n["c"][0])
                if lhs is None or rhs is None:
                    continue
                isptr = bool(t and t.get("ptr"))
                if isptr and lhs not in self.ptr:
                    o = self.ptr_origin_of_expr(rhs)
                    if o:
                        self.ptr[lhs] = o
                        changed = True
                if not isptr and lhs not in self.size:
                    o = self.size_origin_of_expr(rhs)
                    # only arithmetic on sizes: a value *read through* a buffer is not a size
                    if o and not any(x["k"] in ("ArraySubscriptExpr",) or
                                     (x["k"] == "UnaryOperator" and x.get("op") == "*") for x in walk(rhs)):
                        self.size[lhs] = o
                        changed = True
                if isptr and lhs[0] == "f" and lhs not in self.size:
                    # an end pointer: buffer pointer + size term  (ht.end = ht_data + nb_words)
                    o = self.size_origin_of_expr(rhs)
                    if o and self.ptr_origin_of_expr(rhs):
                        self.size[lhs] = o
                        changed = True

    # ---- guards
    def guard_nodes(self):
        f = self.f
        out = []
        for n in f.nodes():
            if n["k"] in ("IfStmt", "WhileStmt"):
                out.append((n, n["c"][0]))
            elif n["k"] in ("ForStmt", "DoStmt"):
                out.append((n, n["c"][1]))
        return [(n, c) for n, c in out if c is not None]

    def mentions(self, cond):
        """(keys mentioned, {origin of size terms mentioned}) over the relational comparisons of the condition:
        `n == 0`, `!p` bound nothing"""
        keys, origins = set(), set()
        f = self.f
        rel = [x for x in walk(cond) if x["k"] == "BinaryOperator" and x.get("op") in ("<", ">", "<=", ">=")]
        for r in rel:
            k2, o2 = self._mentions(r)
            keys |= k2
            origins |= o2
        return keys, origins

    def _mentions(self, cond):
        keys, origins = set(), set()
        f = self.f
        for x in walk(cond):
            if x["k"] == "MemberExpr" and (f.decl(x) or {}).get("n") in SIZE_MEMBERS:
                origins.add("%s:%s" % (short(f), _obj_of(f, x)))
            if x["k"] in ("DeclRefExpr", "MemberExpr"):
                k = self.key_of(x)
                if k is None:
                    continue
                keys.add(k)
                if k in self.size:
                    origins.add(self.size[k])
                elif k[0] == "f" and k[1] in self.fso:
                    origins.add(self.fso[k[1]])
        return keys, origins

    def leaves(self, stmt):
        """does the statement contain a return / break / continue (the failing branch of a validation)?"""
        return stmt is not None and any(x["k"] in ("ReturnStmt", "BreakStmt", "ContinueStmt") for x in walk(stmt))


def field_origins(funcs):
    """field name -> origin for buffer-pointer fields and size fields, from every assignment in the analysed functions"""
    fpo, fso = {}, {}
    for _ in range(2):
        for f in funcs:
            if f.dep or f.cfg() is None:
                continue
            fi = FnInfo(f, fpo, fso)
            for k, o in fi.ptr.items():
                if k[0] == "f":
                    fpo.setdefault(k[1], o)
            for k, o in fi.size.items():
                if k[0] == "f":
                    fso.setdefault(k[1], o)
    return fpo, fso


def check(ctx, P, funcs, T, rule="R-ELFBOUND"):
    funcs = [f for f in funcs if not f.dep and f.cfg() is not None]
    fpo, fso = field_origins(funcs)
    infos = {f.u: FnInfo(f, fpo, fso) for f in funcs}
    narrow_sums = []
    # validated counts: locals / fields compared with a genuine size term in a test whose failing branch leaves are
    # size terms of that origin from then on (one level only: a value checked against a validated count is an index,
    # not a size)
    for fi in infos.values():
        new = {}
        for n, cond in fi.guard_nodes():
            if not (n["k"] == "IfStmt" and fi.leaves(n["c"][1])):
                continue
            for r in walk(cond):
                if r["k"] != "BinaryOperator" or r.get("op") not in ("<", ">", "<=", ">="):
                    continue
                for a, b in ((r["c"][0], r["c"][1]), (r["c"][1], r["c"][0])):
                    # `count OP <expression over a size of O>`: the lone variable on the other side is validated
                    _, oa = fi._mentions(a)
                    kb_node = strip_casts(b)
                    if len(oa) == 1 and kb_node is not None and kb_node["k"] == "BinaryOperator" and kb_node.get("op") == "+":
                        # `c1 + c2 + .. OP <size>`: validates every summand if the sum cannot wrap, i.e. if it is computed in
                        # a type wider than the 32-bit fields the counts are read from
                        terms, stack = [], [kb_node]
                        while stack:
                            t_ = strip_casts(stack.pop())
                            while t_ is not None and t_["k"] in ("ImplicitCastExpr", "ParenExpr"):
                                t_ = strip_casts(t_["c"][0])
                            if t_ is not None and t_["k"] == "BinaryOperator" and t_.get("op") == "+":
                                stack.extend(t_["c"])
                            elif t_ is not None:
                                terms.append(t_)
                        tt = (fi.f.type(kb_node) or {}).get("c") or ""
                        wide = tt in ("unsigned long", "size_t", "unsigned long long", "uint64_t", "long", "long long")
                        sum_vars = [t_ for t_ in terms if t_["k"] in ("DeclRefExpr", "MemberExpr")]
                        if sum_vars and all(t_["k"] in ("DeclRefExpr", "MemberExpr", "IntegerLiteral") for t_ in terms):
                            if wide:
                                for t_ in sum_vars:
                                    k = fi.key_of(t_)
                                    if k is not None and k not in fi.ptr and k not in fi.size:
                                        new[k] = next(iter(oa))
                            else:
                                narrow_sums.append((fi.f, r, tt))
                        continue
                    if len(oa) != 1 or kb_node is None or kb_node["k"] not in ("DeclRefExpr", "MemberExpr"):
                        continue
                    k = fi.key_of(kb_node)
                    if k is not None and k not in fi.ptr and k not in fi.size and \
                            not (k[0] == "f" and (k[1] in fpo or k[1] in fso)):
                        new[k] = next(iter(oa))
        fi.size.update(new)
        for k, o in new.items():
            if k[0] == "f":
                fso.setdefault(k[1], o)
    for f_, r_, tt_ in narrow_sums:
        ctx.analysed(f_)
        ctx.ob(rule + "/WRAP", "%s: the bound check `%s` cannot wrap" % (short(f_), expr_str(f_, r_)[:60]), False, f_.loc(r_),
               "the sum is computed in `%s`, as narrow as the on-disk counters it adds: values chosen so that the sum wraps pass the "
               "check and index far outside the section" % tt_)
    # validators: functions with a leaving size test that returns false
    validators = {}
    for fi in infos.values():
        tests = []
        for n, cond in fi.guard_nodes():
            keys, origins = fi.mentions(cond)
            if origins and n["k"] == "IfStmt" and any(
                    r["k"] == "ReturnStmt" and r.get("c") and strip_casts(r["c"][0]) is not None and
                    strip_casts(r["c"][0])["k"] == "CXXBoolLiteralExpr" and strip_casts(r["c"][0]).get("v") == 0
                    for r in walk(n["c"][1])):
                tests.append(({k for k in keys if k[0] == "f"}, origins))
        if tests:
            validators[fi.f.u] = tests
    n_sites = 0
    for f in sorted(funcs, key=lambda x: (x.file, x.l0)):
        fi = infos[f.u]
        groups = {}
        for n in f.nodes():
            base = idx = None
            if n["k"] == "ArraySubscriptExpr":
                base, idx = strip_casts(n["c"][0]), n["c"][1]
            elif n["k"] == "UnaryOperator" and n.get("op") == "*":
                base = strip_casts(n["c"][0])
            if base is None or base["k"] not in ("DeclRefExpr", "MemberExpr"):
                continue
            k = fi.key_of(base)
            o = fi.ptr.get(k) or (fpo.get(k[1]) if k is not None and k[0] == "f" else None)
            if k is None or o is None:
                continue
            groups.setdefault(k, {"origin": o, "reads": [], "text": expr_str(f, base)})["reads"].append((n, idx))
        if not groups:
            continue
        ctx.analysed(f)
        guards = []
        for n, cond in fi.guard_nodes():
            keys, origins = fi.mentions(cond)
            for x in walk(cond):
                if x["k"] == "CallExpr" and (f.decl(x) or {}).get("u") in validators:
                    for vk, vo in validators[f.decl(x)["u"]]:
                        guards.append((n, set(vk), set(vo), "validator %s()" % f.decl(x)["n"]))
            if origins:
                guards.append((n, keys, origins, expr_str(f, cond)[:70]))
        for k, g in sorted(groups.items(), key=lambda kv: kv[1]["text"]):
            n_sites += len(g["reads"])
            first = min(g["reads"], key=lambda t: (t[0]["l"], t[0]["i"]))[0]
            # variables the indices depend on (one step through initialisers)
            related = {k}
            variable_index = False
            for n, idx in g["reads"]:
                if idx is None:
                    variable_index = True      # dereference of a moving pointer
                    continue
                for x in walk(idx):
                    if x["k"] in ("DeclRefExpr", "MemberExpr"):
                        kk = fi.key_of(x)
                        if kk is not None:
                            variable_index = True
                            related.add(kk)
            for kk in list(related):
                if kk[0] == "v":
                    for vn in f.nodes():
                        if vn["k"] == "VarDecl" and vn.get("d") == kk[1] and vn.get("c") and vn["c"][0] is not None:
                            if any(x["k"] == "ArraySubscriptExpr" or (x["k"] == "UnaryOperator" and x.get("op") == "*")
                                   for x in walk(vn["c"][0])):
                                continue    # a value read from the file is not bounded by what indexed the read
                            for x in walk(vn["c"][0]):
                                if x["k"] in ("DeclRefExpr", "MemberExpr") and fi.key_of(x) is not None:
                                    related.add(fi.key_of(x))
            ok, why = False, ""
            for gn, keys, origins, txt in guards:
                before = (gn["l"], gn["i"]) < (first["l"], first["i"])
                encloses = any(a["i"] == gn["i"] for a in f.ancestors(first))
                if not (before or encloses):
                    continue
                if g["origin"] not in origins:
                    continue
                if variable_index and not (keys & related):
                    continue
                ok, why = True, txt
                break
            und = T.get("elfbound_undecided", {})
            ent = "%s: reads through `%s` are bounded by the size of its section" % (short(f), g["text"])
            if ent in und or short(f) in und:
                ctx.note("%s %s: not decided (%s)" % (rule, ent, und.get(ent) or und.get(short(f))))
                continue
            ctx.ob(rule, ent, ok, f.loc(first),
                   "%d read(s); covered by `%s` (a size of %s)" % (len(g["reads"]), why, g["origin"]) if ok else
                   "%d read(s) through `%s`, which points into the data of %s, with %s and no preceding / enclosing test "
                   "that relates %s to the size of that very section: a corrupted section makes the walk leave the buffer" % (
                       len(g["reads"]), g["text"], g["origin"],
                       "indices taken from the file" if variable_index else "constant indices",
                       "the pointer or its index" if variable_index else "it"))
    return n_sites
