"""C28 - the ksymtab-restricted interface is a mode: R-KMODE.

Every call of elf_helpers::is_linux_kernel() whose value *selects* ksymtab-based filtering of the
interface must be conjoined with (or data-dependent on) the read-context option
`load_in_linux_kernel_mode`.  Selecting = the value is stored into a data member, or controls a
branch / initialises a flag under which symbols are kept or dropped by is_in_ksymtab() /
set_kernel_symbols().  Sites where kernel-ness only tags or annotates are listed with a reason.
"""
from engine.facts import walk, call_args, member_call_object, expr_str
from engine.cfg import strip_casts
from engine.compdb import AnalysisBroken
from rules.null_rules import short, _callsites

UNITS = ["src/abg-dwarf-reader.cc", "src/abg-symtab-reader.cc", "src/abg-elf-helpers.cc"]
NON_SELECTING = {
    "read_debug_info_into_corpus": "only tags corpus::origin with LINUX_KERNEL_BINARY_ORIGIN",
    "find_ksymtab_strings_section": "locates a section; callers decide what to do with it",
    "symtab::load_#is_kernel": "local `is_kernel`: only collects __ksymtab_ / __crc_ markers to annotate symbols",
}
MODE_GETTER = "load_in_linux_kernel_mode"


def mentions_mode(P, f, e, depth=0):
    """does expression e depend on the kernel-mode option (getter call, or a bool parameter that every
    caller feeds from the option)?"""
    for x in walk(e):
        if x["k"] in ("CXXMemberCallExpr", "CallExpr") and (f.decl(x) or {}).get("n") == MODE_GETTER:
            return True, "conjoined with %s()" % MODE_GETTER
        if x["k"] == "MemberExpr" and (f.decl(x) or {}).get("n") == MODE_GETTER:
            return True, "reads options.%s" % MODE_GETTER
        if x["k"] == "DeclRefExpr" and (f.decl(x) or {}).get("k") == "ParmVar" and depth < 3:
            d = f.decl(x)
            idx = [i for i, p in enumerate(f.params()) if p["n"] == d["n"]]
            t = f.unit.type(d.get("t"))
            if not idx or t is None or t["c"] != "bool":
                continue
            sites = _callsites(P).get(f.u, [])
            if not sites:
                continue
            allok, why = True, []
            for g, call in sites:
                args = call_args(call)
                a = args[idx[0]] if idx[0] < len(args) else None
                if a is None or a["k"] == "CXXDefaultArgExpr":
                    allok = False
                    why.append("%s uses the default argument" % g.n)
                    continue
                ok, w = mentions_mode(P, g, a, depth + 1)
                allok &= ok
                why.append("%s passes %s" % (g.n, expr_str(g, a)))
            if allok:
                return True, "parameter `%s`: %s" % (d["n"], "; ".join(why))
    return False, "no dependence on %s" % MODE_GETTER


def run(ctx):
    ctx.clause = ("every decision to restrict the interface to the ksymtab is conjoined with the "
                  "load_in_linux_kernel_mode option (no kernel-mode filtering when the mode is off)")
    ctx.rules = ["R-KMODE", "R-KSYMAPPLY", "R-KFILTER"]
    P = ctx.program(UNITS)
    check_kfilter(ctx, P)
    n_sites = n_sel = 0
    for f in sorted(P.all_funcs(), key=lambda x: (x.file, x.l0)):
        if f.dep:
            continue
        for n in f.nodes():
            if n["k"] != "CallExpr" or (f.decl(n) or {}).get("q") != "abigail::elf_helpers::is_linux_kernel":
                continue
            n_sites += 1
            ctx.analysed(f)
            # the full expression the call is part of, and where its value goes
            top = n
            for anc in f.ancestors(n):
                if anc["k"] in ("BinaryOperator", "UnaryOperator") and anc.get("op") in ("&&", "||", "!"):
                    top = anc
                    continue
                break
            p = f.parent(top)
            dest, destname = None, ""
            if p is not None and p["k"] == "VarDecl":
                dest, destname = "local", f.decl(p)["n"]
            elif p is not None and p["k"] == "BinaryOperator" and p.get("op") == "=":
                l = strip_casts(p["c"][0])
                if l is not None and l["k"] == "MemberExpr":
                    dest, destname = "field", f.decl(l)["n"]
                elif l is not None and l["k"] == "DeclRefExpr":
                    dest, destname = "local", f.decl(l)["n"]
            elif p is not None and p["k"] in ("IfStmt", "ConditionalOperator", "WhileStmt"):
                dest = "branch"
            key = short(f) if dest != "local" else "%s#%s" % (short(f), destname)
            if short(f) in NON_SELECTING or key in NON_SELECTING:
                ctx.note("is_linux_kernel() in %s: %s" % (key, NON_SELECTING.get(key) or NON_SELECTING.get(short(f))))
                continue
            n_sel += 1
            ok, why = mentions_mode(P, f, top)
            ent = "%s: is_linux_kernel() -> %s %s" % (short(f), dest or "value", destname)
            ctx.ob("R-KMODE", ent.strip(), ok, f.loc(n),
                   why if ok else
                   "kernel-ness decides ksymtab-based filtering here without consulting %s: with "
                   "--no-linux-kernel-mode the symbol tables and the declarations disagree" % MODE_GETTER)
    ctx.floor("R-KMODE", "is_linux_kernel() call sites", n_sites, 5)
    ctx.floor("R-KMODE", "selecting sites", n_sel, 3)
    check_ksymapply(ctx, P)
    ctx.assume("which symbols carry a ksymtab marker is runtime data")



def check_ksymapply(ctx, P):
    """R-KSYMAPPLY: in symtab::load_(Elf*, ...) the names collected from the __ksymtab_<name> markers are applied to
    the symbols independently of the order of the symbol table:
      /ALL   the loop over the collected set that calls set_is_in_ksymtab(true) lies on every path to the
             function's `return true` (it is not skipped under a condition);
      /ONLY  every set_is_in_ksymtab(true) is control-dependent on membership in that set (inside the loop over it,
             or under a count()/find() test of it)."""
    fs = [f for f in P.fn("abigail::symtab_reader::symtab::load_") if not f.dep and f.cfg() is not None and
          any(x["k"] == "StringLiteral" and x.get("s") == "__ksymtab_" for x in f.nodes())]
    if len(fs) != 1:
        raise AnalysisBroken("anchor vanished: symtab::load_ (the overload that recognises __ksymtab_ markers)")
    f = fs[0]
    ctx.analysed(f)
    # the collected set: a local that receives insert(...) under the "__ksymtab_" test
    sets = set()
    for n in f.nodes():
        if n["k"] == "IfStmt" and any(x["k"] == "StringLiteral" and x.get("s") == "__ksymtab_" for x in walk(n["c"][0])):
            for x in walk(n["c"][1]):
                if x["k"] == "CXXMemberCallExpr" and (f.decl(x) or {}).get("n") in ("insert", "emplace"):
                    o = strip_casts(member_call_object(x))
                    if o is not None and o["k"] == "DeclRefExpr":
                        sets.add(o.get("d"))
    if len(sets) != 1:
        raise AnalysisBroken("anchor vanished: the local set filled from the __ksymtab_ markers in symtab::load_")
    S = next(iter(sets))
    sname = f.unit.decl(S)["n"]
    setters = [n for n in f.nodes() if n["k"] == "CXXMemberCallExpr" and (f.decl(n) or {}).get("n") == "set_is_in_ksymtab"]
    ctx.floor("R-KSYMAPPLY", "set_is_in_ksymtab call sites in symtab::load_", len(setters), 1)

    def ranges_over_S(loop):
        r = strip_casts(loop["c"][0])
        return r is not None and r["k"] == "DeclRefExpr" and r.get("d") == S
    loops = [n for n in f.nodes() if n["k"] == "CXXForRangeStmt" and ranges_over_S(n) and
             any(x["i"] == s_["i"] for s_ in setters for x in walk(n))]
    ok_loop = len(loops) >= 1
    ctx.ob("R-KSYMAPPLY/ALL", "symtab::load_: a loop over %s applies set_is_in_ksymtab" % sname, ok_loop, f.loc(),
           "%d loop(s) over the collected names call set_is_in_ksymtab(true)" % len(loops))
    if ok_loop:
        from rules.idref_rule import _on_all_paths_before
        loop = loops[0]
        rng = loop["c"][0]
        rets = [n for n in f.nodes() if n["k"] == "ReturnStmt" and n.get("c") and
                strip_casts(n["c"][0]) is not None and strip_casts(n["c"][0])["k"] == "CXXBoolLiteralExpr" and
                strip_casts(n["c"][0]).get("v") == 1]
        if not rets:
            raise AnalysisBroken("anchor vanished: `return true` of symtab::load_")
        # the range expression of the loop is evaluated exactly when the loop is reached
        ids = {x["i"] for x in walk(rng)}
        ok = all(_on_all_paths_before(f, r, lambda e: e["i"] in ids) for r in rets)
        guards = [expr_str(f, a["c"][0]) for a in f.ancestors(loop) if a["k"] == "IfStmt"]
        ctx.ob("R-KSYMAPPLY/ALL", "symtab::load_: the application loop over %s runs on every successful load" % sname,
               ok, f.loc(loop),
               "every path to `return true` evaluates the loop over %s" % sname if ok else
               "the loop that flags the exported symbols is skipped on some path to `return true` (under `%s`): markers "
               "met after the condition became true are never applied - the result depends on the order of the "
               "symbol table" % (" / ".join(guards) or "a condition"))
    for i, n in enumerate(setters):
        arg = strip_casts(call_args(n)[0]) if call_args(n) else None
        if arg is not None and arg["k"] == "CXXBoolLiteralExpr" and arg.get("v") == 0:
            continue
        inside = any(a["k"] == "CXXForRangeStmt" and ranges_over_S(a) for a in f.ancestors(n))
        guarded = False
        for a in f.ancestors(n):
            if a["k"] == "IfStmt":
                for x in walk(a["c"][0]):
                    if x["k"] == "CXXMemberCallExpr" and (f.decl(x) or {}).get("n") in ("count", "find", "contains"):
                        o = strip_casts(member_call_object(x))
                        if o is not None and o["k"] == "DeclRefExpr" and o.get("d") == S:
                            guarded = True
        ctx.ob("R-KSYMAPPLY/ONLY", "symtab::load_: set_is_in_ksymtab(true) #%d only for names in %s" % (i + 1, sname),
               inside or guarded, f.loc(n),
               "inside the loop over %s" % sname if inside else "under a membership test of %s" % sname if guarded else
               "a symbol is flagged as ksymtab-exported without its name having been looked up in the collected markers")



def check_kfilter(ctx, P):
    """R-KFILTER: the default filter of a symtab (symtab::make_filter, what the corpus' symbol tables and the exported
    interface are built with) demands ksymtab membership exactly for kernel binaries, and a filter that demands it
    rejects a symbol that is not in the ksymtab: interpreted over is_kernel_binary_ and, for symtab_filter::matches with
    kernel_symbols_ = true, over is_in_ksymtab() x is_public()."""
    from rules.world import World, ANY, truth
    from rules import C18
    mk = C18.fn1(P, "abigail::symtab_reader::symtab::make_filter")
    mt = C18.fn1(P, "abigail::symtab_reader::symtab_filter::matches")
    ctx.analysed(mk)
    ctx.analysed(mt)
    for kernel in (True, False):
        def atom(e):
            if e["k"] == "MemberExpr" and (mk.decl(e) or {}).get("n") == "is_kernel_binary_":
                return [kernel]
            return None
        W = World(mk, atom)
        seen, _ = W.blocks()
        reached = {e["i"] for b in seen for e in mk.cfg().blocks[b].elems}
        calls = [x for x in mk.nodes() if x["k"] == "CXXMemberCallExpr" and (mk.decl(x) or {}).get("n") == "set_kernel_symbols"]
        if not calls:
            raise AnalysisBroken("anchor vanished: symtab::make_filter no longer calls set_kernel_symbols")
        hit = any(c["i"] in reached for c in calls)
        ctx.ob("R-KFILTER", "make_filter: %s binary -> ksymtab membership %s" % ("kernel" if kernel else "ordinary", "demanded" if kernel else "not demanded"),
               hit == kernel, mk.loc(calls[0]), "set_kernel_symbols() %s" % ("reached" if hit else "unreachable"))
    members = {m: v for m, v, cond in C18.filter_calls(P, mk)}
    km = [m for m in members if "kernel" in m]
    if not km:
        raise AnalysisBroken("anchor vanished: the member written by set_kernel_symbols")
    state = {"public_symbols_": True, km[0]: True}
    for in_k in (True, False):
        for pub in (True, False):
            w = {"is_in_ksymtab": in_k, "is_public": pub}

            def atom2(e):
                k = e["k"]
                if k == "CXXMemberCallExpr":
                    nm = (mt.decl(e) or {}).get("n")
                    if nm in w:
                        return [w[nm]]
                    if nm and nm.startswith("operator bool"):
                        o = strip_casts(member_call_object(e))
                        if o is not None and o["k"] == "MemberExpr":
                            return [state.get((mt.decl(o) or {}).get("n")) is not None]
                    return [ANY]
                if k == "CXXOperatorCallExpr" and e.get("op") == "*":
                    o = strip_casts(call_args(e)[0])
                    if o is not None and o["k"] == "MemberExpr":
                        v = state.get((mt.decl(o) or {}).get("n"))
                        return [ANY if v is None else v]
                return None
            got = truth(World(mt, atom2).returns())
            want = in_k and pub
            ctx.ob("R-KFILTER", "kernel filter: a symbol with is_in_ksymtab=%s, is_public=%s is %s" % (
                str(in_k).lower(), str(pub).lower(), "kept" if want else "rejected"), got == frozenset([want]), mt.loc(),
                "decided" if got == frozenset([want]) else "symtab_filter::matches answers %s" % sorted(got))
