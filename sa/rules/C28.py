"""C28 - the ksymtab-restricted interface is a mode: R-KMODE.

Every call of elf_helpers::is_linux_kernel() whose value *selects* ksymtab-based filtering of the
interface must be conjoined with (or data-dependent on) the read-context option
`load_in_linux_kernel_mode`.  Selecting = the value is stored into a data member, or controls a
branch / initialises a flag under which symbols are kept or dropped by is_in_ksymtab() /
set_kernel_symbols().  Sites where kernel-ness only tags or annotates are listed with a reason.
"""
from engine.facts import walk, call_args, member_call_object, expr_str
from engine.cfg import strip_casts
from engine.compdb import AnalysisBroken
from rules.null_rules import short, _callsites

UNITS = ["src/abg-dwarf-reader.cc", "src/abg-symtab-reader.cc", "src/abg-elf-helpers.cc"]
NON_SELECTING = {
    "read_debug_info_into_corpus": "only tags corpus::origin with LINUX_KERNEL_BINARY_ORIGIN",
    "find_ksymtab_strings_section": "locates a section; callers decide what to do with it",
    "symtab::load_#is_kernel": "local `is_kernel`: only collects __ksymtab_ / __crc_ markers to annotate symbols",
}
MODE_GETTER = "load_in_linux_kernel_mode"


def mentions_mode(P, f, e, depth=0):
    """does expression e depend on the kernel-mode option (getter call, or a bool parameter that every
    caller feeds from the option)?"""
    for x in walk(e):
        if x["k"] in ("CXXMemberCallExpr", "CallExpr") and (f.decl(x) or {}).get("n") == MODE_GETTER:
            return True, "conjoined with %s()" % MODE_GETTER
        if x["k"] == "MemberExpr" and (f.decl(x) or {}).get("n") == MODE_GETTER:
            return True, "reads options.%s" % MODE_GETTER
        if x["k"] == "DeclRefExpr" and (f.decl(x) or {}).get("k") == "ParmVar" and depth < 3:
            d = f.decl(x)
            idx = [i for i, p in enumerate(f.params()) if p["n"] == d["n"]]
            t = f.unit.type(d.get("t"))
            if not idx or t is None or t["c"] != "bool":
                continue
            sites = _callsites(P).get(f.u, [])
            if not sites:
                continue
            allok, why = True, []
            for g, call in sites:
                args = call_args(call)
                a = args[idx[0]] if idx[0] < len(args) else None
                if a is None or a["k"] == "CXXDefaultArgExpr":
                    allok = False
                    why.append("%s uses the default argument" % g.n)
                    continue
                ok, w = mentions_mode(P, g, a, depth + 1)
                allok &= ok
                why.append("%s passes %s" % (g.n, expr_str(g, a)))
            if allok:
                return True, "parameter `%s`: %s" % (d["n"], "; ".join(why))
    return False, "no dependence on %s" % MODE_GETTER


def run(ctx):
    ctx.clause = ("every decision to restrict the interface to the ksymtab is conjoined with the "
                  "load_in_linux_kernel_mode option (no kernel-mode filtering when the mode is off)")
    ctx.rules = ["R-KMODE"]
    P = ctx.program(UNITS)
    n_sites = n_sel = 0
    for f in sorted(P.all_funcs(), key=lambda x: (x.file, x.l0)):
        if f.dep:
            continue
        for n in f.nodes():
            if n["k"] != "CallExpr" or (f.decl(n) or {}).get("q") != "abigail::elf_helpers::is_linux_kernel":
                continue
            n_sites += 1
            ctx.analysed(f)
            # the full expression the call is part of, and where its value goes
            top = n
            for anc in f.ancestors(n):
                if anc["k"] in ("BinaryOperator", "UnaryOperator") and anc.get("op") in ("&&", "||", "!"):
                    top = anc
                    continue
                break
            p = f.parent(top)
            dest, destname = None, ""
            if p is not None and p["k"] == "VarDecl":
                dest, destname = "local", f.decl(p)["n"]
            elif p is not None and p["k"] == "BinaryOperator" and p.get("op") == "=":
                l = strip_casts(p["c"][0])
                if l is not None and l["k"] == "MemberExpr":
                    dest, destname = "field", f.decl(l)["n"]
                elif l is not None and l["k"] == "DeclRefExpr":
                    dest, destname = "local", f.decl(l)["n"]
            elif p is not None and p["k"] in ("IfStmt", "ConditionalOperator", "WhileStmt"):
                dest = "branch"
            key = short(f) if dest != "local" else "%s#%s" % (short(f), destname)
            if short(f) in NON_SELECTING or key in NON_SELECTING:
                ctx.note("is_linux_kernel() in %s: %s" % (key, NON_SELECTING.get(key) or NON_SELECTING.get(short(f))))
                continue
            n_sel += 1
            ok, why = mentions_mode(P, f, top)
            ent = "%s: is_linux_kernel() -> %s %s" % (short(f), dest or "value", destname)
            ctx.ob("R-KMODE", ent.strip(), ok, f.loc(n),
                   why if ok else
                   "kernel-ness decides ksymtab-based filtering here without consulting %s: with "
                   "--no-linux-kernel-mode the symbol tables and the declarations disagree" % MODE_GETTER)
    ctx.floor("R-KMODE", "is_linux_kernel() call sites", n_sites, 5)
    ctx.floor("R-KMODE", "selecting sites", n_sel, 3)
    ctx.assume("which symbols carry a ksymtab marker is runtime data")
