"""C34 - the ELF symbol readers never crash on malformed binaries (libelf null / bounds / assert clauses).

R-ELFNULL   results of the libelf accessors that fail on corrupted sections (elf_getdata,
            elf_rawdata, gelf_getsym, elf_strptr, gelf_getdyn, gelf_getver*) are dereferenced only
            under a non-null fact.
R-ELFBOUND  every subscript / dereference of a pointer derived from Elf_Data::d_buf is dominated by
            a branch condition that mentions the buffer's d_size (or a count derived from
            sh_size); a division by sh_entsize needs a non-zero test.
R-INASSERT  no assertion on the result of a libelf accessor / on section contents.
R-LOOPPROG  (termination) no loop reachable from the readers relies, for the progress of its condition, on a callee
            that may return without writing its out-parameter while the result of the call is discarded
            (rules/loopprog_rule.py).
"""
import json
import os

from engine.cfg import NullFlow, TOP, strip_casts, ptr_key
from engine.facts import walk, call_args, member_call_object, expr_str
from engine.compdb import AnalysisBroken
from rules import null_rules as nr
from rules import inassert_rule
from rules.null_rules import short, occurrence_tag

TABLES = os.path.join(os.path.dirname(os.path.dirname(os.path.abspath(__file__))), "tables")
FILES = ("src/abg-elf-helpers.cc", "src/abg-symtab-reader.cc", "src/abg-dwarf-reader.cc",
         "src/abg-elf-reader-common.cc")


def buffer_pointers(f):
    """{decl index / field name: description} of variables that point into an Elf_Data buffer"""
    derived = {}

    def key_of(n):
        n = strip_casts(n)
        if n is None:
            return None
        if n["k"] == "DeclRefExpr":
            return ("v", n.get("d"))
        if n["k"] == "MemberExpr" and (f.decl(n) or {}).get("k") == "Field":
            return ("f", f.decl(n)["n"])
        return None

    def from_buffer(e):
        for x in walk(e):
            if x["k"] == "MemberExpr" and (f.decl(x) or {}).get("n") == "d_buf":
                return True
            k = key_of(x) if x["k"] in ("DeclRefExpr", "MemberExpr") else None
            if k in derived:
                return True
        return False
    changed = True
    while changed:
        changed = False
        for n in f.nodes():
            lhs = rhs = None
            if n["k"] == "VarDecl" and n.get("c"):
                lhs, rhs = ("v", n.get("d")), n["c"][0]
            elif n["k"] == "BinaryOperator" and n.get("op") == "=":
                lhs, rhs = key_of(n["c"][0]), n["c"][1]
            if lhs is None or rhs is None or lhs in derived:
                continue
            t = f.type(n) if n["k"] != "VarDecl" else f.unit.type((f.decl(n) or {}).get("t"))
            if t is None or not t.get("ptr"):
                continue
            if from_buffer(rhs):
                derived[lhs] = expr_str(f, rhs)
                changed = True
    return derived


SIZE_MEMBERS = ("d_size", "sh_size")


def size_derived(f, size_fields=()):
    """decl ids of locals whose value is computed from the size of a section (d_size / sh_size, another such
    local, or a field known to hold a size-derived bound)"""
    out = set()

    def mentions(e):
        for x in walk(e):
            if x["k"] == "MemberExpr" and (f.decl(x) or {}).get("n") in SIZE_MEMBERS + tuple(size_fields):
                return True
            if x["k"] == "DeclRefExpr" and x.get("d") in out:
                return True
        return False
    changed = True
    while changed:
        changed = False
        for n in f.nodes():
            tgt = rhs = None
            if n["k"] == "VarDecl" and n.get("c") and n["c"][0] is not None:
                tgt, rhs = n.get("d"), n["c"][0]
            elif n["k"] == "BinaryOperator" and n.get("op") == "=":
                l = strip_casts(n["c"][0])
                if l is not None and l["k"] == "DeclRefExpr":
                    tgt, rhs = l.get("d"), n["c"][1]
            if tgt is not None and tgt not in out and mentions(rhs):
                out.add(tgt)
                changed = True
    return out


def size_fields_of(funcs):
    """names of struct fields that some analysed function assigns from a size-derived expression
    (gnu_ht::end = ht_data + nb_words)"""
    fields = set()
    for _ in range(2):
        for f in funcs:
            if f.dep:
                continue
            loc = size_derived(f, fields)
            for n in f.nodes():
                if n["k"] == "BinaryOperator" and n.get("op") == "=":
                    l = strip_casts(n["c"][0])
                    if l is not None and l["k"] == "MemberExpr" and (f.decl(l) or {}).get("k") == "Field":
                        if any((x["k"] == "MemberExpr" and (f.decl(x) or {}).get("n") in SIZE_MEMBERS + tuple(fields)) or
                               (x["k"] == "DeclRefExpr" and x.get("d") in loc) for x in walk(n["c"][1])):
                            fields.add(f.decl(l)["n"])
    return fields


def is_size_guard(f, cond, T, loc, fields):
    return cond is not None and any(
        x["k"] == "MemberExpr" and (f.decl(x) or {}).get("n") in SIZE_MEMBERS + tuple(fields)
        or x["k"] == "DeclRefExpr" and ((f.decl(x) or {}).get("n") in T["size_locals"] or x.get("d") in loc)
        for x in walk(cond))


def validators(funcs, T, fields):
    """usr of functions that return false under a size guard: `if (!setup_gnu_ht(..)) return false;` in a caller
    is then a size test of the caller"""
    out = set()
    for f in funcs:
        if f.dep:
            continue
        loc = size_derived(f, fields)
        for n in f.nodes():
            if n["k"] == "IfStmt" and is_size_guard(f, n["c"][0], T, loc, fields):
                for r in walk(n["c"][1]):
                    if r["k"] == "ReturnStmt" and r.get("c") and strip_casts(r["c"][0]) is not None and \
                            strip_casts(r["c"][0])["k"] == "CXXBoolLiteralExpr" and strip_casts(r["c"][0]).get("v") == 0:
                        out.add(f.u)
    return out


def check_elfbound(ctx, P, funcs, T):
    n_sites = 0
    fields = size_fields_of(funcs)
    valid = validators(funcs, T, fields)
    for f in sorted(funcs, key=lambda x: (x.file, x.l0)):
        if f.dep or f.cfg() is None:
            continue
        derived = buffer_pointers(f)
        loc = size_derived(f, fields)
        # fields of a struct filled from a buffer elsewhere (gnu_ht::buckets ...) are treated through the table
        table_fields = set(T["buffer_fields"])
        sites = []
        for n in f.nodes():
            base = None
            if n["k"] == "ArraySubscriptExpr":
                base = strip_casts(n["c"][0])
            elif n["k"] == "UnaryOperator" and n.get("op") == "*":
                base = strip_casts(n["c"][0])
            if base is None:
                continue
            k = None
            if base["k"] == "DeclRefExpr" and ("v", base.get("d")) in derived:
                k = expr_str(f, base)
            elif base["k"] == "MemberExpr" and (("f", (f.decl(base) or {}).get("n")) in derived or
                                                (f.decl(base) or {}).get("n") in table_fields):
                k = expr_str(f, base)
            if k:
                sites.append((n, k))
        if not sites:
            continue
        ctx.analysed(f)
        # dominating branch conditions that mention a size of the section
        guards = []
        for n in f.nodes():
            if n["k"] in ("IfStmt", "WhileStmt", "ForStmt", "DoStmt"):
                cond = n["c"][0] if n["k"] in ("IfStmt", "WhileStmt") else n["c"][1]
                if is_size_guard(f, cond, T, loc, fields) or (cond is not None and any(
                        x["k"] == "CallExpr" and (f.decl(x) or {}).get("u") in valid for x in walk(cond))):
                    guards.append(n)
        n_sites += len(sites)
        first = min(sites, key=lambda t: (t[0]["l"], t[0]["i"]))[0]
        bases = sorted({k for _, k in sites})
        guarded = any((g["l"], g["i"]) < (first["l"], first["i"]) for g in guards)
        if short(f) in T["elfbound_undecided"]:
            ctx.note("R-ELFBOUND %s: not decided (%s)" % (short(f), T["elfbound_undecided"][short(f)]))
            continue
        ctx.ob("R-ELFBOUND", "%s: reads through section data are bounded by the section size" % short(f), guarded,
               f.loc(first),
               "%d read(s) through %s; a size test precedes them" % (len(sites), bases) if guarded else
               "%d read(s) through %s - pointers into section data - with indices taken from the file and no test "
               "against d_size / sh_size anywhere before: a corrupted section reads out of bounds" % (len(sites), bases))
    return n_sites


ENTSIZE_UNDECIDED = {
    "symtab::add_alternative_address_lookups": "only reached for ppc64 ELFv1 binaries (function descriptors); "
                                               "cannot be replayed on this host",
}


def check_entsize(ctx, P, funcs):
    n = 0
    for f in sorted(funcs, key=lambda x: (x.file, x.l0)):
        if f.dep:
            continue
        seen = {}
        for x in f.nodes():
            if x["k"] == "BinaryOperator" and x.get("op") in ("/", "%"):
                r = strip_casts(x["c"][1])
                if r is not None and r["k"] == "MemberExpr" and (f.decl(r) or {}).get("n") == "sh_entsize":
                    n += 1
                    txt = expr_str(f, r)
                    guarded = any(y["k"] in ("IfStmt",) and txt in expr_str(f, y["c"][0]) and
                                  (y["l"], y["i"]) < (x["l"], x["i"]) for y in f.nodes())
                    ent = "%s: division by %s needs a non-zero test" % (short(f), txt)
                    ent += occurrence_tag(seen, ent)
                    if short(f) in ENTSIZE_UNDECIDED:
                        ctx.note("R-ELFBOUND/ENTSIZE %s: not decided (%s)" % (short(f), ENTSIZE_UNDECIDED[short(f)]))
                        continue
                    ctx.ob("R-ELFBOUND/ENTSIZE", ent, guarded, f.loc(x),
                           "sh_entsize is tested before the division" if guarded else
                           "sh_entsize comes from the file; a section header with sh_entsize = 0 divides by zero (SIGFPE)")
    return n


def run(ctx):
    ctx.clause = ("in the ELF symbol readers: results of libelf accessors that fail on corrupted sections are checked "
                  "before use, reads through pointers into section data are preceded by a size test, divisions by "
                  "sh_entsize are guarded, and no assertion depends on file contents")
    ctx.rules = ["R-ELFNULL", "R-ELFBOUND", "R-ELFBOUND/WRAP", "R-ELFBOUND/ENTSIZE", "R-INASSERT", "R-ELFALLOC", "R-LOOPPROG"]
    with open(os.path.join(TABLES, "c34_tables.json")) as fh:
        T = json.load(fh)
    P = ctx.program(None)
    funcs = [f for f in P.all_funcs() if f.relfile.endswith(FILES) and not f.dep]
    producers = set(T["nullable_libelf"])
    und = T["elfnull_undecided"]
    efuncs = [f for f in funcs if short(f) not in und]
    for k_, why in und.items():
        ctx.note("R-ELFNULL %s: not decided (%s)" % (k_, why))
    n = nr.nullable_derefs(ctx, P, efuncs, lambda d: d["n"] in producers, rule="R-ELFNULL", per_var=True)
    ctx.floor("R-ELFNULL", "dereferences of libelf results", n, 25)
    for fn, why in T["not_nullable"].items():
        ctx.note("R-ELFNULL: %s not in the producer table: %s" % (fn, why))
    from rules import elfbound_rule
    k = elfbound_rule.check(ctx, P, funcs, T)
    ctx.floor("R-ELFBOUND", "reads through section-buffer pointers", k, 10)
    e = check_entsize(ctx, P, funcs)
    ctx.floor("R-ELFBOUND/ENTSIZE", "divisions by sh_entsize", e, 2)
    na = check_elfalloc(ctx, P, funcs)
    ctx.note("R-ELFALLOC: %d allocation(s) sized from a section header field in the ELF readers (0 expected today; the "
             "seeded variant C34-containers-reserved-from-sh-size is the positive example of the thorough tier)" % na)
    # termination: loops of the readers, and of everything they can call, whose progress hangs on an unchecked callee
    from rules import loopprog_rule
    reach = P.reach([f.u for f in funcs])
    lfuncs = [P.funcs[u] for u in reach if u in P.funcs and not P.funcs[u].dep and P.funcs[u].q.startswith("abigail::")]
    nl, nd = loopprog_rule.check(ctx, P, lfuncs)
    ctx.floor("R-LOOPPROG", "loops reachable from the ELF readers", nl, 300)
    ctx.note("R-LOOPPROG: %d loops inspected in %d functions reachable from the ELF readers, %d depend on a callee that may "
             "decline (0 expected on the repaired tree; the revert of the trim_leading_string repair is the positive example)"
             % (nl, len(lfuncs), nd))
    acc = set(T["accessors"])
    ns, ni = inassert_rule.run(ctx, P, funcs, "C34", producers=lambda d: d["n"] in producers | set(T["assert_producers"]),
                               accessors=lambda d: d["n"] in acc, undecided=T["undecided"])
    ctx.floor("R-INASSERT", "assertion sites in the ELF readers", ns, 40)
    ctx.assume("that elfutils itself is memory safe on corrupted input; the DWARF part of the reader is not covered")



ALLOC_METHODS = ("reserve", "resize", "assign")


def check_elfalloc(ctx, P, funcs):
    """R-ELFALLOC: a count computed from a section *header* field (sh_size, sh_info, e_shnum ...: attacker controlled,
    not backed by data) must not size an allocation - vector::reserve / resize, new T[n], a sized container
    constructor - unless a relational test against the size of data that was actually loaded (Elf_Data::d_size)
    precedes it.  A corrupted sh_size of 2^64-256 makes reserve() throw std::length_error: the tool aborts."""
    n = 0
    HDR = ("sh_size", "sh_info", "sh_link", "e_shnum", "e_phnum", "st_size")
    for f in sorted(funcs, key=lambda x: (x.file, x.l0)):
        if f.dep or f.cfg() is None:
            continue
        tainted = set()
        changed = True
        while changed:
            changed = False
            for x in f.nodes():
                tgt = rhs = None
                if x["k"] == "VarDecl" and x.get("c") and x["c"][0] is not None:
                    tgt, rhs = x.get("d"), x["c"][0]
                elif x["k"] == "BinaryOperator" and x.get("op") == "=":
                    l = strip_casts(x["c"][0])
                    if l is not None and l["k"] == "DeclRefExpr":
                        tgt, rhs = l.get("d"), x["c"][1]
                if tgt is None or tgt in tainted:
                    continue
                t = f.unit.type((f.unit.decl(tgt) or {}).get("t")) or {}
                if not t.get("arith"):
                    continue
                if any((y["k"] == "MemberExpr" and (f.decl(y) or {}).get("n") in HDR) or
                       (y["k"] == "DeclRefExpr" and y.get("d") in tainted) for y in walk(rhs)):
                    tainted.add(tgt)
                    changed = True
        if not tainted:
            continue

        def is_tainted(e):
            return any((y["k"] == "DeclRefExpr" and y.get("d") in tainted) or
                       (y["k"] == "MemberExpr" and (f.decl(y) or {}).get("n") in HDR) for y in walk(e))
        sinks = []
        for x in f.nodes():
            if x["k"] == "CXXMemberCallExpr" and (f.decl(x) or {}).get("n") in ALLOC_METHODS and call_args(x) and \
                    is_tainted(call_args(x)[0]):
                sinks.append((x, "%s(%s)" % (f.decl(x)["n"], expr_str(f, call_args(x)[0]))))
            if x["k"] == "CXXNewExpr" and x.get("c") and any(is_tainted(c) for c in x["c"] if c is not None):
                sinks.append((x, "new[] sized by `%s`" % expr_str(f, x)[:40]))
        for x, what in sinks:
            n += 1
            ctx.analysed(f)
            guarded = False
            for g in f.nodes():
                if g["k"] != "IfStmt" or (g["l"], g["i"]) > (x["l"], x["i"]):
                    continue
                c = g["c"][0]
                rel = [r for r in walk(c) if r["k"] == "BinaryOperator" and r.get("op") in ("<", ">", "<=", ">=")]
                for r in rel:
                    if is_tainted(r) and any(y["k"] == "MemberExpr" and (f.decl(y) or {}).get("n") == "d_size" for y in walk(r)):
                        guarded = True
            ctx.ob("R-ELFALLOC", "%s: %s is bounded by loaded data" % (short(f), what), guarded, f.loc(x),
                   "a relational test against Elf_Data::d_size precedes the allocation" if guarded else
                   "the size comes from a section header field that nothing has validated yet (no test against the d_size of "
                   "loaded data before it): a corrupted header makes the allocation throw (std::length_error / bad_alloc) "
                   "and the tool aborts instead of rejecting the file")
    return n
