"""C34 - the ELF symbol readers never crash on malformed binaries (libelf null / bounds / assert clauses).

R-ELFNULL   results of the libelf accessors that fail on corrupted sections (elf_getdata,
            elf_rawdata, gelf_getsym, elf_strptr, gelf_getdyn, gelf_getver*) are dereferenced only
            under a non-null fact.
R-ELFBOUND  every subscript / dereference of a pointer derived from Elf_Data::d_buf is dominated by
            a branch condition that mentions the buffer's d_size (or a count derived from
            sh_size); a division by sh_entsize needs a non-zero test.
R-INASSERT  no assertion on the result of a libelf accessor / on section contents.
R-LOOPPROG  (termination) no loop reachable from the readers relies, for the progress of its condition, on a callee
            that may return without writing its out-parameter while the result of the call is discarded
            (rules/loopprog_rule.py).
"""
import json
import os

from engine.cfg import NullFlow, TOP, strip_casts, ptr_key
from engine.facts import walk, call_args, member_call_object, expr_str
from engine.compdb import AnalysisBroken
from rules import null_rules as nr
from rules import inassert_rule
from rules.null_rules import short, occurrence_tag

TABLES = os.path.join(os.path.dirname(os.path.dirname(os.path.abspath(__file__))), "tables")
FILES = ("src/abg-elf-helpers.cc", "src/abg-symtab-reader.cc", "src/abg-dwarf-reader.cc",
         "src/abg-elf-reader-common.cc")


def buffer_pointers(f):
    """{decl index / field name: description} of variables that point into an Elf_Data buffer"""
    derived = {}

    def key_of(n):
        n = strip_casts(n)
        if n is None:
            return None
        if n["k"] == "DeclRefExpr":
            return ("v", n.get("d"))
        if n["k"] == "MemberExpr" and (f.decl(n) or {}).get("k") == "Field":
            return ("f", f.decl(n)["n"])
        return None

    def from_buffer(e):
        for x in walk(e):
            if x["k"] == "MemberExpr" and (f.decl(x) or {}).get("n") == "d_buf":
                return True
            k = key_of(x) if x["k"] in ("DeclRefExpr", "MemberExpr") else None
            if k in derived:
                return True
        return False
    changed = True
    while changed:
        changed = False
        for n in f.nodes():
            lhs = rhs = None
            if n["k"] == "VarDecl" and n.get("c"):
                lhs, rhs = ("v", n.get("d")), n["c"][0]
            elif n["k"] == "BinaryOperator" and n.get("op") == "=":
                lhs, rhs = key_of(n["c"][0]), n["c"][1]
            if lhs is None or rhs is None or lhs in derived:
                continue
            t = f.type(n) if n["k"] != "VarDecl" else f.unit.type((f.decl(n) or {}).get("t"))
            if t is None or not t.get("ptr"):
                continue
            if from_buffer(rhs):
                derived[lhs] = expr_str(f, rhs)
                changed = True
    return derived


SIZE_MEMBERS = ("d_size", "sh_size")


def size_derived(f, size_fields=()):
    """decl ids of locals whose value is computed from the size of a section (d_size / sh_size, another such
    local, or a field known to hold a size-derived bound)"""
    out = set()

    def mentions(e):
        for x in walk(e):
            if x["k"] == "MemberExpr" and (f.decl(x) or {}).get("n") in SIZE_MEMBERS + tuple(size_fields):
                return True
            if x["k"] == "DeclRefExpr" and x.get("d") in out:
                return True
        return False
    changed = True
    while changed:
        changed = False
        for n in f.nodes():
            tgt = rhs = None
            if n["k"] == "VarDecl" and n.get("c") and n["c"][0] is not None:
                tgt, rhs = n.get("d"), n["c"][0]
            elif n["k"] == "BinaryOperator" and n.get("op") == "=":
                l = strip_casts(n["c"][0])
                if l is not None and l["k"] == "DeclRefExpr":
                    tgt, rhs = l.get("d"), n["c"][1]
            if tgt is not None and tgt not in out and mentions(rhs):
                out.add(tgt)
                changed = True
    return out


def size_fields_of(funcs):
    """names of struct fields that some analysed function assigns from a size-derived expression
    (gnu_ht::end = ht_data + nb_words)"""
    fields = set()
    for _ in range(2):
        for f in funcs:
            if f.dep:
                continue
            loc = size_derived(f, fields)
            for n in f.nodes():
                if n["k"] == "BinaryOperator" and n.get("op") == "=":
                    l = strip_casts(n["c"][0])
                    if l is not None and l["k"] == "MemberExpr" and (f.decl(l) or {}).get("k") == "Field":
                        if any((x["k"] == "MemberExpr" and (f.decl(x) or {}).get("n") in SIZE_MEMBERS + tuple(fields)) or
                               (x["k"] == "DeclRefExpr" and x.get("d") in loc) for x in walk(n["c"][1])):
                            fields.add(f.decl(l)["n"])
    return fields


def is_size_guard(f, cond, T, loc, fields):
    return cond is not None and any(
        x["k"] == "MemberExpr" and (f.decl(x) or {}).get("n") in SIZE_MEMBERS + tuple(fields)
        or x["k"] == "DeclRefExpr" and ((f.decl(x) or {}).get("n") in T["size_locals"] or x.get("d") in loc)
        for x in walk(cond))


def validators(funcs, T, fields):
    """usr of functions that return false under a size guard: `if (!setup_gnu_ht(..)) return false;` in a caller
    is then a size test of the caller"""
    out = set()
    for f in funcs:
        if f.dep:
            continue
        loc = size_derived(f, fields)
        for n in f.nodes():
            if n["k"] == "IfStmt" and is_size_guard(f, n["c"][0], T, loc, fields):
                for r in walk(n["c"][1]):
                    if r["k"] == "ReturnStmt" and r.get("c") and strip_casts(r["c"][0]) is not None and \
                            strip_casts(r["c"][0])["k"] == "CXXBoolLiteralExpr" and strip_casts(r["c"][0]).get("v") == 0:
                        out.add(f.u)
    return out


def check_elfbound(ctx, P, funcs, T):
    n_sites = 0
    fields = size_fields_of(funcs)
    valid = validators(funcs, T, fields)
    for f in sorted(funcs, key=lambda x: (x.file, x.l0)):
        if f.dep or f.cfg() is None:
            continue
        derived = buffer_pointers(f)
        loc = size_derived(f, fields)
        # fields of a struct filled from a buffer elsewhere (gnu_ht::buckets ...) are treated through the table
        table_fields = set(T["buffer_fields"])
        sites = []
        for n in f.nodes():
            base = None
            if n["k"] == "ArraySubscriptExpr":
                base = strip_casts(n["c"][0])
            elif n["k"] == "UnaryOperator" and n.get("op") == "*":
                base = strip_casts(n["c"][0])
            if base is None:
                continue
            k = None
            if base["k"] == "DeclRefExpr" and ("v", base.get("d")) in derived:
                k = expr_str(f, base)
            elif base["k"] == "MemberExpr" and (("f", (f.decl(base) or {}).get("n")) in derived or
                                                (f.decl(base) or {}).get("n") in table_fields):
                k = expr_str(f, base)
            if k:
                sites.append((n, k))
        if not sites:
            continue
        ctx.analysed(f)
        # dominating branch conditions that mention a size of the section
        guards = []
        for n in f.nodes():
            if n["k"] in ("IfStmt", "WhileStmt", "ForStmt", "DoStmt"):
                cond = n["c"][0] if n["k"] in ("IfStmt", "WhileStmt") else n["c"][1]
                if is_size_guard(f, cond, T, loc, fields) or (cond is not None and any(
                        x["k"] == "CallExpr" and (f.decl(x) or {}).get("u") in valid for x in walk(cond))):
                    guards.append(n)
        n_sites += len(sites)
        first = min(sites, key=lambda t: (t[0]["l"], t[0]["i"]))[0]
        bases = sorted({k for _, k in sites})
        guarded = any((g["l"], g["i"]) < (first["l"], first["i"]) for g in guards)
        if short(f) in T["elfbound_undecided"]:
            ctx.note("R-ELFBOUND %s: not decided (%s)" % (short(f), T["elfbound_undecided"][short(f)]))
            continue
        ctx.ob("R-ELFBOUND", "%s: reads through section data are bounded by the section size" % short(f), guarded,
               f.loc(first),
               "%d read(s) through %s; a size test precedes them" % (len(sites), bases) if guarded else
               "%d read(s) through %s - pointers into section data - with indices taken from the file and no test "
               "against d_size / sh_size anywhere before: a corrupted section reads out of bounds" % (len(sites), bases))
    return n_sites


ENTSIZE_UNDECIDED = {
    "symtab::add_alternative_address_lookups": "only reached for ppc64 ELFv1 binaries (function descriptors); "
                                               "cannot be replayed on this host",
}


def check_entsize(ctx, P, funcs):
    n = 0
    for f in sorted(funcs, key=lambda x: (x.file, x.l0)):
        if f.dep:
            continue
        seen = {}
        for x in f.nodes():
            if x["k"] == "BinaryOperator" and x.get("op") in ("/", "%"):
                r = strip_casts(x["c"][1])
                if r is not None and r["k"] == "MemberExpr" and (f.decl(r) or {}).get("n") == "sh_entsize":
                    n += 1
                    txt = expr_str(f, r)
                    guarded = any(y["k"] in ("IfStmt",) and txt in expr_str(f, y["c"][0]) and
                                  (y["l"], y["i"]) < (x["l"], x["i"]) for y in f.nodes())
                    ent = "%s: division by %s needs a non-zero test" % (short(f), txt)
                    ent += occurrence_tag(seen, ent)
                    if short(f) in ENTSIZE_UNDECIDED:
                        ctx.note("R-ELFBOUND/ENTSIZE %s: not decided (%s)" % (short(f), ENTSIZE_UNDECIDED[short(f)]))
                        continue
                    ctx.ob("R-ELFBOUND/ENTSIZE", ent, guarded, f.loc(x),
                           "sh_entsize is tested before the division" if guarded else
                           "sh_entsize comes from the file; a section header with sh_entsize = 0 divides by zero (SIGFPE)")
    return n


def run(ctx):
    ctx.clause = ("in the ELF symbol readers: results of libelf accessors that fail on corrupted sections are checked "
                  "before use, reads through pointers into section data are preceded by a size test, divisions by "
                  "sh_entsize are guarded, and no assertion depends on file contents")
    ctx.rules = ["R-ELFNULL", "R-ELFBOUND", "R-ELFBOUND/WRAP", "R-ELFBOUND/ENTSIZE", "R-INASSERT", "R-ELFALLOC", "R-LOOPPROG", "R-HANDLEARG", "R-SCNINDEX", "R-LINKWALK", "R-DEVM/UNDERFLOW", "R-DEVM/ASSERT", "R-DEVM/CONST", "R-DEVM/DIV"]
    with open(os.path.join(TABLES, "c34_tables.json")) as fh:
        T = json.load(fh)
    P = ctx.program(None)
    funcs = [f for f in P.all_funcs() if f.relfile.endswith(FILES) and not f.dep]
    producers = set(T["nullable_libelf"])
    und = T["elfnull_undecided"]
    efuncs = [f for f in funcs if short(f) not in und]
    for k_, e_ in und.items():
        ctx.note("R-ELFNULL %s: results of %s not decided (%s)" % (k_, "/".join(e_["producers"]), e_["why"]))
    n = nr.nullable_derefs(ctx, P, efuncs, lambda d: d["n"] in producers, rule="R-ELFNULL", per_var=True)
    for k_, e_ in sorted(und.items()):
        if "*" in e_["producers"]:
            continue
        rest = producers - set(e_["producers"])
        n += nr.nullable_derefs(ctx, P, [f for f in funcs if short(f) == k_], lambda d, rest=rest: d["n"] in rest,
                                rule="R-ELFNULL", per_var=True)
    ctx.floor("R-ELFNULL", "dereferences of libelf results", n, 25)
    for fn, why in T["not_nullable"].items():
        ctx.note("R-ELFNULL: %s not in the producer table: %s" % (fn, why))
    from rules import elfbound_rule
    k = elfbound_rule.check(ctx, P, funcs, T)
    ctx.floor("R-ELFBOUND", "reads through section-buffer pointers", k, 10)
    e = check_entsize(ctx, P, funcs)
    ctx.floor("R-ELFBOUND/ENTSIZE", "divisions by sh_entsize", e, 2)
    na = check_elfalloc(ctx, P, funcs)
    ctx.note("R-ELFALLOC: %d allocation(s) sized from a section header field in the ELF readers (0 expected today; the "
             "seeded variant C34-containers-reserved-from-sh-size is the positive example of the thorough tier)" % na)
    # termination: loops of the readers, and of everything they can call, whose progress hangs on an unchecked callee
    from rules import loopprog_rule
    reach = P.reach([f.u for f in funcs])
    lfuncs = [P.funcs[u] for u in reach if u in P.funcs and not P.funcs[u].dep and P.funcs[u].q.startswith("abigail::")]
    nl, nd = loopprog_rule.check(ctx, P, lfuncs)
    ctx.floor("R-LOOPPROG", "loops reachable from the ELF readers", nl, 300)
    ctx.note("R-LOOPPROG: %d loops inspected in %d functions reachable from the ELF readers, %d depend on a callee that may "
             "decline (0 expected on the repaired tree; the revert of the trim_leading_string repair is the positive example)"
             % (nl, len(lfuncs), nd))
    acc = set(T["accessors"])
    ns, ni = inassert_rule.run(ctx, P, funcs, "C34", producers=lambda d: d["n"] in producers | set(T["assert_producers"]),
                               accessors=lambda d: d["n"] in acc, undecided=T["undecided"])
    ctx.floor("R-INASSERT", "assertion sites in the ELF readers", ns, 40)
    nsi = check_scnindex(ctx, P, funcs)
    ctx.floor("R-SCNINDEX", "elf_getscn() calls of the ELF readers", nsi, 6)
    from rules import devm_rule
    nu, na_, nc, nd_ = devm_rule.check(ctx, P)
    ctx.floor("R-DEVM/UNDERFLOW", "reads of the top of the DWARF expression stack", nu, 8)
    ctx.floor("R-DEVM/ASSERT", "assertions in the DWARF expression evaluator", na_, 5)
    ctx.floor("R-DEVM/CONST", "uses of expr_result::const_value()", nc, 2)
    ctx.floor("R-DEVM/DIV", "integer divisions of the expression value class", nd_, 2)
    nlw = check_linkwalk(ctx, P, funcs, T)
    ctx.floor("R-LINKWALK", "loops that follow links stored in section data", nlw, 1)
    nh = check_handlearg(ctx, P)
    ctx.floor("R-HANDLEARG", "elfutils handles passed to a parameter the callee asserts", nh, 1)
    ctx.assume("that elfutils itself is memory safe on corrupted input; the DWARF part of the reader is not covered")



FILE_INDEX_FIELDS = ("sh_link", "sh_info", "st_shndx", "e_shstrndx")


def _assigns_on_true(P, h, p):
    """does function h assign its reference parameter p on every path that can return a true value"""
    from rules.world import World, truth
    key = ("assigns_on_true", h.u, p)
    cache = P.__dict__.setdefault("_c34_cache", {})
    if key in cache:
        return cache[key]
    cfg = h.cfg()
    ok = cfg is not None
    if ok:
        W = World(h, lambda e: None)
        seen, stack = set(), [(cfg.entry, False)]
        while stack and ok:
            b, got = stack.pop()
            if (b, got) in seen or b not in cfg.blocks:
                continue
            seen.add((b, got))
            blk = cfg.blocks[b]
            ended = False
            for e in blk.elems:
                if e["k"] == "BinaryOperator" and e.get("op") == "=":
                    l = strip_casts(e["c"][0])
                    if l is not None and l["k"] == "DeclRefExpr" and l.get("d") == p:
                        got = True
                if e["k"] == "ReturnStmt":
                    rv = W.ev(e["c"][0]) if e.get("c") and e["c"][0] is not None else frozenset([None])
                    if True in truth(rv) and not got:
                        ok = False
                    ended = True
                    break
            if not ended and not blk.noret:
                stack.extend((s_, got) for s_ in W.feasible_succs(b))
    cache[key] = ok
    return ok


def _reaching_defs(P, f, d):
    """forward may-analysis: which definitions of local d reach each point.  A definition is ('=', rhs node id) or
    ('out', call node id, callee usr, param decl).  A call that hands d to a non-const reference parameter is a may-definition;
    on the edge where its result is tested true it is the only one if the callee assigns the parameter whenever it returns true."""
    key = ("rd", f.u, d)
    cache = P.__dict__.setdefault("_c34_cache", {})
    if key in cache:
        return cache[key]
    from engine.cfg import forward
    cfg = f.cfg()
    outcalls = {}
    for x in f.nodes():
        if x["k"] not in ("CallExpr", "CXXMemberCallExpr"):
            continue
        h = P.funcs.get((f.decl(x) or {}).get("u"))
        if h is None or h.dep:
            continue
        for j, a in enumerate(call_args(x)):
            a0 = strip_casts(a)
            if a0 is None or a0["k"] != "DeclRefExpr" or a0.get("d") != d or j >= len(h.r["params"]):
                continue
            pt = h.unit.type((h.unit.decl(h.r["params"][j]) or {}).get("t")) or {}
            if pt.get("ref") and not pt.get("const"):
                outcalls[x["i"]] = ("out", x["i"], h.u, h.r["params"][j])

    def tr(st, e, blk):
        if e["k"] == "VarDecl" and e.get("d") == d:
            return frozenset([("=", e["c"][0]["i"])]) if e.get("c") and e["c"][0] is not None else frozenset([("=", None)])
        if e["k"] == "BinaryOperator" and e.get("op") == "=":
            l = strip_casts(e["c"][0])
            if l is not None and l["k"] == "DeclRefExpr" and l.get("d") == d:
                return frozenset([("=", e["c"][1]["i"])])
        if e["i"] in outcalls:
            return st | {outcalls[e["i"]]}
        return st

    def edge(st, blk, idx):
        for c in cfg.branch_conds(blk.id):
            c0 = strip_casts(c)
            neg = False
            while c0 is not None and c0["k"] == "UnaryOperator" and c0.get("op") == "!":
                neg = not neg
                c0 = strip_casts(c0["c"][0])
            if c0 is not None and c0["i"] in outcalls and ((idx == 0) != neg):
                oc = outcalls[c0["i"]]
                if _assigns_on_true(P, P.funcs[oc[2]], oc[3]):
                    return frozenset([oc])
        return st
    ins, _ = forward(cfg, frozenset([("=", None)]) if d not in f.r["params"] else frozenset(), tr, edge=edge, join=lambda a, b: a | b)
    cache[key] = (ins, tr)
    return cache[key]


def index_provenance(P, f, e, at=None, depth=0):
    """{'file', 'valid', 'unknown'}: where a section index comes from - a word of the file (sh_link ...), or the index of a
    section the code found by walking the section table (elf_ndxscn) / a literal.  Follows locals (the definitions that
    reach `at`), parameters (through every caller) and locals filled through a reference parameter of a callee."""
    from engine.cfg import state_before
    e = strip_casts(e)
    if e is None or depth > 8:
        return {"unknown"}
    if any(x["k"] == "MemberExpr" and (f.decl(x) or {}).get("n") in FILE_INDEX_FIELDS for x in walk(e)):
        return {"file"}
    if e["k"] == "CallExpr" and (f.decl(e) or {}).get("n") == "elf_ndxscn":
        return {"valid"}
    if e["k"] == "IntegerLiteral":
        return {"valid"}
    if e["k"] != "DeclRefExpr":
        return {"unknown"}
    d = e.get("d")
    out = set()
    if d in f.r["params"]:
        i = f.r["params"].index(d)
        for g, call in nr._callsites(P).get(f.u, []):
            a = call_args(call)
            if i < len(a) and a[i] is not None and a[i]["k"] != "CXXDefaultArgExpr":
                out |= index_provenance(P, g, a[i], call, depth + 1)
        return out or {"unknown"}
    if f.cfg() is None:
        return {"unknown"}
    ins, tr = _reaching_defs(P, f, d)
    st = state_before(f.cfg(), ins, tr, at if at is not None else e)
    if st is TOP:
        return {"valid"}
    for df in st:
        if df[0] == "=":
            if df[1] is None:
                out.add("valid")            # default / zero initialisation
            else:
                out |= index_provenance(P, f, f.node(df[1]), f.node(df[1]), depth + 1)
        else:
            h = P.funcs[df[2]]
            for y in h.nodes():
                if y["k"] == "BinaryOperator" and y.get("op") == "=":
                    l = strip_casts(y["c"][0])
                    if l is not None and l["k"] == "DeclRefExpr" and l.get("d") == df[3]:
                        out |= index_provenance(P, h, y["c"][1], y, depth + 1)
    return out or {"unknown"}


def check_scnindex(ctx, P, funcs, rule="R-SCNINDEX"):
    """R-SCNINDEX: elf_getscn(elf, i) returns null exactly when i is not a section of the file.  Where i is a word of the
    file (sh_link of a hash / dynamic / symbol-table section ...), the result - or the header gelf_getshdr() makes of it -
    is never asserted upon without a dominating test: a one-word corruption would abort the tool."""
    from rules.inassert_rule import assertion_sites, atoms
    n = 0
    for f in sorted(funcs, key=lambda x: (x.file, x.l0)):
        if f.dep or f.cfg() is None:
            continue
        calls = [x for x in f.nodes() if x["k"] == "CallExpr" and (f.decl(x) or {}).get("n") == "elf_getscn"]
        if not calls:
            continue
        ctx.analysed(f)
        nf = None
        seen = {}
        for c in calls:
            args = call_args(c)
            if len(args) < 2:
                continue
            n += 1
            prov = index_provenance(P, f, args[1], c)
            ent = "%s: elf_getscn(%s)" % (short(f), expr_str(f, args[1]))
            ent += occurrence_tag(seen, ent)
            if "file" not in prov:
                ctx.ob(rule, ent, True, f.loc(c), "the index is %s" % (
                    "that of a section found by walking the section table" if prov == {"valid"} else
                    "of undetermined origin (%s): not decided" % "/".join(sorted(prov))))
                continue
            # the variables that hold the result (or its header)
            keys = set()
            node = c
            while True:
                par = f.parent(node)
                if par is None:
                    break
                if par["k"] == "VarDecl":
                    keys.add((f.decl(par) or {}).get("n"))
                    break
                if par["k"] == "BinaryOperator" and par.get("op") == "=":
                    k = ptr_key(f, par["c"][0])
                    if k:
                        keys.add(k)
                    break
                if par["k"] in ("CompoundStmt", "IfStmt", "ReturnStmt", "FunctionBody", "ForStmt", "WhileStmt"):
                    break
                node = par
            bad = []
            for site, cond, kind in assertion_sites(f):
                if cond is None:
                    continue
                for a in atoms(f, cond):
                    a0 = strip_casts(a)
                    if a0 is not None and a0["k"] == "BinaryOperator" and a0.get("op") == "!=":
                        a0 = strip_casts(a0["c"][0])
                    k = ptr_key(f, a0) if a0 is not None else None
                    if k and k in keys:
                        if nf is None:
                            nf = NullFlow(f).solve()
                        st = nf.before(site)
                        if st is not TOP and ("nn", k) not in st:
                            bad.append((site, k))
            ctx.ob(rule, ent, not bad, f.loc(bad[0][0]) if bad else f.loc(c),
                   "the index is a word of the file; the result (%s) is tested, never asserted" % ", ".join(sorted(k for k in keys if k)) if not bad else
                   "the index is a word of the file (%s): for a value that is not a section of the file elf_getscn() returns "
                   "null and ABG_ASSERT(%s) aborts the tool" % (expr_str(f, args[1]), bad[0][1]))
    return n


def check_linkwalk(ctx, P, funcs, T, rule="R-LINKWALK"):
    """R-LINKWALK (termination): a loop that *follows links stored in section data* - the variable its condition tests is
    replaced, inside the loop, by a value read through a pointer into an Elf_Data buffer (`i = chain[i]`) - ends only if
    the data is acyclic, which a corrupted file need not be.  Such a loop needs a second exit governed by a counter of its
    own: a local that the loop increments and that is not read from the data, tested by a conditional break / return."""
    n = 0
    for f in sorted(funcs, key=lambda x: (x.file, x.l0)):
        if f.dep or f.cfg() is None:
            continue
        derived = buffer_pointers(f)
        if not derived:
            continue
        table_fields = set(T["buffer_fields"])

        def reads_data(e):
            for x in walk(e):
                base = None
                if x["k"] == "ArraySubscriptExpr":
                    base = strip_casts(x["c"][0])
                elif x["k"] == "UnaryOperator" and x.get("op") == "*":
                    base = strip_casts(x["c"][0])
                if base is None:
                    continue
                if base["k"] == "DeclRefExpr" and ("v", base.get("d")) in derived:
                    return expr_str(f, x)
                if base["k"] == "MemberExpr" and (("f", (f.decl(base) or {}).get("n")) in derived or
                                                  (f.decl(base) or {}).get("n") in table_fields):
                    return expr_str(f, x)
            return None
        seen = {}
        for L in f.nodes():
            if L["k"] not in ("WhileStmt", "DoStmt", "ForStmt"):
                continue
            cond = L["c"][0] if L["k"] == "WhileStmt" else (L["c"][1] if L["k"] == "DoStmt" else L["c"][2] if len(L["c"]) > 2 else None)
            if L["k"] == "ForStmt":
                # children: init, (condvar), cond, inc, body - take every expression child but the body as "head"
                cond = None
                for c in L["c"][:-1]:
                    if c is not None and c["k"] in ("BinaryOperator", "ImplicitCastExpr", "DeclRefExpr", "UnaryOperator", "CXXOperatorCallExpr") \
                            and not (c["k"] == "BinaryOperator" and c.get("op") in ("=", ",")) and not (c["k"] == "UnaryOperator" and c.get("op") in ("++", "--")):
                        cond = c
            if cond is None:
                continue
            cvars = {x.get("d") for x in walk(cond) if x["k"] == "DeclRefExpr" and (f.decl(x) or {}).get("k") in ("Var", "ParmVar")}
            inside = [x for x in walk(L)]
            links = []
            for x in inside:
                if x["k"] == "BinaryOperator" and x.get("op") == "=":
                    l = strip_casts(x["c"][0])
                    if l is not None and l["k"] == "DeclRefExpr" and l.get("d") in cvars:
                        src = reads_data(x["c"][1])
                        if src:
                            links.append((x, l, src))
            if not links:
                continue
            n += 1
            ctx.analysed(f)
            x, l, src = links[0]
            # a counter of the loop's own: incremented inside, never assigned from data, tested by a conditional exit
            counters = set()
            for y in inside:
                if (y["k"] == "UnaryOperator" and y.get("op") in ("++", "--")) or (y["k"] == "CompoundAssignOperator" and y.get("op") in ("+=", "-=")):
                    t = strip_casts(y["c"][0])
                    if t is not None and t["k"] == "DeclRefExpr" and t.get("d") != l.get("d"):
                        if y["k"] == "CompoundAssignOperator" and reads_data(y["c"][1]):
                            continue
                        counters.add(t.get("d"))
            for y in inside:
                if y["k"] == "BinaryOperator" and y.get("op") == "=":
                    t = strip_casts(y["c"][0])
                    if t is not None and t["k"] == "DeclRefExpr" and t.get("d") in counters and reads_data(y["c"][1]):
                        counters.discard(t.get("d"))
            bounded = None
            for y in inside:
                if y["k"] == "IfStmt" and y.get("c") and y["c"][0] is not None and len(y["c"]) > 1 and y["c"][1] is not None:
                    if any(z["k"] in ("BreakStmt", "ReturnStmt") for z in walk(y["c"][1])) and \
                            any(z["k"] == "DeclRefExpr" and z.get("d") in counters for z in walk(y["c"][0])):
                        bounded = y
            ent = "%s: the walk `%s = %s` is bounded by a counter" % (short(f), expr_str(f, l), src)
            ent += occurrence_tag(seen, ent)
            ctx.ob(rule, ent, bounded is not None, f.loc(x),
                   "exit under `%s`" % expr_str(f, bounded["c"][0])[:80] if bounded is not None else
                   "the loop at %s goes on until `%s` reads a terminating value out of the section; nothing counts its "
                   "iterations: a section in which the links form a cycle never ends the loop" % (f.loc(L), expr_str(f, cond)[:60]))
    return n


HANDLE_TYPES = ("Elf *", "Dwarf *", "Dwfl_Module *", "Dwfl *", "Elf_Scn *")


def _handle_type(t):
    s = (t or {}).get("s", "") if isinstance(t, dict) else ""
    c = (t or {}).get("c", "") if isinstance(t, dict) else ""
    return any(s.replace("const ", "").strip() == h or c.replace("const ", "").strip() == h for h in HANDLE_TYPES)


def check_handlearg(ctx, P, rule="R-HANDLEARG"):
    """R-HANDLEARG: elfutils hands out null handles for a file it cannot make sense of (truncated inside its headers,
    not ELF at all): the readers' handle getters - the functions of this repository that return an Elf* / Dwarf* /
    Dwfl_Module* ... - are nullable.  Wherever such a result (directly, or through a local) is passed to a parameter that
    the callee asserts to be non-null (`ABG_ASSERT(param)`), a test of that same handle dominates the call.  Otherwise a
    truncated input aborts the tool - no error status, exit by signal."""
    asserted = {}            # callee usr -> {param index: location}
    for f in P.all_funcs():
        if f.dep or f.cfg() is None or not f.r["params"]:
            continue
        for x in f.nodes():
            if x["k"] == "VarDecl" and f.macro(x) == "ABG_ASSERT" and (f.decl(x) or {}).get("n") == "__abg_cond__" and x.get("c"):
                c = strip_casts(x["c"][0])
                while c is not None and c["k"] in ("CXXStaticCastExpr", "CXXFunctionalCastExpr", "ParenExpr"):
                    c = strip_casts(c["c"][0])
                if c is None or c["k"] != "DeclRefExpr" or c.get("d") not in f.r["params"]:
                    continue
                if _handle_type(f.type(c)):
                    asserted.setdefault(f.u, {})[f.r["params"].index(c["d"])] = f.loc(x)
    if not asserted:
        raise AnalysisBroken("anchor vanished: no function asserts an elfutils handle parameter (symtab::load did)")
    getters = {u for u, g in P.funcs.items() if not g.dep and g.r.get("ret") and _handle_type(g.ret_type())}
    n = 0
    for g in sorted(P.all_funcs(), key=lambda x: (x.file, x.l0)):
        if g.dep or g.cfg() is None:
            continue
        sites = [(x, (g.decl(x) or {}).get("u")) for x in g.nodes()
                 if x["k"] in ("CallExpr", "CXXMemberCallExpr") and (g.decl(x) or {}).get("u") in asserted]
        if not sites:
            continue
        nf = None
        seen = {}
        for x, u in sites:
            callee = P.funcs[u]
            for idx, where in sorted(asserted[u].items()):
                args = call_args(x)
                if idx >= len(args) or args[idx] is None:
                    continue
                a = strip_casts(args[idx])
                src = a
                if a is not None and a["k"] == "DeclRefExpr" and a.get("d") not in g.r["params"]:
                    for v in g.nodes():
                        if v["k"] == "VarDecl" and v.get("d") == a.get("d") and v.get("c") and v["c"][0] is not None:
                            src = strip_casts(v["c"][0])
                if src is None or src["k"] not in ("CallExpr", "CXXMemberCallExpr") or (g.decl(src) or {}).get("u") not in getters:
                    if a is not None and a["k"] == "DeclRefExpr" and a.get("d") in g.r["params"]:
                        continue          # a parameter handed on: the obligation is the caller's (its own assertion, if any)
                    if a is not None and a["k"] in ("CallExpr", "CXXMemberCallExpr") and (g.decl(a) or {}).get("n", "").startswith(("elf_", "dwfl_", "dwarf_", "gelf_")):
                        pass              # a raw elfutils call: nullable as well
                    else:
                        continue
                n += 1
                ctx.analysed(g)
                if nf is None:
                    nf = NullFlow(g).solve()
                st = nf.before(x)
                key = ptr_key(g, a)
                ok = st is TOP or (key is not None and ("nn", key) in st)
                ent = "%s: %s(%s) is given a handle that was tested" % (short(g), callee.n, expr_str(g, a))
                ent += occurrence_tag(seen, ent)
                ctx.ob(rule, ent, ok, g.loc(x),
                       "`%s` is known non-null at the call" % key if ok else
                       "`%s` is null when elfutils cannot open the file (truncated inside its headers); %s asserts that "
                       "parameter (%s): the tool aborts instead of reporting an unreadable input" % (expr_str(g, a), callee.n, where))
    return n


ALLOC_METHODS = ("reserve", "resize", "assign")


def check_elfalloc(ctx, P, funcs):
    """R-ELFALLOC: a count computed from a section *header* field (sh_size, sh_info, e_shnum ...: attacker controlled,
    not backed by data) must not size an allocation - vector::reserve / resize, new T[n], a sized container
    constructor - unless a relational test against the size of data that was actually loaded (Elf_Data::d_size)
    precedes it.  A corrupted sh_size of 2^64-256 makes reserve() throw std::length_error: the tool aborts."""
    n = 0
    HDR = ("sh_size", "sh_info", "sh_link", "e_shnum", "e_phnum", "st_size")
    for f in sorted(funcs, key=lambda x: (x.file, x.l0)):
        if f.dep or f.cfg() is None:
            continue
        tainted = set()
        changed = True
        while changed:
            changed = False
            for x in f.nodes():
                tgt = rhs = None
                if x["k"] == "VarDecl" and x.get("c") and x["c"][0] is not None:
                    tgt, rhs = x.get("d"), x["c"][0]
                elif x["k"] == "BinaryOperator" and x.get("op") == "=":
                    l = strip_casts(x["c"][0])
                    if l is not None and l["k"] == "DeclRefExpr":
                        tgt, rhs = l.get("d"), x["c"][1]
                if tgt is None or tgt in tainted:
                    continue
                t = f.unit.type((f.unit.decl(tgt) or {}).get("t")) or {}
                if not t.get("arith"):
                    continue
                if any((y["k"] == "MemberExpr" and (f.decl(y) or {}).get("n") in HDR) or
                       (y["k"] == "DeclRefExpr" and y.get("d") in tainted) for y in walk(rhs)):
                    tainted.add(tgt)
                    changed = True
        if not tainted:
            continue

        def is_tainted(e):
            return any((y["k"] == "DeclRefExpr" and y.get("d") in tainted) or
                       (y["k"] == "MemberExpr" and (f.decl(y) or {}).get("n") in HDR) for y in walk(e))
        sinks = []
        for x in f.nodes():
            if x["k"] == "CXXMemberCallExpr" and (f.decl(x) or {}).get("n") in ALLOC_METHODS and call_args(x) and \
                    is_tainted(call_args(x)[0]):
                sinks.append((x, "%s(%s)" % (f.decl(x)["n"], expr_str(f, call_args(x)[0]))))
            if x["k"] == "CXXNewExpr" and x.get("c") and any(is_tainted(c) for c in x["c"] if c is not None):
                sinks.append((x, "new[] sized by `%s`" % expr_str(f, x)[:40]))
        for x, what in sinks:
            n += 1
            ctx.analysed(f)
            guarded = False
            for g in f.nodes():
                if g["k"] != "IfStmt" or (g["l"], g["i"]) > (x["l"], x["i"]):
                    continue
                c = g["c"][0]
                rel = [r for r in walk(c) if r["k"] == "BinaryOperator" and r.get("op") in ("<", ">", "<=", ">=")]
                for r in rel:
                    if is_tainted(r) and any(y["k"] == "MemberExpr" and (f.decl(y) or {}).get("n") == "d_size" for y in walk(r)):
                        guarded = True
            ctx.ob("R-ELFALLOC", "%s: %s is bounded by loaded data" % (short(f), what), guarded, f.loc(x),
                   "a relational test against Elf_Data::d_size precedes the allocation" if guarded else
                   "the size comes from a section header field that nothing has validated yet (no test against the d_size of "
                   "loaded data before it): a corrupted header makes the allocation throw (std::length_error / bad_alloc) "
                   "and the tool aborts instead of rejecting the file")
    return n
