"""R-ATOMS and R-NETPAIR helpers: the verdict predicates, the summary printer and the net
counters are compared as *sets of counter atoms* read off the AST."""
import json
import os

from engine.facts import walk, call_args, member_call_object, expr_str
from engine.cfg import strip_casts
from engine.compdb import AnalysisBroken

UNITS = ["src/abg-comparison.cc", "src/abg-default-reporter.cc", "src/abg-leaf-reporter.cc"]
STATS = "abigail::comparison::corpus_diff::diff_stats"
TABLES = os.path.join(os.path.dirname(os.path.dirname(os.path.abspath(__file__))), "tables")


def netpairs(ctx, P):
    """{net_num_X: (num_A, num_B_filtered_out)} from the bodies of diff_stats::net_num_*()."""
    out = {}
    for f in P.all_funcs():
        if f.cls != STATS or not f.n.startswith("net_num_"):
            continue
        ctx.analysed(f)
        rets = [n for n in f.nodes() if n["k"] == "ReturnStmt"]
        pair = None
        if len(rets) == 1 and rets[0].get("c"):
            e = strip_casts(rets[0]["c"][0])
            if e is not None and e["k"] == "BinaryOperator" and e.get("op") == "-":
                a, b = (strip_casts(x) for x in e["c"])
                if all(x is not None and x["k"] == "CXXMemberCallExpr" and not call_args(x)
                       and (f.decl(x) or {}).get("cls") == STATS for x in (a, b)):
                    pair = (f.decl(a)["n"], f.decl(b)["n"])
        out[f.n] = (pair, f)
    return out


def _stat_atom(f, n, pairs_by_pair):
    """atom name if n is `s.net_num_X()` or `s.num_A() - s.num_B_filtered_out()`"""
    n = strip_casts(n)
    if n is None:
        return None
    if n["k"] == "CXXMemberCallExpr":
        d = f.decl(n)
        if d is not None and d.get("cls") == STATS and d["n"].startswith("net_num_"):
            return d["n"]
    if n["k"] == "BinaryOperator" and n.get("op") == "-":
        a, b = (strip_casts(x) for x in n["c"])
        if all(x is not None and x["k"] == "CXXMemberCallExpr" for x in (a, b)):
            da, db = f.decl(a), f.decl(b)
            if da and db and da.get("cls") == STATS and db.get("cls") == STATS:
                return pairs_by_pair.get((da["n"], db["n"]))
    return None


def atoms_in(f, root, pairs_by_pair):
    out = set()
    skip = set()
    for n in walk(root):
        if n["i"] in skip:
            continue
        a = _stat_atom(f, n, pairs_by_pair)
        if a:
            out.add(a)
            for x in walk(n):
                skip.add(x["i"])
    return out


def disjuncts(n):
    n = strip_casts(n)
    if n is not None and n["k"] == "BinaryOperator" and n.get("op") == "||":
        return disjuncts(n["c"][0]) + disjuncts(n["c"][1])
    return [n]


def conjuncts(n):
    n = strip_casts(n)
    if n is not None and n["k"] == "BinaryOperator" and n.get("op") == "&&":
        return conjuncts(n["c"][0]) + conjuncts(n["c"][1])
    return [n]


def pred_atom(f, n, pairs_by_pair):
    """atom of one conjunct: net counter (optionally `!= 0`), soname_changed, architecture_changed,
    or ('other', text)"""
    n = strip_casts(n)
    if n is None:
        return ("other", "?")
    if n["k"] == "BinaryOperator" and n.get("op") == "!=":
        r = strip_casts(n["c"][1])
        if r is not None and r["k"] == "IntegerLiteral" and r.get("v") == 0:
            n = strip_casts(n["c"][0])
    a = _stat_atom(f, n, pairs_by_pair)
    if a:
        return ("net", a)
    if n["k"] == "CXXMemberCallExpr":
        d = f.decl(n)
        if d is not None and d["n"] in ("soname_changed", "architecture_changed"):
            return ("flag", d["n"])
        if d is not None and d.get("cls") == STATS:
            return ("raw", d["n"])
    return ("other", expr_str(f, n))


def verdict_disjuncts(f, pairs_by_pair):
    """The single boolean `return a || b || ...` of a verdict predicate -> list of conjunct-atom lists."""
    rets = [n for n in f.nodes() if n["k"] == "ReturnStmt" and n.get("c")]
    main = None
    for r in rets:
        e = strip_casts(r["c"][0])
        if e is not None and e["k"] == "BinaryOperator" and e.get("op") == "||":
            if main is not None:
                raise AnalysisBroken("%s has more than one disjunctive return" % f.sig)
            main = e
    if main is None:
        raise AnalysisBroken("verdict predicate %s is no longer a disjunction of counters" % f.sig)
    return [[pred_atom(f, c, pairs_by_pair) for c in conjuncts(d)] for d in disjuncts(main)], main


def load_exceptions():
    with open(os.path.join(TABLES, "atoms_exceptions.json")) as fh:
        return json.load(fh)


def summary_atoms(P, pairs_by_pair):
    """net counters printed by corpus_diff::priv::emit_diff_stats on the leaf branch, the default
    branch and outside both."""
    f = P.fn1("abigail::comparison::corpus_diff::priv::emit_diff_stats")
    leaf_if = None
    for n in f.nodes():
        if n["k"] == "IfStmt":
            cond = n["c"][0]
            if any(x["k"] == "CXXMemberCallExpr" and (f.decl(x) or {}).get("n") == "show_leaf_changes_only"
                   for x in walk(cond)):
                leaf_if = n
                break
    if leaf_if is None or leaf_if["c"][2] is None:
        raise AnalysisBroken("emit_diff_stats no longer branches on show_leaf_changes_only()")

    local_inits = {}
    for n in walk(f.body):
        if n["k"] == "VarDecl" and n.get("c"):
            local_inits[f.decl(n)["n"]] = n["c"][0]

    def printed(root, skip=None):
        """atoms that reach an ostream insertion inside root (directly or through a local)"""
        out = set()
        stack = [root]
        while stack:
            n = stack.pop()
            if n is None or (skip is not None and n["i"] == skip["i"]):
                continue
            if n["k"] == "CXXOperatorCallExpr" and n.get("op") == "<<":
                for a in call_args(n)[1:]:
                    out |= atoms_in(f, a, pairs_by_pair)
                    a0 = strip_casts(a)
                    if a0 is not None and a0["k"] == "DeclRefExpr":
                        nm = (f.decl(a0) or {}).get("n")
                        if nm in local_inits:
                            out |= atoms_in(f, local_inits[nm], pairs_by_pair)
            for k in ("init", "var"):
                if k in n:
                    stack.append(n[k])
            stack.extend(n.get("c", ()))
        return out

    leaf = printed(leaf_if["c"][1])
    dflt = printed(leaf_if["c"][2])
    common = printed(f.body, skip=leaf_if)
    # the soname / architecture lines
    flags = set()
    for n in walk(f.body):
        if n["k"] == "MemberExpr" and (f.decl(n) or {}).get("n") in ("sonames_equal_", "architectures_equal_"):
            flags.add({"sonames_equal_": "soname_changed", "architectures_equal_": "architecture_changed"}[f.decl(n)["n"]])
    return f, leaf, dflt, common, flags


def _member_fields(f, root, P=None):
    """names of data members of the enclosing class mentioned below root; with P, zero-argument
    member getters are looked through (the fields their body mentions count too)"""
    out = set()
    for n in walk(root):
        if n["k"] == "MemberExpr":
            d = f.decl(n)
            if d is not None and d["k"] == "Field":
                out.add(d["n"])
        if P is not None and n["k"] == "CXXMemberCallExpr" and not call_args(n):
            d = f.decl(n)
            g = P.funcs.get((d or {}).get("u"))
            if g is not None and g.cls == f.cls:
                out |= _member_fields(g, g.body)
    return out


def _out_param_sources(g, P=None):
    """{param name: containers} for `param = field.size()` and `++param` inside a loop over a container"""
    out = {}
    for n in g.nodes():
        if n["k"] == "BinaryOperator" and n.get("op") == "=":
            l = strip_casts(n["c"][0])
            if l is not None and l["k"] == "DeclRefExpr" and (g.decl(l) or {}).get("k") == "ParmVar":
                out.setdefault(g.decl(l)["n"], set()).update(_member_fields(g, n["c"][1]))
        if n["k"] == "UnaryOperator" and n.get("op") in ("++",):
            l = strip_casts(n["c"][0])
            if l is not None and l["k"] == "DeclRefExpr" and (g.decl(l) or {}).get("k") == "ParmVar":
                for anc in g.ancestors(n):
                    if anc["k"] == "ForStmt":
                        out.setdefault(g.decl(l)["n"], set()).update(
                            _member_fields(g, anc["c"][0], P) | _member_fields(g, anc["c"][1], P))
                        break
    return out


def feed_table(ctx, P):
    """{setter name: set of corpus_diff::priv containers whose size feeds it} read from
    corpus_diff::priv::apply_filters_and_compute_diff_stats."""
    f = P.fn1("abigail::comparison::corpus_diff::priv::apply_filters_and_compute_diff_stats")
    ctx.analysed(f)
    # locals -> containers they are computed from (passed together to a helper, or assigned from)
    local_src = {}
    for n in f.nodes():
        if n["k"] in ("CallExpr", "CXXMemberCallExpr"):
            args = call_args(n)
            fields = set()
            locs = set()
            for a in args:
                fields |= _member_fields(f, a)
                a0 = strip_casts(a)
                if a0 is not None and a0["k"] == "DeclRefExpr" and (f.decl(a0) or {}).get("k") == "Var":
                    locs.add(f.decl(a0)["n"])
            d = f.decl(n)
            if d is not None and d.get("cls") == STATS:
                continue
            helper = P.funcs.get(d.get("u")) if d is not None else None
            if helper is not None and not fields:
                # member helper with out-parameters: map each parameter to the containers it is set from
                pmap = _out_param_sources(helper, P)
                for i, a in enumerate(args):
                    a0 = strip_casts(a)
                    if a0 is not None and a0["k"] == "DeclRefExpr" and (f.decl(a0) or {}).get("k") == "Var" \
                            and i < len(helper.params()):
                        local_src.setdefault(f.decl(a0)["n"], set()).update(
                            pmap.get(helper.params()[i]["n"], set()))
                continue
            for l in locs:
                local_src.setdefault(l, set()).update(fields)
    table = {}
    for n in f.nodes():
        if n["k"] != "CXXMemberCallExpr":
            continue
        d = f.decl(n)
        if d is None or d.get("cls") != STATS or len(call_args(n)) != 1:
            continue
        a = call_args(n)[0]
        fields = _member_fields(f, a)
        for x in walk(a):
            if x["k"] == "DeclRefExpr" and (f.decl(x) or {}).get("k") == "Var":
                fields |= local_src.get(f.decl(x)["n"], set())
        # increments  stat.num_X(stat.num_X() + 1)  inside a loop over a container: the loop's range
        if not fields:
            for anc in f.ancestors(n):
                if anc["k"] == "ForStmt":
                    fields |= _member_fields(f, anc["c"][0]) | _member_fields(f, anc["c"][1])
                    break
                if anc["k"] == "CXXForRangeStmt":
                    fields |= _member_fields(f, anc["c"][0])
                    break
        table.setdefault(d["n"], set()).update(fields)
    return f, table


def has_changes_containers(ctx, P):
    """containers whose emptiness corpus_diff::has_changes() tests, and the flags it tests"""
    f = P.fn1("abigail::comparison::corpus_diff::has_changes")
    ctx.analysed(f)
    conts, flags = set(), set()
    for n in f.nodes():
        if n["k"] == "CXXMemberCallExpr":
            d = f.decl(n)
            if d is None:
                continue
            if d["n"] == "empty":
                conts |= _member_fields(f, n)
            if d["n"] in ("soname_changed", "architecture_changed"):
                flags.add(d["n"])
    conts.discard("priv_")
    return f, conts, flags
